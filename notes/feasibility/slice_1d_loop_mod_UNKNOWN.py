from z3 import *
import time
# iteration-level VC for _slice_1d positive step, invariant on running start/stop
start0, stop0, step, P, length, start, stop = Ints('start0 stop0 step P length start stop')
# P = prefix(i); block i = [P, P+length)
def pmod(a,b): return a % b   # z3 mod is nonneg for b>0 == python for b>0
pre = And(step>0, 0<=start0, start0<=stop0, length>=0, P>=0)
def Inv(P,start,stop):
    return And(stop == stop0 - P, start>=0, start+P>=start0, (start+P-start0)%step==0, Or(start<step, start+P==start0))
def prove(name,hyps,goal,timeout=60000):
    s=Solver(); s.set('timeout',timeout); s.add(hyps); s.add(Not(goal))
    t=time.time(); r=s.check(); print(name,'PROVED' if r==unsat else r, round(time.time()-t,2))
    if r==sat: print(s.model())
hyp=[pre, Inv(P,start,stop), stop>0]   # stop>0 from istop bound
take = And(start<length, stop>0)
# branch take
nstart = pmod(start-length, step)
prove('pres-take', hyp+[take], Inv(P+length, nstart, stop-length))
prove('pres-skip', hyp+[Not(take)], Inv(P+length, start-length, stop-length))
# piece correctness: slice(start, min(stop,length), step) selects rel positions r with: r>=start, (r-start)%step==0, r<min(stop,length)
# claim: these are exactly positions p=P+r with p>=start0, (p-start0)%step==0, p<stop0, P<=p<P+length
r=Int('r')
e = If(stop<length, stop, length)
inpiece = And(r>=start, (r-start)%step==0, r<e)
selected = And(P+r>=start0, (P+r-start0)%step==0, P+r<stop0, r>=0, r<length)
prove('piece-exact', hyp+[take], inpiece==selected)
# skipped block has no selected positions
prove('skip-empty', hyp+[Not(take)], Not(selected))
# mutation: start = (start - length) % step  ->  (length - start) % step
prove('MUT pres-take', hyp+[take], Inv(P+length, pmod(length-start,step), stop-length))
