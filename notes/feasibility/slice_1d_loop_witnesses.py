from z3 import *
import time
start0, stop0, step, P, length, start, stop = Ints('start0 stop0 step P length start stop')
m, q, rr = Ints('m q rr')
pre = And(step>0, 0<=start0, start0<=stop0, length>=0, P>=0)
def Inv(P,start,stop,m):
    return And(stop == stop0 - P, start>=0, m>=0, start+P==start0+m*step, Or(start<step, m==0))
def prove(name,hyps,goal,timeout=60000, solver='z3'):
    s=Solver(); s.set('timeout',timeout); s.add(hyps); s.add(Not(goal))
    t=time.time(); r=s.check(); print(name,'PROVED' if r==unsat else r, round(time.time()-t,2))
    if r==sat: print(s.model())
    return s
hyp=[pre, Inv(P,start,stop,m), stop>0]
take = And(start<length, stop>0)
# (start-length) % step: witness q, rr
moddef = And(start-length == q*step + rr, 0<=rr, rr<step)
m2 = Int('m2')
# need exists m2. Inv(P+length, rr, stop-length, m2): choose m2 = m - q
prove('pres-take', hyp+[take, moddef], Inv(P+length, rr, stop-length, m - q))
prove('pres-skip', hyp+[Not(take)], Inv(P+length, start-length, stop-length, m))
# piece exactness with witnesses: r in piece iff exists t>=0: r = start + t*step, r<e
r,t,u=Ints('r t u')
e = If(stop<length, stop, length)
# direction 1: piece -> selected   (r = start+t*step, t>=0, r<e) => P+r = start0+(m+t)*step, >=start0, <stop0, 0<=r<length
prove('piece->sel', hyp+[take, t>=0, r==start+t*step, r<e], And(P+r==start0+(m+t)*step, m+t>=0, P+r<stop0, r>=0, r<length))
# direction 2: selected -> piece:  P+r = start0+u*step, u>=0, P+r<stop0, 0<=r<length  => exists t>=0: r=start+t*step, r<e ; witness t=u-m ; need u>=m
prove('sel->piece', hyp+[take, u>=0, P+r==start0+u*step, P+r<stop0, r>=0, r<length], And(u-m>=0, r==start+(u-m)*step, r<e))
# skip-empty
prove('skip-empty', hyp+[Not(take), u>=0, P+r==start0+u*step, P+r<stop0, r>=0, r<length], BoolVal(False))
# hint: monotonic multiplication instance
hint = Implies(u<=m-1, (m-1-u)*step>=0)
prove('skip-empty+hint', hyp+[Not(take), u>=0, P+r==start0+u*step, P+r<stop0, r>=0, r<length, hint], BoolVal(False))
hint2 = Implies(u>=m, (u-m)*step>=0)
prove('skip-empty+hints', hyp+[Not(take), u>=0, P+r==start0+u*step, P+r<stop0, r>=0, r<length, hint, hint2], BoolVal(False))
