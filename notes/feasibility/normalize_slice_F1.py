from z3 import *
import time, itertools
# Optional[int] as (isnone, val)
def indices(sn, s, en, e, tn, t, n):
    """CPython PySlice_Unpack + AdjustIndices. returns (lo,hi,st)"""
    st = If(tn, 1, t)
    neg = st < 0
    lower = If(neg, -1, 0); upper = If(neg, n-1, n)
    def adj(isnone, v, default):
        return If(isnone, default, If(v < 0, If(v+n < lower, lower, v+n), If(v > upper, upper, v)))
    lo = adj(sn, s, If(neg, upper, lower))
    hi = adj(en, e, If(neg, lower, upper))
    return lo, hi, st
def rlen(lo,hi,st):
    return If(st>0, If(lo<hi, (hi-lo-1)/st+1, 0), If(hi<lo, (lo-hi-1)/(-st)+1, 0))
# validate model vs CPython on small scope
def py_check():
    vals=[None]+list(range(-6,7)); steps=[None,-3,-2,-1,1,2,3]
    s=Solver()
    sn,en,tn=Bools('sn en tn'); sv,ev,tv,n=Ints('sv ev tv n')
    lo,hi,st=indices(sn,sv,en,ev,tn,tv,n)
    L=rlen(lo,hi,st)
    bad=0;cnt=0
    for nn in range(0,6):
        for a,b,c in itertools.product(vals,vals,steps):
            plo,phi,pst=slice(a,b,c).indices(nn)
            m = {sn:a is None, sv:a or 0, en:b is None, ev:b or 0, tn:c is None, tv:c or 0, n:nn}
            sub=[(k,BoolVal(v) if isinstance(v,bool) else IntVal(v)) for k,v in m.items()]
            got=[simplify(substitute(x,*sub)) for x in (lo,hi,st,L)]
            cnt+=1
            if [g.as_long() for g in got]!=[plo,phi,pst,len(range(plo,phi,pst))]: bad+=1; print(nn,a,b,c,got,(plo,phi,pst))
    print('indices model validated',cnt,'bad',bad)
py_check()

# normalize_slice symbolic
def normalize_slice(sn,s,en,e,tn,t,dim, fixed=False):
    lo,hi,st=indices(sn,s,en,e,tn,t,dim)
    # positive branch
    p_sn = lo==0
    p_en0 = hi>=dim
    p_tn = st==1
    # if stop is not None and start is not None and stop < start: stop = start
    p_e = If(And(Not(p_en0), Not(p_sn), hi<lo), lo, hi)
    # negative
    n_sn = lo >= dim-1
    n_en = hi < 0
    if fixed:
        empty = And(st<0, lo<0)
    else:
        empty = BoolVal(False)
    rsn = If(empty, False, If(st>0, p_sn, n_sn)); rs = If(empty, 0, lo)
    ren = If(empty, False, If(st>0, p_en0, n_en)); re_ = If(empty, 0, If(st>0, p_e, hi))
    rtn = If(empty, False, If(st>0, p_tn, False)); rt = st
    return rsn,rs,ren,re_,rtn,rt
def run(fixed):
    sn,en,tn=Bools('sn en tn'); sv,ev,tv,dim,k=Ints('sv ev tv dim k')
    o=normalize_slice(sn,sv,en,ev,tn,tv,dim,fixed)
    lo,hi,st=indices(sn,sv,en,ev,tn,tv,dim)
    lo2,hi2,st2=indices(*o,dim)
    s=Solver(); s.set('timeout',60000)
    s.add(dim>=0, Or(tn, tv!=0))
    s.add(Or(rlen(lo,hi,st)!=rlen(lo2,hi2,st2), And(0<=k,k<rlen(lo,hi,st), lo+k*st != lo2+k*st2)))
    t=time.time(); r=s.check(); print('normalize_slice fixed=%s'%fixed, r, round(time.time()-t,2))
    if r==sat:
        m=s.model()
        print({str(d):m[d] for d in m.decls() if d.name() in ('sn','en','tn','sv','ev','tv','dim','k')})
run(False); run(True)
