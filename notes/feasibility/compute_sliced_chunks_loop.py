from z3 import *
import time
S = DeclareSort('IntSeq')
slen = Function('len', S, IntSort())
at = Function('at', S, IntSort(), IntSort())
ssum = Function('sum', S, IntSort())
prefix = Function('prefix', S, IntSort(), IntSort())
app = Function('append', S, IntSort(), S)
empty = Const('empty', S)
s = Const('s', S); x, i, j = Ints('x i j')
AX = [
  ForAll([s], slen(s) >= 0, patterns=[slen(s)]),
  slen(empty)==0, ssum(empty)==0,
  ForAll([s,x], And(slen(app(s,x))==slen(s)+1, ssum(app(s,x))==ssum(s)+x, at(app(s,x), slen(s))==x), patterns=[app(s,x)]),
  ForAll([s,x,j], Implies(And(0<=j, j<slen(s)), at(app(s,x), j)==at(s,j)), patterns=[at(app(s,x), j)]),
  ForAll([s], prefix(s,0)==0, patterns=[prefix(s,0)]),
  ForAll([s,i], Implies(And(0<=i, i<slen(s)), prefix(s,i+1)==prefix(s,i)+at(s,i)), patterns=[prefix(s,i+1)]),
  ForAll([s], ssum(s)==prefix(s,slen(s)), patterns=[ssum(s)]),
]
def prove(name, hyps, goal):
    sol = Solver(); sol.set('timeout', 20000)
    sol.add(AX); sol.add(hyps); sol.add(Not(goal))
    t=time.time(); r=sol.check()
    print(name, 'PROVED' if r==unsat else r, round(time.time()-t,2))
    if r==sat: print(sol.model())
chunks = Const('chunks', S); res = Const('res', S)
start, stop, dim, pos, k = Ints('start stop dim pos k')
def mx(a,b): return If(a>b,a,b)
def mn(a,b): return If(a<b,a,b)
pre = And(ssum(chunks)==dim, 0<=start, start<stop, stop<=dim, ForAll([j], Implies(And(0<=j,j<slen(chunks)), at(chunks,j)>=0), patterns=[at(chunks,j)]))
def Inv(i,pos,res): return And(0<=i, i<=slen(chunks), pos==prefix(chunks,i), ssum(res)==mx(0, mn(pos,stop)-start))
# init
prove('init', [pre], Inv(0,0,empty))
# preserve: iteration i
i0=Int('i0'); cs=at(chunks,i0); cstart=pos; cend=pos+cs
hyp=[pre, Inv(i0,pos,res), i0<slen(chunks)]
# path continue
prove('pres-continue', hyp+[cend<=start], Inv(i0+1,cend,res))
# path break -> post
post=lambda r: ssum(r)==stop-start
prove('break-post', hyp+[Not(cend<=start), cstart>=stop], post(res))
# path append
inc = mn(cend,stop)-mx(cstart,start)
prove('pres-append', hyp+[Not(cend<=start), Not(cstart>=stop)], Inv(i0+1,cend,app(res,inc)))
# exit
prove('exit-post', [pre, Inv(slen(chunks),pos,res)], post(res))
# mutation: included_start = min instead of max
inc2 = mn(cend,stop)-mn(cstart,start)
prove('MUT pres-append', hyp+[Not(cend<=start), Not(cstart>=stop)], Inv(i0+1,cend,app(res,inc2)))
