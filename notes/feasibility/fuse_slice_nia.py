from z3 import *
import time
n,a0,a1,as_,b0,b1,bs,k = Ints('n a0 a1 as b0 b1 bs k')
a1none, b1none = Bools('a1none b1none')
def cdiv(x,y): return (x + y - 1)/y
def norm(start, stop, stopnone, step, n):
    s = If(start>n, n, start)
    e = If(stopnone, n, If(stop>n, n, stop))
    ln = If(e>s, cdiv(e-s, step), 0)
    return s, e, ln
def run(mut):
    sa, ea, la = norm(a0,a1,a1none,as_,n)
    sb, eb, lb = norm(b0,b1,b1none,bs,la)
    f0 = a0 + as_*b0
    fstopnone = And(b1none, a1none)
    bstop = a0+as_*b1 + (1 if mut==1 else 0)
    if mut==3:
        fstop = If(b1none, a1, bstop)   # forget min with a.stop
    else:
        fstop = If(b1none, a1, If(a1none, bstop, If(a1 < bstop, a1, bstop)))
    fs = as_*bs if mut!=2 else as_+bs
    sf, ef, lf = norm(f0, fstop, fstopnone, fs, n)
    pre = And(n>=0,a0>=0,a1>=0,as_>0,b0>=0,b1>=0,bs>0)
    s = Solver(); s.set('timeout', 60000)
    s.add(pre)
    s.add(Or(lf != lb, And(k>=0,k<lb, sa + as_*(sb + bs*k) != sf + fs*k)))
    t=time.time(); r = s.check()
    print(mut, r, round(time.time()-t,2), s.model() if r==sat else '')
for m in (0,1,2,3): run(m)
