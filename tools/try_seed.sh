#!/bin/sh
# tools/try_seed.sh <seed-dir> <PROP> [more props]: apply patch to /repo, run checks, undo.
seed="$1"; shift
cd /repo || exit 3
git -C /repo status --short | grep -v '^??' | head -3
git -C /repo apply "$seed/patch.diff" || { echo "patch does not apply"; exit 3; }
for p in "$@"; do
  (cd /verif && VERIF_EVIDENCE_DIR=/tmp/seed_ev ./check "$p" 2>&1 | grep -E "VIOLATION|UNDECIDED|CHECKER|KNOWN|obligations=" | cut -c1-300)
done
echo "--- demo:"
(cd /repo && PYTHONPATH=/repo /venv/bin/python "$seed/demo.py" 2>&1 | tail -3; echo "demo exit=$?")
git -C /repo checkout -- . 
git -C /repo status --short | grep -v '^??' | head -3
