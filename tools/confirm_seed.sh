#!/bin/sh
# tools/confirm_seed.sh <worktree>: confirm (a) suite passes with the change, (b) demo fails with it, (c) demo passes without
wt="$1"
cd "$wt" || exit 3
echo "== $wt"
PYTHONPATH="$wt" /venv/bin/python -c "import dask_array; print(dask_array.__file__)"
PYTHONPATH="$wt" /venv/bin/python -m pytest -q -p no:cacheprovider -n 8 --timeout=900 dask_array 2>&1 | tail -1
PYTHONPATH="$wt" /venv/bin/python _seed/demo.py > /tmp/demo_with.txt 2>&1; echo "demo with change: exit=$?"
git stash -q
PYTHONPATH="$wt" /venv/bin/python _seed/demo.py > /tmp/demo_without.txt 2>&1; echo "demo without change: exit=$?"
git stash pop -q
git status --short | grep -v '^??' | head -3
