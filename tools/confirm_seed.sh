#!/bin/sh
# tools/confirm_seed.sh <worktree>: confirm (a) suite passes with the change, (b) demo fails with it, (c) demo passes without
wt="$1"
cd "$wt" || exit 3
echo "== $wt"
git checkout -q -- dask_array 2>/dev/null
git apply _seed/patch.diff || { echo "patch does not apply to a clean tree"; exit 3; }
PYTHONPATH="$wt" /venv/bin/python -c "import dask_array; print(dask_array.__file__)"
PYTHONPATH="$wt" /venv/bin/python -m pytest -q -p no:cacheprovider -n 8 --timeout=900 dask_array 2>&1 | tail -1
PYTHONPATH="$wt" /venv/bin/python _seed/demo.py > /tmp/demo_with.txt 2>&1; echo "demo with change: exit=$?"
git apply -R _seed/patch.diff
PYTHONPATH="$wt" /venv/bin/python _seed/demo.py > /tmp/demo_without.txt 2>&1; echo "demo without change: exit=$?"
git apply _seed/patch.diff
git status --short | grep -v '^??' | head -3
