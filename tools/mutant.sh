#!/bin/sh
# tools/mutant.sh <relpath> <old-text> <new-text> <PROP> [extra check args]
# scratch copy of /repo's dask_array with one textual replacement; runs ./check against it.
set -e
rel="$1"; old="$2"; new="$3"; prop="$4"; shift 4
d=$(mktemp -d /tmp/mut.XXXXXX)
cp -r /repo/dask_array "$d/"; cp /repo/pyproject.toml "$d/"
python3 - "$d/$rel" "$old" "$new" <<'PY'
import sys
p, old, new = sys.argv[1:4]
s = open(p).read()
assert s.count(old) >= 1, "pattern not found"
open(p, "w").write(s.replace(old, new, 1))
PY
cd /verif
VERIF_REPO="$d" VERIF_EVIDENCE_DIR="$d/ev" ./check "$prop" "$@" 2>&1 | grep -E "VIOLATION|UNDECIDED|CHECKER|KNOWN|obligations=" | cut -c1-260
echo "exit=$?"
rm -rf "$d"
