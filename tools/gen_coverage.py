#!/usr/bin/env python3
"""Regenerate the coverage table of DESIGN.md section 8.2 (between the COVERAGE markers) from evidence/*.json, so the
numbers quoted in the design document are the ones the checks last wrote."""
import glob
import json
import os
import re

ROOT = os.path.dirname(os.path.dirname(os.path.abspath(__file__)))


def short(k):
    return k.split("::", 1)[1] if "::" in k else k


def main():
    rows = []
    for f in sorted(glob.glob(os.path.join(ROOT, "evidence", "C*.json"))):
        e = json.load(open(f))
        cov = e["coverage"]
        fns = [x for x in cov.get("functions_under_contract", []) if not x["contract"].startswith("pyvc/")]
        l1 = ", ".join(f"{short(x['contract'])} ({x['obligations']})" for x in fns) or "–"
        lem = sum(x["obligations"] for x in cov.get("functions_under_contract", []) if x["contract"].startswith("pyvc/"))
        if lem:
            l1 += f"; prelude lemmas ({lem})"
        fr = cov.get("frame") or {}
        l3 = ", ".join(f"{k}: {v.get('sites', '?')} sites" for k, v in (fr.get("analyses") or {}).items()) or "–"
        b = cov.get("bounded") or []
        l2 = ", ".join(f"{short(x['key'])} ({x.get('pre_true', x.get('evaluations', '?'))})" for x in b) or "–"
        kf = cov.get("known_findings_reported") or []
        rows.append(f"| {e['property_id']} | {e['level']} | {cov['discharged']}/{cov['obligations']} | {l1} | {l3} | {l2} | "
                    f"{len(kf)} | {e.get('wall_s', '?')} |")
    head = ("| id | level | L1 discharged/generated | L1 units: contract (obligations) | L3 analyses | L2 bounded stand-ins: contract "
            "(inputs satisfying the precondition) | known findings printed | wall s |\n|----|----|----|----|----|----|----|----|\n")
    table = head + "\n".join(rows) + "\n"
    p = os.path.join(ROOT, "DESIGN.md")
    s = open(p).read()
    a, b = "<!-- COVERAGE:BEGIN -->", "<!-- COVERAGE:END -->"
    if a not in s:
        raise SystemExit("markers missing in DESIGN.md")
    s = re.sub(re.escape(a) + r".*?" + re.escape(b), a + "\n" + table + b, s, flags=re.S)
    open(p, "w").write(s)
    print(table)


if __name__ == "__main__":
    main()
