#!/usr/bin/env python3
"""Regenerate MANIFEST.json from pyvc/propcfg.py (levels) and the texts below, so that the claimed level in the
manifest can never disagree with the level the check writes into its evidence."""
import json
import sys

sys.path.insert(0, "/verif")
from pyvc.propcfg import PROPS

T = "contract-based deductive verification: AST->SMT VCs over the real source, sidecar contracts, z3/cvc5"
TF = "contract-based verification of frame conditions: static ownership/effect analysis of the real AST (all inputs)"
TB = "contracts on the real functions, bounded stand-in only (exhaustive small-scope evaluation of the executable contracts)"
BASE = ("Trusted: the pyvc translation, prelude models (re-validated against CPython each run), induction schema for prelude "
        "lemmas, SMT solvers. ")

TEXT = {
 "C02": ("The rewrites whose body is index arithmetic are proved from the real source for all inputs: slice-of-slice fusion (fuse_slice, slice and integer cases), slice into a source region (FromArray._accept_slice at rank 1 by record abstraction: unit-step region invariant, region = composition, chunk sums; _compose_slices for all steps), sliced chunk sizes. Every rewrite that fires on a catalogue of rewrite-target compositions is validated before/after, and the raw/simplified/lowered/fused phases compared, as a bounded stand-in.",
         BASE + "Rewrites whose correctness is a fact about NumPy kernels (slice through elemwise/transpose/reduction/overlap, fusion) are bounded only; record abstraction assumes the listed contracts of constructors and tokenize.", T),
 "C03": ("The chunk formulas are proved against the block plans from the real source (_slice_1d pieces, _compute_sliced_chunks sums); the materialisation barrier (_materialize) and the layout barrier (ChunksFreeze.lower_once) are proved on every control-flow path by record abstraction (advertised chunks or raise) and _chunks_match is proved to be equality of block sizes. Block shapes of whole graphs are a bounded stand-in over the catalogue.",
         BASE + "Record abstraction assumes contracts on optimiser calls (_lower, fuse, rechunk, RootAlias) and the naming invariant (C06); dtype and kernel-produced block sizes are bounded only.", T),
 "C04": ("_materialize pins the raw root name on every return path (proved by record abstraction, all inputs); _slice_1d keys are valid block numbers, and the block coordinates blockwise / elemwise tasks refer to (_compute_block_id, _broadcast_block_id) lie inside the operand's grid (proved). Closure, acyclicity and key grids of whole graphs, and key/name consistency across in-place operations, are bounded stand-ins over the catalogue.",
         BASE + "Assumed contracts on optimiser calls; graph-level clauses bounded only.", T),
 "C10": ("Frame condition decided for all inputs by a static ownership analysis of every chunk-level kernel's real AST: each in-place write (element store, augmented assignment, any out=, in-place method, np.copyto) targets storage freshly allocated on every path that reaches it. Bounded additions: a source registered with a lock is read only while the lock is held whatever rewrites moved into the read; executing a random collection's graph twice gives the same numbers.",
         "Trusted: the aliasing/allocating catalogue of NumPy operations, declared frames/owned parameters/fresh callables (listed in evidence), purity => schedule independence (B3). Thread-level races inside NumPy or user functions are not decided.", TF),
 "C11": ("Frame of in-place operations decided statically for all inputs: Array._expr is assigned only in the sanctioned methods, _replace_expr drops every cached derivation unconditionally, expressions never mutate operands, the setitem kernel writes only to a fresh copy. Assignment values, keys and earlier-derived collections are checked on bounded in-place sequences. Proved from the real source (a fragment of setitem_array_expr): the block-local slice of a strided assignment key selects exactly the block's share of the selected positions, and a block is skipped exactly when it holds none; n-d mixed keys and multi-chunk dask values are bounded.",
         "Trusted: as C10. where()-based mask assignment and out= ufunc values are bounded only.", TF),
 "C12": ("For the integer/slice core of indexing the deciding step is proof: normalize_slice preserves the selection and yields canonical bounds, check_index refuses exactly the out-of-range integers, posify_index wraps negatives, and _slice_1d's per-block plan (int and slice, both step signs, any chunking incl. zero-length chunks) partitions exactly the selected positions - VCs from the real source discharged for all inputs. new_blockdim's entries are proved to be the per-piece selection counts in output order. Tuple-level normalisation, integer-list take, vindex points and .blocks are bounded stand-ins against NumPy.",
         BASE + "vindex, boolean dask masks and integer dask-array indices are not decided.", T),
 "C13": ("Verification conditions are generated on every run from the real source of the slice-algebra helpers (normalize_slice, posify_index, _normalize_slice_for_fusion, fuse_slice, _compose_slices, _compute_sliced_chunks, _slice_1d with full loop invariants for both step signs, new_blockdim) against sidecar contracts whose postconditions are the property's own statement, and discharged by SMT for all inputs.",
         BASE + "new_blockdim is proved entry by entry (each chunk size = number of positions its piece selects, in output order; float ceil treated as exact, A3); that the sizes add up to the selection length, and the list/tuple-walk specialisations of fuse_slice, are bounded only.", T),
 "C14": ("Bounded stand-in: x.rechunk(spec) for ints, tuples, dicts, -1, None, 'auto', byte strings, explicit tuples, balance and block_size_limit has the chunks that normalising the spec gives and unchanged values, alone and followed by slices/transposes; every rechunk-related rewrite that fires is validated. The crosswalk and plan contracts are under C15.",
         "Not proved. p2p method and concatenate3 are not covered.", TB),
 "C15": ("divide_to_width is proved from the real source for all inputs (sum preserved, width bound, the code's own assert). Plan-level clauses (finite list of chunkings ending in the new chunking, budget) and the crosswalk are bounded stand-ins; F3 is a recorded known finding.",
         BASE + "plan_rechunk, find_merge_rechunk, _bound_degree, merge_to_number and old_to_new/_intersect_1d are bounded only.", T),
 "C16": ("Uniform layouts (blockdims_from_blockshape, _convert_int_chunk_to_tuple, normalize_chunks for integer and explicit-tuple specifications, rank 1 and 2) and round_to are proved from the real source for EVERY integer size: the preconditions no longer assume positive sizes, so the refusal of negative sizes, of 0 on a non-empty axis and of negative entries in explicit tuples is part of what is proved. normalize_chunks over all specification kinds and the 'auto' byte bound are a bounded stand-in; F4 is a recorded known finding with the residual bound limit x tolerance enforced.",
         BASE + "auto_chunks uses x**(1/k) and medians: bounded only.", T),
 "C17": ("moved_fraction is proved in [0,1], 0 for identical layouts and 0 for pure splits from the real loops (with termination). The merging walk of common_blockdim is proved as a fragment for two and three non-trivial layouts: same total, positive blocks, every boundary of every input kept (the layout only splits). common_blockdim's prologue and unify_chunks_expr (one common layout, refine only splits, no growth beyond the limit, values) are bounded stand-ins over policies and limits.",
         BASE + "unify_chunks_expr's cost logic is bounded only.", T),
 "C18": ("Proved for all inputs (keepdims): one partial-reduction layer with group size k leaves ceil(n/k) unit blocks on every reduced axis and keeps the others (PartialReduce.chunks, rank 1-3); the canonical fan-in is >= 2 on every reduced axis and absent elsewhere (_normalize_split_every, int and dict forms, one and two axes); and the cascade built by _build_tree_reduce_expr -- depth-1 partial layers and the aggregate layer -- leaves exactly one block on every reduced axis and keeps the block count of the others (rank 1; rank 2 with one or both axes reduced), given the depth bound k**depth >= n of the float logarithm (assumed there, validated on the real function by a bounded contract); nested-ceiling and power-monotonicity lemmas proved by the induction schema. Bounded stand-in for the values: 28 reducers (incl. central moments of order 3-5, ptp, count_nonzero, average, topk) over axes, keepdims, split_every and layouts equal NumPy; the reduction tree reaches one block (depth bound incl. the float logarithm) for n up to 2000 (quick) / 200000 blocks.",
         BASE + "The values (combine / aggregate kernels, numerical associativity) are bounded only; toolz.partition_all is modelled (validated against the library each run); the depth bound is assumed.", TB),
 "C19": ("ensure_minimum_chunksize is proved from the real loop for all inputs (total kept, every chunk >= size, or ValueError exactly when the axis is shorter). The guards supports_native_sliding_window / supports_native_moving_window and the banded plans SlidingWindowReduction._block_plan / MovingWindowReduction._block_plan (rows with None and range columns) are proved; for the sliding plan: under the guard, window t of block q is exactly the block's suffix from t, the whole middle blocks and the first band_offset+t+1 elements of the band blocks b..e. sliding_window_view alone and under reductions (windows larger than a block), overlap boundaries, diff, gradient and cumulative scans are bounded stand-ins against the NumPy definitions.",
         BASE + "The NumPy kernels fed by the plans, overlap and scans are bounded only.", T),
 "C20": ("The layout barrier ChunksFreeze.lower_once is proved on every path (frozen layout or raise) by record abstraction and _chunks_match is proved to be equality of block sizes; Blockwise._idx_to_block (rank 1-3) is proved to give every output label -- also a new axis -- the output block's own coordinate, and ArrayExpr._preserve_grid_contract to let a pushdown through only when it keeps the grid; the block_info / block_id payload of map_blocks is a bounded stand-in over the catalogue including layout-drifting inputs and multi-chunk new axes.",
         BASE + "Assumed contracts on lower_once/rechunk/cache; payload arithmetic bounded only.", T),
 "C24": ("Region composition (_compose_slices, all steps), sliced chunk sizes (_compute_sliced_chunks) and the slice-into-source rewrite (FromArray._accept_slice: the new region keeps unit steps - what the offset reads of _layer require -, equals the composition, chunks add up; on the eager-copy path of in-memory sources the copied elements are that same composition, by a ghost origin region on the new source) are proved from the real source for all inputs; that every request to a recording source is an in-bounds basic slice returning NumPy's elements is a bounded stand-in, also with the NumPy eager-slice limit set to 0.",
         BASE + "_layer and _accept_rechunk are bounded only; rank > 1 by the per-axis structure of the code.", T),
 "C25": ("The region/block index composition store relies on (fuse_slice: slice, integer and tuple-of-slices cases at rank 1 and 2, _normalize_slice_for_fusion) is proved from the real source for all inputs, and so is the store kernel load_store_chunk at rank 1 (effect log: exactly one element store into the target, at region composed with the block index, the block as value; none for an empty block). End-to-end writes (whole target, offset and strided regions, several pairs, delayed, return_stored) are a bounded stand-in over the catalogue; F8 is a recorded known finding.",
         BASE + "load_store_chunk's single write site is covered by the C10 frame analysis; npy-stack round trip and locks are not covered.", T),
 "C26": ("Decided for all import orders by a static import-effect analysis over every dask_array module: nothing executed at import time can reach xarray registration; register() is the only caller of _ensure_registered; no entry point. The value clause rests on the moving-window rewrite used by xarray's rolling path: its guard and block plan are proved (shared with C19) and rolling / cumulative samples are compared in fresh interpreters after register() (bounded).",
         "Trusted: Python's import semantics as modelled (module top levels, class bodies, decorators, defaults). The 'same values' clause and xarray's own plugin discovery are not decided.", TF),
 "C27": ("moved_fraction's range, its zero on identical layouts and on pure splits, _rechunk_stage_transfer (one and two axes, known sizes: 0 <= min <= max, never NaN), and the overrides SliceSlicesIntegers.transfer_bytes, SlidingWindowReduction.transfer_bytes, MovingWindowReduction.transfer_bytes, PartialReduce.transfer_bytes (rank 1), Blockwise.transfer_bytes (three index patterns) and the ArrayExpr default are proved from the real code. 'Same chunks move nothing' and every node's transfer_bytes (raw, optimised and materialised expressions of the catalogue) are bounded stand-ins.",
         BASE + "The transfer_bytes overrides are bounded only.", T),
 "C28": ("Proved for all inputs: a non-trivial basic index on an axis of unknown size is refused (slice_slices_and_integers, four typed specialisations), a rechunk along an unknown axis is accepted only when the layout is unchanged (_validate_rechunk, six specialisations), and the index helpers leave indices untouched on NaN axes. Bounded stand-in for the main statement: compute_chunk_sizes gives the true block sizes over the catalogue and boolean-mask selections, and every operation on an unknown-size array either refuses or equals NumPy (F9 is a recorded known finding). Proved in addition: the index helpers leave indices untouched on NaN axes (normalize_slice / posify_index / check_index).",
         "Mostly bounded; the proved part is small.", TB),
 "C23": ("Bounded stand-in only (contracts on the real random routines, evaluated over Generator and RandomState, nine distributions, three layouts, eight derived programs and both compute orders): a seeded random array is one realization -- recomputing it, every derived program, and rebuilding from the same seed, shape and chunks give the same values; executing a collection's graph does not advance generators stored in it, while the next draw from the same generator object differs.",
         "Nothing is proved: the property concerns mutable generator state consumed across a history of calls, which the function-level VC generator does not model. The NumPy bit generators are trusted.", TB),
 "C29": ("Static analysis of io/_from_array.py for all inputs: every read of the source object is confined to the ndarray-guarded branches. Bounded runs over recording sources check that builders (incl. in-place assignment of lazy values, where, map_blocks with user functions), metadata accessors and optimize() request nothing non-empty and call no user function on a non-empty block.",
         "User block functions and constructors are bounded only.", TF),
}

NA = {
 "C01": "quantifies over every program built from the public API against NumPy: no per-function contract decides it; the integer lemmas it rests on are claimed under C12-C19, C24",
 "C05": "relates seven entry points through dask's generic optimizer/scheduler; end-to-end agreement is differential testing, not a function contract",
 "C06": "global injectivity of tokenize-derived names over all program pairs; not a per-function postcondition (it appears as an assumed naming invariant in C03/C04)",
 "C07": "depends on dask.tokenize, cloudpickle and interpreter start-up state across processes; outside any contract on dask-array code",
 "C08": "termination/idempotence of the optimizer fixpoints is a whole-system liveness property; contracts are silent on it (local loop termination is proved where a decreases clause exists)",
 "C09": "quantifies over histories of whole programs sharing the lowering cache and over configurations of whole runs",
 "C21": "equivalence of two graph encodings for all programs through a generic translator; the native half cannot be built offline",
 "C22": "Rust extension cannot be built offline (pyo3 not in the cargo cache) and no deductive verifier for Rust is installed",
}

m = json.load(open("/verif/MANIFEST.json"))
checks = []
for pid in sorted(TEXT):
    text, note, tech = TEXT[pid]
    checks.append({
        "property_id": pid, "quick_cmd": f"./check {pid} --tier quick", "thorough_cmd": f"./check {pid} --tier thorough",
        "evidence_file": f"/verif/evidence/{pid}.json", "replay_cmd_template": "./check --replay {path}", "engine": "pyvc",
        "level_claimed": {"category": PROPS[pid]["level"], "text": text, "design_ref": f"DESIGN.md 5 {pid}, 8.2"},
        "level_note": note, "technique": tech})
m["checks"] = checks
m["not_applicable"] = [{"property_id": p, "reason": r} for p, r in NA.items()]
m["engines"][0]["serves_properties"] = sorted(TEXT)
_kf = [l for l in open("/verif/known_findings.jsonl") if l.strip()]
_nfixed = len({l.split()[2] for l in _kf if l.startswith("fixed:")})  # distinct fix: commits (one commit may close two records)
_nknown = sum(1 for l in _kf if l.startswith("{"))
m["notes"] = (f"No hooks in /repo; {_nfixed} unguarded 'fix:' commits repairing genuine defects in /repo and {_nknown} known-finding "
              "records kept open (DESIGN.md 8.3, 8.4, 8.7-8.14 and known_findings.jsonl). "
              "exit codes: 0 held, 1 violation, 2 undecided, 3 checker failure.")
json.dump(m, open("/verif/MANIFEST.json", "w"), indent=1)
print(len(checks), "checks;", len(m["not_applicable"]), "not applicable")
