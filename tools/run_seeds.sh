#!/bin/sh
# tools/run_seeds.sh [seed-id ...]: apply every stored seeded change (default: all) to a scratch copy of /repo's current
# tree, run the quick check of the property it breaks against that copy, and print one line per seed.
# Nothing in /repo or /verif/evidence is touched (VERIF_REPO / VERIF_EVIDENCE_DIR / VERIF_OUT point into the scratch dir).
cd /verif || exit 3
seeds="$*"
[ -z "$seeds" ] && seeds=$(ls seeded)
for id in $seeds; do
  prop=$(python3 -c "import json;print(json.load(open('seeded/$id/meta.json'))['property'])")
  d=$(mktemp -d /tmp/seedrun.XXXXXX)
  cp -r /repo/dask_array "$d/"; cp /repo/pyproject.toml "$d/"
  find "$d" -name __pycache__ -prune -exec rm -rf {} + 2>/dev/null
  if ! (cd "$d" && patch -p1 -s --no-backup-if-mismatch < /verif/seeded/$id/patch.diff >/dev/null 2>&1); then
    echo "$id $prop PATCH-DOES-NOT-APPLY (the code it changed has been repaired or rewritten since)"; rm -rf "$d"; continue
  fi
  out=$(VERIF_REPO="$d" VERIF_EVIDENCE_DIR="$d/ev" VERIF_OUT="$d/out" ./check "$prop" 2>&1)
  code=$?
  nviol=$(echo "$out" | grep -c "^VIOLATION")
  first=$(echo "$out" | grep "^VIOLATION" | head -2 | sed 's/.*replay=[^ ]*\///' | tr '\n' ' ')
  status=$(python3 -c "import json;print(json.load(open('seeded/$id/meta.json')).get('status',''))")
  echo "$id $prop exit=$code violations=$nviol $first $status"
  rm -rf "$d"
done
