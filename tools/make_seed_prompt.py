#!/usr/bin/env python3
"""tools/make_seed_prompt.py <PROP> <worktree>: print the prompt for a seeding sub-agent.  The agent is given only the property
text, its own scratch worktree and one-line summaries of the mechanisms earlier seeds for that property already used
(so that it picks a different one) -- nothing about /verif's contracts or checks."""
import json, os, sys, glob
pid, wt = sys.argv[1], sys.argv[2]
root = os.path.dirname(os.path.dirname(os.path.abspath(__file__)))
prop = next(json.loads(l) for l in open(os.path.join(root, "properties.jsonl")) if json.loads(l)["id"] == pid)
used = []
for m in sorted(glob.glob(os.path.join(root, "seeded", pid + "-*", "meta.json"))):
    d = json.load(open(m))
    used.append(" - " + d.get("summary", "")[:260].replace("\n", " "))
tpl = open(os.path.join(root, "tools", "seed_prompt_template.txt")).read()
text = f"{prop['id']}: {prop['title']}\n\n{prop['statement']}\n\nQuantified over: {prop['quantifier']['text']}\n\nAnchored in: {', '.join(prop['anchors']['files'])}"
os.makedirs(os.path.join(wt, "_seed"), exist_ok=True)
json.dump(prop, open(os.path.join(wt, "_seed", "PROPERTY.json"), "w"), indent=1)
print(tpl.replace("{WT}", wt).replace("{PROPTEXT}", text).replace("{USED}", "\n".join(used) or " (none)").replace("{PID}", pid))
