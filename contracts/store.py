"""Contract for the store kernel `load_store_chunk` (C25): what it writes, and where.

The block index handed to the kernel is composed with the user's region by `fuse_slice` (proved, tuple specialisations);
this unit proves that the kernel performs exactly one element store into `out`, at that composed index, with the block
as value -- and none at all for an empty block."""
from pyvc.contract import contract
from pyvc import spec as S
from contracts.slicing import composed

ST = "dask_array/io/_store.py"


def _ext_is_arraylike(ex, st, args, kwargs, node):
    """is_arraylike(x): some boolean"""
    return ex.fresh_value("bool", "is_arraylike")


def _ext_asanyarray(ex, st, args, kwargs, node):
    """np.asanyarray(x): an array holding x's elements (modelled as x itself)"""
    return args[0]


def _stores(env):
    ev = getattr(env, "__events__", ()) if env is not None else ()
    try:
        return [e for e in ev if e[0] == "store"]
    except TypeError:
        return []


def _lsc(spec, with_region):
    @contract(f"{ST}::load_store_chunk", spec=spec, props=["C25"])
    class load_store_chunk:
        """one block is written once, at region-composed-with-block-index (or at the block index when there is no
        region), and an empty block writes nothing; no other write to `out`"""
        params = {"x": "obj:Blk", "out": "obj:Target", "index": "tup:slice", "region": ("tup:slice" if with_region else "none"),
                  "lock": "none", "return_stored": "bool", "load_stored": "bool"}
        ghosts = {"n": "int", "k": "int"}
        fields = {"Blk": {"size": "int"}, "Target": {}, "View": {}}
        result = None
        externals = {"is_arraylike": _ext_is_arraylike, "np.asanyarray": _ext_asanyarray}
        havoc = {"out[index]": "obj:View"}
        raises = {"NotImplementedError": None}

        def requires(x, out, index, region, lock, return_stored, load_stored):
            from pyvc.spec import TupV
            cs = [x.get("size") >= 0]
            for t in (index, region):
                if isinstance(t, (TupV, tuple)):
                    cs += [S.step_ok(s) for s in (t.items if isinstance(t, TupV) else t)]
            return S.And(*cs)

        def ensures(result, x, out, index, region, lock, return_stored, load_stored, n, k, env=None, calls=None):
            from pyvc.spec import TupV, ObjV
            if isinstance(x, ObjV):
                stores = _stores(env)
                size = x.get("size")
                if len(stores) == 0:
                    return {"a-non-empty-block-is-written": size == 0}
                if len(stores) > 1:
                    return {"written-exactly-once": False}
                _, target, base, key, value, _line = stores[0]
                out_ok = {"written-exactly-once": True, "only-non-empty-blocks-are-written": size != 0,
                          "the-target-is-out-and-the-value-is-the-block": (base is out) and (value is x)}
                ka = list(key.items) if isinstance(key, TupV) else None
                if ka is None:
                    out_ok["index-is-a-tuple-of-slices"] = False
                    return out_ok
                ia = list(index.items)
                if with_region:
                    ra = list(region.items)
                    for d, (kk, r, i) in enumerate(zip(ka, ra, ia)):
                        for name, cl in composed(kk, r, i, n, k).items():
                            out_ok[f"axis{d}-written-{name}-are-region-then-block-index"] = cl
                else:
                    out_ok["written-at-the-block-index"] = S.And(*[S.slice_eq(a, b) for a, b in zip(ka, ia)])
                return out_ok
            # concrete: result is the log of element stores on the recording target
            log, size, N = result
            if size == 0:
                return {"a-non-empty-block-is-written": log == []}
            if len(log) != 1:
                return {"written-exactly-once": False}
            key = log[0]
            base = list(range(N))
            want = base[region[0]][index[0]] if with_region else base[index[0]]
            return {"written-exactly-once": True, "written-positions": base[key[0]] == want}

        def call(fn, x, out, index, region, lock, return_stored, load_stored):
            import numpy as np
            N = 12

            class Target:
                def __init__(self):
                    self.log = []

                def __setitem__(self, key, value):
                    self.log.append(key)

                def __getitem__(self, key):
                    return None

            t = Target()
            base = list(range(N))
            sel = base[region[0]][index[0]] if with_region else base[index[0]]
            blk = np.zeros(len(sel) if x.get("size") else 0)
            fn(blk, t, index, region, lock, return_stored, load_stored)
            return t.log, blk.size, N

        def ghost_domain(x, out, index, region, lock, return_stored, load_stored):
            return {"n": [12], "k": [0]}

        def domain(tier, rng):
            from pyvc.concrete import Rec
            sl = [slice(None), slice(0, 4), slice(2, 9), slice(1, None, 2), slice(3, 3), slice(0, 12, 3)]
            for i in sl:
                for r in (sl if with_region else [None]):
                    for size in (0, 1):
                        yield {"x": Rec(size=size), "out": Rec(), "index": (i,), "region": ((r,) if with_region else None),
                               "lock": None, "return_stored": False, "load_stored": False}

    load_store_chunk.__name__ = "load_store_chunk_" + spec.replace("-", "_")
    return load_store_chunk


LSC1 = _lsc("region-r1", True)
LSC2 = _lsc("no-region-r1", False)
