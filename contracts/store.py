"""Contract for the store kernel `load_store_chunk` (C25): what it writes, and where.

The block index handed to the kernel is composed with the user's region by `fuse_slice` (proved, tuple specialisations);
this unit proves that the kernel performs exactly one element store into `out`, at that composed index, with the block
as value -- and none at all for an empty block."""
from pyvc.contract import contract
from pyvc import spec as S
from contracts.slicing import composed

ST = "dask_array/io/_store.py"


def _ext_is_arraylike(ex, st, args, kwargs, node):
    """is_arraylike(x): some boolean"""
    return ex.fresh_value("bool", "is_arraylike")


def _ext_asanyarray(ex, st, args, kwargs, node):
    """np.asanyarray(x): an array holding x's elements (modelled as x itself)"""
    return args[0]


def _stores(env):
    ev = getattr(env, "__events__", ()) if env is not None else ()
    try:
        return [e for e in ev if e[0] == "store"]
    except TypeError:
        return []


def _lsc(spec, with_region):
    @contract(f"{ST}::load_store_chunk", spec=spec, props=["C25"])
    class load_store_chunk:
        """one block is written once, at region-composed-with-block-index (or at the block index when there is no
        region), and an empty block writes nothing; no other write to `out`"""
        params = {"x": "obj:Blk", "out": "obj:Target", "index": "tup:slice", "region": ("tup:slice" if with_region else "none"),
                  "lock": "none", "return_stored": "bool", "load_stored": "bool"}
        ghosts = {"n": "int", "k": "int"}
        fields = {"Blk": {"size": "int"}, "Target": {}, "View": {}}
        result = None
        externals = {"is_arraylike": _ext_is_arraylike, "np.asanyarray": _ext_asanyarray}
        havoc = {"out[index]": "obj:View"}
        raises = {"NotImplementedError": None}

        def requires(x, out, index, region, lock, return_stored, load_stored):
            from pyvc.spec import TupV
            cs = [x.get("size") >= 0]
            for t in (index, region):
                if isinstance(t, (TupV, tuple)):
                    cs += [S.step_ok(s) for s in (t.items if isinstance(t, TupV) else t)]
            return S.And(*cs)

        def ensures(result, x, out, index, region, lock, return_stored, load_stored, n, k, env=None, calls=None):
            from pyvc.spec import TupV, ObjV
            if isinstance(x, ObjV):
                stores = _stores(env)
                size = x.get("size")
                if len(stores) == 0:
                    return {"a-non-empty-block-is-written": size == 0}
                if len(stores) > 1:
                    return {"written-exactly-once": False}
                _, target, base, key, value, _line = stores[0]
                out_ok = {"written-exactly-once": True, "only-non-empty-blocks-are-written": size != 0,
                          "the-target-is-out-and-the-value-is-the-block": (base is out) and (value is x)}
                ka = list(key.items) if isinstance(key, TupV) else None
                if ka is None:
                    out_ok["index-is-a-tuple-of-slices"] = False
                    return out_ok
                ia = list(index.items)
                if with_region:
                    ra = list(region.items)
                    for d, (kk, r, i) in enumerate(zip(ka, ra, ia)):
                        for name, cl in composed(kk, r, i, n, k).items():
                            out_ok[f"axis{d}-written-{name}-are-region-then-block-index"] = cl
                else:
                    out_ok["written-at-the-block-index"] = S.And(*[S.slice_eq(a, b) for a, b in zip(ka, ia)])
                return out_ok
            # concrete: result is the log of element stores on the recording target
            log, size, N = result
            if size == 0:
                return {"a-non-empty-block-is-written": log == []}
            if len(log) != 1:
                return {"written-exactly-once": False}
            key = log[0]
            base = list(range(N))
            want = base[region[0]][index[0]] if with_region else base[index[0]]
            return {"written-exactly-once": True, "written-positions": base[key[0]] == want}

        def call(fn, x, out, index, region, lock, return_stored, load_stored):
            import numpy as np
            N = 12

            class Target:
                def __init__(self):
                    self.log = []

                def __setitem__(self, key, value):
                    self.log.append(key)

                def __getitem__(self, key):
                    return None

            t = Target()
            base = list(range(N))
            sel = base[region[0]][index[0]] if with_region else base[index[0]]
            blk = np.zeros(len(sel) if x.get("size") else 0)
            fn(blk, t, index, region, lock, return_stored, load_stored)
            return t.log, blk.size, N

        def ghost_domain(x, out, index, region, lock, return_stored, load_stored):
            return {"n": [12], "k": [0]}

        def domain(tier, rng):
            from pyvc.concrete import Rec
            sl = [slice(None), slice(0, 4), slice(2, 9), slice(1, None, 2), slice(3, 3), slice(0, 12, 3)]
            for i in sl:
                for r in (sl if with_region else [None]):
                    for size in (0, 1):
                        yield {"x": Rec(size=size), "out": Rec(), "index": (i,), "region": ((r,) if with_region else None),
                               "lock": None, "return_stored": False, "load_stored": False}

    load_store_chunk.__name__ = "load_store_chunk_" + spec.replace("-", "_")
    return load_store_chunk


LSC1 = _lsc("region-r1", True)
LSC2 = _lsc("no-region-r1", False)


@contract(f"{ST}::load_store_chunk", spec="region-r0", props=["C25"])
class load_store_chunk_r0:
    """a 0-d block (its block index is the empty tuple) stored with a region: the one element store goes to `out[region]`,
    not to `out[()]` -- the region is all there is to say where a 0-d source lands in a larger target"""
    params = {"x": "obj:Blk", "out": "obj:Target", "index": "const", "region": "tup:int", "lock": "none", "return_stored": "bool",
              "load_stored": "bool"}
    consts = {"index": ()}
    fields = {"Blk": {"size": "int"}, "Target": {}, "View": {}}
    result = None
    externals = {"is_arraylike": _ext_is_arraylike, "np.asanyarray": _ext_asanyarray}
    havoc = {"out[index]": "obj:View"}
    raises = {}

    def requires(x, out, index, region, lock, return_stored, load_stored):
        return x.get("size") >= 0

    def ensures(result, x, out, index, region, lock, return_stored, load_stored, env=None, calls=None):
        from pyvc.spec import TupV, ObjV
        if isinstance(x, ObjV):
            stores = _stores(env)
            size = x.get("size")
            if len(stores) == 0:
                return {"a-non-empty-block-is-written": size == 0}
            if len(stores) > 1:
                return {"written-exactly-once": False}
            _, target, base, key, value, _line = stores[0]
            ok = {"written-exactly-once": True, "only-non-empty-blocks-are-written": size != 0,
                  "the-target-is-out-and-the-value-is-the-block": (base is out) and (value is x)}
            ka = list(key.items) if isinstance(key, TupV) else None
            ok["written-at-the-region"] = ka is not None and len(ka) == 1 and S.val(ka[0]) == S.val(S.item(region, 0))
            return ok
        log, size = result
        if size == 0:
            return {"a-non-empty-block-is-written": log == []}
        return {"written-exactly-once": len(log) == 1, "written-at-the-region": len(log) == 1 and tuple(log[0]) == tuple(region)}

    def call(fn, x, out, index, region, lock, return_stored, load_stored):
        import numpy as np

        class Target:
            def __init__(self):
                self.log = []

            def __setitem__(self, key, value):
                self.log.append(key if isinstance(key, tuple) else (key,))

            def __getitem__(self, key):
                return None

        t = Target()
        blk = np.zeros(()) if x.get("size") else np.zeros((0,))
        fn(blk, t, index, region, lock, return_stored, load_stored)
        return t.log, blk.size

    def domain(tier, rng):
        from pyvc.concrete import Rec
        for r in (0, 3, 7):
            for size in (0, 1):
                yield {"x": Rec(size=size), "out": Rec(), "index": (), "region": (r,), "lock": None, "return_stored": False,
                       "load_stored": False}


# ---------------------------------------------------------------------------
# which scheduler runs the writes: in-memory targets must be written in this process
# ---------------------------------------------------------------------------
def _ext_nonlocal(ex, st, args, kwargs, node):
    """_nonlocal_scheduler_active(): some boolean (read from dask's configuration)"""
    v = ex.fresh_value("bool", "nonlocal_scheduler")
    st.env["__nonlocal__"] = v
    return v


def _ndarray_flags(targets):
    from pyvc.spec import TupV
    out = []
    for t in (targets.items if isinstance(targets, TupV) else targets):
        f = t.fields.get("__isinstance_np.ndarray")
        out.append(f.t if f is not None else None)
    return out


def _force_local(ntargets):
    @contract(f"{ST}::_force_local_store_scheduler", spec=f"{ntargets}-targets", props=["C25"])
    class force_local_store_scheduler:
        """store runs its writes on a local scheduler exactly when the caller chose none, the ambient scheduler would
        serialise the targets, and SOME target is an in-memory NumPy array (one is enough: its in-place write would
        otherwise land in a pickled copy and the caller's array would silently stay untouched)"""
        params = {"targets": "tup:" + ",".join(["obj:Tgt"] * ntargets), "scheduler": "optint"}
        result = "bool"
        fields = {"Tgt": {}, "__maybe__": {"Tgt": ["np.ndarray"]}}
        externals = {"_nonlocal_scheduler_active": _ext_nonlocal}

        def requires(targets, scheduler):
            return True

        def ensures(result, targets, scheduler, env=None, calls=None):
            from pyvc.spec import TupV
            if isinstance(targets, TupV):
                flags = _ndarray_flags(targets)
                some = S.Or(*[f for f in flags if f is not None]) if any(f is not None for f in flags) else False
                nonlocal_ = getattr(env, "__nonlocal__", None) if env is not None else None
                try:
                    nonlocal_ = env.__getattr__("__nonlocal__")
                except Exception:
                    nonlocal_ = None
                if nonlocal_ is None:
                    return {"local-scheduler-exactly-when-needed": S.And(S.Not(result), S.Not(S.is_none(scheduler)))}
                return {"local-scheduler-exactly-when-needed": S.Iff(result, S.And(S.is_none(scheduler), nonlocal_, some))}
            sched_kw, ambient, kinds = force_local_store_scheduler._concrete(targets, scheduler)
            want = sched_kw is None and ambient in ("processes", "multiprocessing") and any(kinds)
            return {"local-scheduler-exactly-when-needed": bool(result) == want}

        def _concrete(targets, scheduler):
            """bounded inputs are (scheduler keyword, ambient scheduler, which targets are ndarrays); a replayed
            counter-model has records for the targets and None / an int for the keyword (ambient: a process pool)"""
            if isinstance(scheduler, tuple):
                return scheduler
            kinds = tuple(bool(getattr(t, "__isinstance_np.ndarray", False)) for t in targets)
            return (None if scheduler is None else "threads"), "processes", kinds

        def call(fn, targets, scheduler):
            import numpy as np
            import dask
            sched_kw, ambient, kinds = force_local_store_scheduler._concrete(targets, scheduler)
            tg = [np.zeros(2) if k else object() for k in kinds]
            with dask.config.set(scheduler=ambient):
                return fn(tg, sched_kw)

        def domain(tier, rng):
            import itertools
            for kinds in itertools.product((False, True), repeat=ntargets):
                for ambient in (None, "threads", "sync", "processes"):
                    for sched_kw in (None, "threads"):
                        yield {"targets": None, "scheduler": (sched_kw, ambient, kinds)}

    force_local_store_scheduler.__name__ = f"force_local_store_scheduler_{ntargets}"
    return force_local_store_scheduler


FL1 = _force_local(1)
FL2 = _force_local(2)
FL3 = _force_local(3)
