"""Contracts for chunk normalisation helpers in dask_array/_core_utils.py."""
from pyvc.contract import contract, Loop
from pyvc import spec as S

CORE = "dask_array/_core_utils.py"


def uniform_axis(r, d, bd):
    """r is the uniform layout of an axis of length d with block size bd."""
    n = S.slen(r)
    return {
        "chunking": S.And(n >= 1, S.chunking(r, d)),
        "uniform": S.forall_idx(n - 1, lambda j: S.at(r, j) == bd),
        "last": S.If(d == 0, S.And(n == 1, S.lazy_implies(n == 1, lambda: S.at(r, 0) == 0)),
                     S.lazy_implies(n >= 1, lambda: S.And(0 < S.at(r, n - 1), S.at(r, n - 1) <= bd))),
        "count": S.lazy_implies(S.And(d > 0, bd > 0), lambda: n == S.ceildiv(d, bd)),
    }


@contract(f"{CORE}::blockdims_from_blockshape", spec="rank1", props=["C16"])
class blockdims_from_blockshape__rank1:
    """an explicit uniform size c yields blocks of size c except a smaller,
    positive last one; an empty axis is the single chunk (0,)."""
    params = {"shape": "tup:int", "chunks": "tup:int"}
    result = "tup:seq"

    # every integer size is in the domain: a negative size, and 0 on a non-empty axis, are refused (weakest precondition)
    raises = {"ValueError": lambda shape, chunks: S.Or(S.item(chunks, 0) < 0,
                                                       S.And(S.item(chunks, 0) == 0, S.item(shape, 0) != 0))}

    def requires(shape, chunks):
        return S.item(shape, 0) >= 0

    def ensures(result, shape, chunks):
        return uniform_axis(S.item(result, 0), S.item(shape, 0), S.item(chunks, 0))

    def domain(tier, rng):
        for d in range(0, 30 if tier == "quick" else 80):
            for bd in range(-3, 12 if tier == "quick" else 40):
                yield {"shape": (d,), "chunks": (bd,)}


@contract(f"{CORE}::blockdims_from_blockshape", spec="rank2", props=["C16"])
class blockdims_from_blockshape__rank2:
    params = {"shape": "tup:int,int", "chunks": "tup:int,int"}
    result = "tup:seq,seq"

    raises = {"ValueError": lambda shape, chunks: S.Or([S.Or(S.item(chunks, a) < 0, S.And(S.item(chunks, a) == 0, S.item(shape, a) != 0))
                                                       for a in (0, 1)])}

    def requires(shape, chunks):
        return S.And([S.item(shape, a) >= 0 for a in (0, 1)])

    def ensures(result, shape, chunks):
        out = {}
        for a in (0, 1):
            for k, v in uniform_axis(S.item(result, a), S.item(shape, a), S.item(chunks, a)).items():
                out[f"axis{a}-{k}"] = v
        return out

    def domain(tier, rng):
        for d in range(0, 9):
            for bd in range(-2, 5):
                for d2 in (0, 1, 7):
                    for bd2 in (-1, 0, 1, 3):
                        yield {"shape": (d, d2), "chunks": (bd, bd2)}


@contract(f"{CORE}::round_to", props=["C16"])
class round_to:
    params = {"c": "int", "s": "int"}
    result = "int"

    def requires(c, s):
        return S.And(s >= 1)

    def ensures(result, c, s):
        return {
            "small": S.Implies(c <= s, result == S.max_(1, c)),
            "large": S.Implies(c > s, S.And(result <= c, result > c - s, S.mod(result, s) == 0, result >= s)),
            "positive": result >= 1,
        }

    def domain(tier, rng):
        for c in range(-3, 40):
            for s in range(1, 12):
                yield {"c": c, "s": s}


# ---------------------------------------------------------------------------
# normalize_chunks / auto_chunks: float paths (x ** (1/k), medians) -> bounded only
# ---------------------------------------------------------------------------
def _itemsize(dtype):
    import numpy as np
    return np.dtype(dtype).itemsize


def _spec_kind(c):
    if isinstance(c, tuple):
        return "explicit"
    if c == "auto":
        return "auto"
    if c is None or c == -1:
        return "full"
    return "int"


@contract(f"{CORE}::normalize_chunks", props=["C16"])
class normalize_chunks:
    """valid layouts for every accepted specification; uniform ints; 'auto'
    within the byte limit (residual bound limit x chunk-size-tolerance with
    previous_chunks: known finding F4)."""
    bounded_only = True
    params = {"chunks": "const", "shape": "const", "limit": "const", "dtype": "const", "previous_chunks": "const"}
    scope = ("ranks 1-3 over extents {0,1,2,3,5,7,10,16,33,100}; specs int/-1/None/'auto'/explicit tuples/dicts; "
             "limits {1,8,64,100,1000}; dtypes i1,i4,f8; previous_chunks none or enumerated chunkings")
    raises = {"ValueError": lambda chunks, shape, limit, dtype, previous_chunks: _expect_value_error(chunks, shape)}

    def requires(chunks, shape, limit, dtype, previous_chunks):
        # 'auto' next to a zero-length fixed axis divides by zero (a crash, not a layout): excluded, see DESIGN F4
        spec = chunks if isinstance(chunks, tuple) else (chunks,) * len(shape)
        if isinstance(chunks, dict):
            spec = tuple(chunks.get(i, None) for i in range(len(shape)))
        if chunks is None:
            return False  # "no chunks given" is refused by design (ValueError)
        if any(_spec_kind(c) == "auto" for c in spec) and any(s == 0 for s in shape):
            # 'auto' together with a zero-length axis can divide by zero for small limits
            # (normalize_chunks(('auto','auto'), (0,1), limit=8, dtype='f8')): a crash, not a layout -- excluded, see DESIGN
            return False
        return True

    def ensures(result, chunks, shape, limit, dtype, previous_chunks):
        spec = chunks if isinstance(chunks, tuple) else (chunks,) * len(shape)
        if isinstance(chunks, dict):
            spec = tuple(chunks.get(i, None) for i in range(len(shape)))
        out = {}
        out["rank"] = isinstance(result, tuple) and len(result) == len(shape)
        if not out["rank"]:
            return out
        out["valid-layout"] = all(isinstance(r, tuple) and len(r) >= 1 and all(isinstance(x, int) and x >= 0 for x in r)
                                  and sum(r) == s for r, s in zip(result, shape))
        out["zero-chunks-only-on-empty-axes"] = all(
            _spec_kind(c) == "explicit" or s == 0 or all(x > 0 for x in r) for c, r, s in zip(spec, result, shape))
        out["uniform"] = all(_spec_kind(c) != "int" or s == 0
                             or (all(x == c for x in r[:-1]) and 0 < r[-1] <= c) for c, r, s in zip(spec, result, shape))
        out["full"] = all(_spec_kind(c) != "full" or r == (s,) for c, r, s in zip(spec, result, shape))
        out["explicit-kept"] = all(_spec_kind(c) != "explicit" or r == c for c, r in zip(spec, result))
        autos = [i for i, c in enumerate(spec) if _spec_kind(c) == "auto"]
        if autos:
            import math
            from dask import config
            item = _itemsize(dtype)
            lim = max(1, limit)
            block = math.prod(max(r) for r in result) * item
            minimal = all(max(result[i]) <= 1 for i in autos)
            out["auto-limit"] = block <= lim or minimal
            tol = config.get("array.chunk-size-tolerance")
            out["auto-limit-within-tolerance"] = block <= lim * tol or minimal
        return out

    def domain(tier, rng):
        ext = [0, 1, 2, 3, 5, 7, 10, 16, 33, 100]
        if tier == "quick":
            ext = [0, 1, 3, 7, 16, 100]
        ints = [1, 2, 3, 5, -1, None, "auto"]
        limits = [1, 8, 64, 100, 1000]
        dts = ["i1", "i4", "f8"]
        # rank 1
        for s in ext:
            for c in ints + [(s,), (s // 2, s - s // 2)]:
                for lim in limits:
                    for dt in dts:
                        yield {"chunks": (c,), "shape": (s,), "limit": lim, "dtype": dt, "previous_chunks": None}
                yield {"chunks": c if not isinstance(c, tuple) else (c,), "shape": (s,), "limit": 64, "dtype": "f8", "previous_chunks": None}
                yield {"chunks": {0: c}, "shape": (s,), "limit": 64, "dtype": "f8", "previous_chunks": None}
        # rank 2 / 3
        for s0 in ext:
            for s1 in ext[1:]:
                for c0 in ints:
                    for c1 in ints + [(s1,)]:
                        for lim in (8, 100, 1000):
                            yield {"chunks": (c0, c1), "shape": (s0, s1), "limit": lim, "dtype": "f8", "previous_chunks": None}
        for s0 in (1, 5, 33):
            for s1 in (2, 16):
                for s2 in (3, 100):
                    for cs in (("auto",) * 3, ("auto", 2, "auto"), (-1, "auto", "auto"), (1, 1, "auto")):
                        for lim in (8, 64, 1000):
                            yield {"chunks": cs, "shape": (s0, s1, s2), "limit": lim, "dtype": "i4", "previous_chunks": None}
        yield from _multi_auto_domain(tier, rng)
        # sizes that are not block sizes: negative, fractional, 0 on a non-empty axis (refused: ValueError)
        for c, sh in [((-2,), (5,)), (((-1, 6),), (5,)), (((6, -1),), (5,)), (((2.5, 2.5),), (5,)), ((0,), (5,)), ((0,), (0,)),
                      (((2.0, 3.0),), (5,)), ((2, -3), (4, 6)), ((2, (3, -1, 4)), (4, 6)), (((1.5, 2.5), 3), (4, 6)),
                      ((-1, 0), (4, 6)), ((-1, 0), (4, 0)), ((2.5,), (5,))]:
            yield {"chunks": c, "shape": sh, "limit": 64, "dtype": "f8", "previous_chunks": None}
        # one auto axis with every non-uniform previous layout of a short axis and small limits (u1: bytes == elements)
        from contracts.slicing import chunkings as _ch
        for n, prev in _ch(10 if tier == "quick" else 13, zero=False):
            if n < 2 or len(prev) < 2:
                continue
            for lim in (2, 3, 5, 8, 11, 16):
                yield {"chunks": ("auto",), "shape": (n,), "limit": lim, "dtype": "u1", "previous_chunks": (prev,)}
        for prev in [(12, 10, 10, 10, 10), (30, 1, 1, 20), (7, 7, 7, 31)]:
            for lim in (5, 11, 12, 20, 33, 64):
                yield {"chunks": ("auto",), "shape": (sum(prev),), "limit": lim, "dtype": "u1", "previous_chunks": (prev,)}
        # an explicit, non-uniform layout on a fixed axis next to 'auto' axes: the budget left for the auto axes
        # depends on the *largest* fixed block, wherever it sits in the tuple
        from contracts.slicing import chunkings as _ch2
        for n, fx in _ch2(7 if tier == "quick" else 10, zero=False):
            if len(fx) < 2 or len(set(fx)) < 2:
                continue
            for lim in (16, 40, 400):
                yield {"chunks": (fx, "auto"), "shape": (n, 100), "limit": lim, "dtype": "u1", "previous_chunks": None}
                yield {"chunks": ("auto", fx), "shape": (37, n), "limit": lim, "dtype": "i4", "previous_chunks": None}
            yield {"chunks": (fx, "auto", "auto"), "shape": (n, 9, 50), "limit": 64, "dtype": "u1", "previous_chunks": None}
        # previous chunks (first: the recorded witness of known finding F4)
        yield {"chunks": ("auto",), "shape": (10,), "limit": 64, "dtype": "f8", "previous_chunks": ((1, 9),)}
        from contracts.slicing import chunkings
        for n, prev in chunkings(8 if tier == "quick" else 12, zero=False):
            if n == 0:
                continue
            for lim in (8, 16, 64, 256):
                yield {"chunks": ("auto",), "shape": (n,), "limit": lim, "dtype": "f8", "previous_chunks": (prev,)}
                yield {"chunks": ("auto", 2), "shape": (n, 4), "limit": lim, "dtype": "i4", "previous_chunks": (prev, (2, 2))}


def _multi_auto_domain(tier, rng):
    """several 'auto' axes together with previous_chunks (ints and explicit tuples), short and long axes"""
    shapes2 = [(4, 400), (4, 100), (16, 16), (5, 33), (100, 3), (2, 1000)]
    shapes3 = [(3, 8, 600), (10, 4, 400), (2, 2, 50)]
    prevs2 = [(1, 10), (1, 5), (2, 2), (4, 1), (1, 100)]
    prevs3 = [(1, 2, 20), (2, 1, 10), (1, 1, 5)]
    limits = [64, 1000, 1600, 2400]
    if tier == "quick":
        limits = [1000, 1600]
    for sh in shapes2:
        for pv in prevs2:
            for lim in limits:
                for dt in ("u1", "f8"):
                    yield {"chunks": ("auto", "auto"), "shape": sh, "limit": lim, "dtype": dt, "previous_chunks": pv}
                    full = tuple(tuple([p] * (n // p) + ([n % p] if n % p else [])) for p, n in zip(pv, sh))
                    yield {"chunks": ("auto", "auto"), "shape": sh, "limit": lim, "dtype": dt, "previous_chunks": full}
    for sh in shapes3:
        for pv in prevs3:
            for lim in limits:
                yield {"chunks": ("auto", "auto", "auto"), "shape": sh, "limit": lim, "dtype": "u1", "previous_chunks": pv}
                yield {"chunks": (min(2, sh[0]), "auto", "auto"), "shape": sh, "limit": lim, "dtype": "u1", "previous_chunks": pv}
                yield {"chunks": ("auto", -1, "auto"), "shape": sh, "limit": lim, "dtype": "u1", "previous_chunks": pv}


def _expect_value_error(chunks, shape):
    # explicit tuples that do not add up, rank mismatch
    spec = chunks if isinstance(chunks, tuple) else None
    if spec is None:
        return False
    if len(spec) != len(shape):
        return True
    if any(isinstance(c, tuple) and (sum(c) != s or any(x < 0 or x != int(x) for x in c)) for c, s in zip(spec, shape)):
        return True
    # a uniform size below -1, or 0 on a non-empty axis, or a fractional size
    return any(isinstance(c, (int, float)) and not isinstance(c, bool) and (c < -1 or (c == 0 and s != 0) or c != int(c))
               for c, s in zip(spec, shape))


@contract("dask_array/_overlap.py::ensure_minimum_chunksize", props=["C19"])
class ensure_minimum_chunksize:
    """merging too-small chunks keeps the total, makes every chunk at least `size`, or refuses (ValueError) when the
    whole axis is shorter than `size`; unchanged when already large enough"""
    params = {"size": "int", "chunks": "seq"}
    result = "seq"

    def requires(size, chunks):
        return S.And(S.slen(chunks) >= 1, S.chunking(chunks), size >= 0)

    raises = {"ValueError": lambda size, chunks: S.ssum(chunks) < size}

    def ensures(result, size, chunks):
        return {
            "sum": S.ssum(result) == S.ssum(chunks),
            "minimum": S.forall_idx(result, lambda j: S.at(result, j) >= size),
            "nonempty": S.slen(result) >= 1,
        }

    loops = {
        "for#1": Loop(invariant=lambda v, v0: {
            "sum": S.ssum(v.output) + v.new == S.prefix(v.chunks, v.it),
            "minimum": S.forall_idx(v.output, lambda j: S.at(v.output, j) >= v.size),
            "new": v.new >= 0,
        }),
    }

    def facts(size, chunks):
        return [("prefix_nonneg", chunks)]

    def domain(tier, rng):
        from contracts.slicing import chunkings
        for n, c in chunkings(7 if tier == "quick" else 10):
            for size in range(0, 9):
                yield {"size": size, "chunks": c}


# ---------------------------------------------------------------------------
# normalize_chunks for explicit integer sizes (and -1 / None = whole axis): proved
# ---------------------------------------------------------------------------
@contract(f"{CORE}::_convert_int_chunk_to_tuple", spec="rank1", props=["C16"])
class convert_int_chunk_rank1:
    params = {"shape": "tup:int", "chunks": "tup:int"}
    result = "tup:seq"

    raises = {"ValueError": lambda shape, chunks: S.Or(S.item(chunks, 0) < 0,
                                                       S.And(S.item(chunks, 0) == 0, S.item(shape, 0) != 0))}

    def requires(shape, chunks):
        return S.item(shape, 0) >= 0

    def ensures(result, shape, chunks):
        return uniform_axis(S.item(result, 0), S.item(shape, 0), S.item(chunks, 0))


@contract(f"{CORE}::_convert_int_chunk_to_tuple", spec="rank2", props=["C16"])
class convert_int_chunk_rank2:
    params = {"shape": "tup:int,int", "chunks": "tup:int,int"}
    result = "tup:seq,seq"

    raises = {"ValueError": lambda shape, chunks: S.Or([S.Or(S.item(chunks, a) < 0, S.And(S.item(chunks, a) == 0, S.item(shape, a) != 0))
                                                       for a in (0, 1)])}

    def requires(shape, chunks):
        return S.And([S.item(shape, a) >= 0 for a in (0, 1)])

    def ensures(result, shape, chunks):
        out = {}
        for a in (0, 1):
            for k, v in uniform_axis(S.item(result, a), S.item(shape, a), S.item(chunks, a)).items():
                out[f"axis{a}-{k}"] = v
        return out


def _full_or(c, s):
    return S.If(c == -1, s, c)


@contract(f"{CORE}::normalize_chunks", spec="ints-rank1", props=["C16"])
class normalize_chunks_ints_rank1:
    """an explicit uniform size c yields blocks of size c except a smaller positive last one; -1 means the whole axis;
    an empty axis is the single chunk (0,)"""
    params = {"chunks": "tup:int", "shape": "tup:int"}
    result = "tup:seq"
    # every integer is in the domain: sizes below -1, and 0 on a non-empty axis, are refused -- and nothing else is
    raises = {"ValueError": lambda chunks, shape: S.Or(S.item(chunks, 0) < -1,
                                                       S.And(S.item(chunks, 0) == 0, S.item(shape, 0) != 0))}

    def requires(chunks, shape):
        c, s = S.item(chunks, 0), S.item(shape, 0)
        return S.And(s >= 0, S.Or(s >= 1, c != -1))

    def ensures(result, chunks, shape):
        c, s = S.item(chunks, 0), S.item(shape, 0)
        return uniform_axis(S.item(result, 0), s, _full_or(c, s))

    def call(fn, chunks, shape):
        return fn(chunks, shape)

    def domain(tier, rng):
        for s in range(0, 25):
            for c in list(range(-3, 9)):
                yield {"chunks": (c,), "shape": (s,)}


def _ext_npdtype(ex, st, args, kwargs, node):
    """np.dtype(x): some dtype object"""
    return ex.fresh_value("abs:DType", "npdtype")


@contract(f"{CORE}::normalize_chunks", spec="ints-rank1-kw", props=["C16", "C14"])
class normalize_chunks_ints_rank1_kw:
    """the same layout whatever limit, dtype and previous_chunks are passed along with an integer specification
    (they only steer 'auto' entries): this is the form Rechunk.chunks calls"""
    params = {"chunks": "tup:int", "shape": "tup:int", "limit": "optint", "dtype": "abs:DType", "previous_chunks": "tup:seq"}
    result = "tup:seq"
    raises = {"ValueError": lambda chunks, shape, limit, dtype, previous_chunks: S.Or(
        S.item(chunks, 0) < -1, S.And(S.item(chunks, 0) == 0, S.item(shape, 0) != 0))}
    externals = {"np.dtype": _ext_npdtype}
    havoc = {"dtype and (not isinstance(dtype, np.dtype))": "bool"}

    def requires(chunks, shape, limit, dtype, previous_chunks):
        c, s = S.item(chunks, 0), S.item(shape, 0)
        return S.And(s >= 0, S.Or(s >= 1, c != -1))

    def ensures(result, chunks, shape, limit, dtype, previous_chunks):
        c, s = S.item(chunks, 0), S.item(shape, 0)
        return uniform_axis(S.item(result, 0), s, _full_or(c, s))


@contract(f"{CORE}::_convert_int_chunk_to_tuple", spec="rank1-explicit", props=["C16"])
class convert_int_chunk_rank1_explicit:
    """an explicit tuple of block sizes is passed through unchanged"""
    params = {"shape": "tup:int", "chunks": "tup:seq"}
    result = "tup:seq"

    def requires(shape, chunks):
        return True

    def ensures(result, shape, chunks):
        return {"unchanged": S.seq_equal(S.item(result, 0), S.item(chunks, 0)),
                "same-sum": S.ssum(S.item(result, 0)) == S.ssum(S.item(chunks, 0))}


def _explicit(spec, extra_params):
    @contract(f"{CORE}::normalize_chunks", spec=spec, props=["C16", "C14"])
    class normalize_chunks_explicit_rank1:
        """an explicit tuple of block sizes is accepted unchanged exactly when it is non-empty and adds up to the axis
        length; otherwise ValueError"""
        params = dict({"chunks": "tup:seq", "shape": "tup:int"}, **extra_params)
        result = "tup:seq"
        externals = {"np.dtype": _ext_npdtype}
        havoc = {"dtype and (not isinstance(dtype, np.dtype))": "bool"} if extra_params else {}

        def requires(chunks, shape, **kw):
            # any tuple of integers: negative entries are in the domain (and must be refused)
            return S.item(shape, 0) >= 0

        def ensures(result, chunks, shape, **kw):
            c = S.item(chunks, 0)
            return {"unchanged": S.seq_equal(S.item(result, 0), c),
                    "adds-up": S.ssum(S.item(result, 0)) == S.item(shape, 0),
                    "non-empty": S.slen(S.item(result, 0)) >= 1,
                    "non-negative": S.chunking(S.item(result, 0))}

        raises = {"ValueError": lambda chunks, shape, **kw: S.Or(S.slen(S.item(chunks, 0)) == 0,
                                                                 S.ssum(S.item(chunks, 0)) != S.item(shape, 0),
                                                                 S.Not(S.chunking(S.item(chunks, 0))))}

        def call(fn, chunks, shape, **kw):
            return fn(chunks, shape, **kw)

        def domain(tier, rng):
            from contracts.slicing import chunkings
            for n, c in chunkings(6 if tier == "quick" else 8):
                for s in range(0, 9):
                    yield dict({"chunks": (c,), "shape": (s,)}, **({} if not extra_params else {"limit": None, "dtype": "f8",
                                                                                            "previous_chunks": ((s,),)}))
            for s in (0, 3):
                yield dict({"chunks": ((),), "shape": (s,)}, **({} if not extra_params else {"limit": 64, "dtype": "f8",
                                                                                             "previous_chunks": ((s,),)}))
            for c, s in (((-1, 6), 5), ((6, -1), 5), ((-2,), 5), ((-1, 1), 0), ((3, -3, 3), 3)):
                yield dict({"chunks": (c,), "shape": (s,)}, **({} if not extra_params else {"limit": 64, "dtype": "f8",
                                                                                           "previous_chunks": ((s,),)}))

    normalize_chunks_explicit_rank1.__name__ = "normalize_chunks_" + spec.replace("-", "_")
    return normalize_chunks_explicit_rank1


NE1 = _explicit("explicit-rank1", {})
NE2 = _explicit("explicit-rank1-kw", {"limit": "optint", "dtype": "abs:DType", "previous_chunks": "tup:seq"})


@contract(f"{CORE}::normalize_chunks", spec="ints-rank2", props=["C16"])
class normalize_chunks_ints_rank2:
    params = {"chunks": "tup:int,int", "shape": "tup:int,int"}
    result = "tup:seq,seq"
    raises = {"ValueError": lambda chunks, shape: S.Or([S.Or(S.item(chunks, a) < -1, S.And(S.item(chunks, a) == 0, S.item(shape, a) != 0))
                                                       for a in (0, 1)])}

    def requires(chunks, shape):
        pre = []
        for a in (0, 1):
            c, s = S.item(chunks, a), S.item(shape, a)
            pre += [s >= 0, S.Or(s >= 1, c != -1)]
        return S.And(pre)

    def ensures(result, chunks, shape):
        out = {}
        for a in (0, 1):
            c, s = S.item(chunks, a), S.item(shape, a)
            for k, v in uniform_axis(S.item(result, a), s, _full_or(c, s)).items():
                out[f"axis{a}-{k}"] = v
        return out

    def call(fn, chunks, shape):
        return fn(chunks, shape)

    def domain(tier, rng):
        for s0 in (0, 1, 5, 12):
            for s1 in (0, 3, 7):
                for c0 in (-2, -1, 0, 1, 2, 5):
                    for c1 in (-3, -1, 0, 1, 3):
                        yield {"chunks": (c0, c1), "shape": (s0, s1)}


SW = "dask_array/reductions/_sliding_window.py"


def _swr(keepdims):
    @contract(f"{SW}::SlidingWindowReduction.chunks", spec=f"rank1-keepdims={keepdims}", props=["C19", "C03"])
    class swr_chunks:
        """advertised chunks of the native sliding-window reduction: the input's chunks clipped to the
        (n - window + 1) outputs -- a chunking of exactly that length, each block no larger than its input block"""
        params = {"self": "obj:SWR"}
        result = "tup:seq" if not keepdims else "tup:seq,seq"
        fields = {"SWR": {"array": "obj:Arr", "sliding_axis": "const", "window": "int", "keepdims": "const", "window_axis": "const"},
                  "Arr": {"chunks": "tup:seq"}}
        consts = {"self.sliding_axis": 0, "self.keepdims": keepdims, "self.window_axis": 1}

        def requires(self):
            c = S.item(self.get("array").get("chunks"), 0)
            return S.And(S.slen(c) >= 1, S.chunking(c), S.forall_idx(c, lambda j: S.at(c, j) >= 1), self.get("window") >= 1)

        def facts(self):
            return [("prefix_nonneg", S.item(self.get("array").get("chunks"), 0))]

        def post_hints(result, self):
            return {"trimmed-sum-nonneg": ("lemma", "prefix_nonneg", S.item(result, 0))}

        def ensures(result, self):
            c = S.item(self.get("array").get("chunks"), 0)
            w = self.get("window")
            r = S.item(result, 0)
            out = {
                "sum": S.ssum(r) == S.max_(0, S.ssum(c) - w + 1),
                "positive": S.forall_idx(r, lambda j: S.at(r, j) >= 1),
                "clipped": S.And(S.slen(r) <= S.slen(c), S.forall_idx(r, lambda j: S.at(r, j) <= S.at(c, j))),
            }
            if keepdims:
                k = S.item(result, 1)
                out["window-axis"] = S.And(S.slen(k) == 1, S.lazy_implies(S.slen(k) == 1, lambda: S.at(k, 0) == 1))
            return out

        loops = {
            "for#1": Loop(invariant=lambda v, v0: {
                "remaining": v.remaining + S.ssum(v.trimmed) == v0.remaining,
                "len": S.slen(v.trimmed) == v.it,
                "positive": S.forall_idx(v.trimmed, lambda j: S.And(S.at(v.trimmed, j) >= 1,
                                                                      S.at(v.trimmed, j) <= S.at(S.item(v.chunks, 0), j))),
                "live": S.Or(v.it == 0, v.remaining >= 0),
                "unclipped-so-far": S.Implies(v.remaining > 0, S.ssum(v.trimmed) == S.prefix(S.item(v.chunks, 0), v.it)),
            }),
        }

    swr_chunks.__name__ = f"swr_chunks_{keepdims}"
    return swr_chunks


SWR_F = _swr(False)
SWR_T = _swr(True)
