"""Contracts for transfer estimates (C27) and chunk unification helpers (C17)."""
from pyvc.contract import contract, Loop
from pyvc import spec as S

EXPR = "dask_array/_expr.py"
RC = "dask_array/_rechunk.py"
CORE = "dask_array/_core_utils.py"


def _R(x):
    import z3
    return z3.ToReal(x) if x.is_int() else x


def _mf_outer(v, v0):
    import z3
    return {
        "i": S.And(0 <= v.i, v.i < S.slen(v.src)),
        "dst_start": v.dst_start == z3.ToReal(S.prefix(v.dst, v.it)),
        "moved": S.And(v.moved >= 0, v.moved <= v.dst_start),
    }


def _mf_inner(v, v0):
    import z3
    return {
        "i": S.And(0 <= v.i, v.i < S.slen(v.src)),
        "best": S.And(v.best >= 0, v.best <= z3.ToReal(v.target)),
    }


@contract(f"{EXPR}::moved_fraction", props=["C27", "C17"])
class moved_fraction:
    """the moved fraction lies in [0, 1] and is 0 for identical layouts."""
    params = {"src": "seq", "dst": "seq"}
    result = "real"

    def requires(src, dst):
        return S.And(S.chunking(src), S.chunking(dst))

    def facts(src, dst):
        return [("prefix_nonneg", src), ("prefix_nonneg", dst)]

    def ensures(result, src, dst):
        return {
            "range": S.And(0 <= result, result <= 1),
            "identical": S.Implies(S.seq_equal(src, dst), result == 0),
        }

    loops = {
        "for#1": Loop(invariant=_mf_outer),
        "while#1": Loop(invariant=_mf_inner, decreases=lambda v, v0: S.slen(v.src) - v.i),
    }

    def domain(tier, rng):
        from contracts.slicing import chunkings
        by_n = {}
        for n, c in chunkings(6 if tier == "quick" else 8):
            by_n.setdefault(n, []).append(c)
        for n, cs in by_n.items():
            for a in cs:
                for b in cs:
                    yield {"src": a, "dst": b}
        yield {"src": (), "dst": ()}
        yield {"src": (3,), "dst": (1, 1)}


@contract(f"{EXPR}::moved_fraction", spec="splits", props=["C27", "C17"])
class moved_fraction__splits:
    """pure splits move nothing (bounded: the refinement argument is not yet an invariant)."""
    bounded_only = True
    params = {"src": "seq", "dst": "seq"}
    scope = "all pairs (layout, refinement of it) over chunkings of length <= 6 (quick) / 8"

    def requires(src, dst):
        def bounds(t):
            out, acc = set(), 0
            for c in t:
                acc += c
                out.add(acc)
            return out
        return sum(src) == sum(dst) and all(c > 0 for c in src) and all(c > 0 for c in dst) and bounds(src) <= bounds(dst)

    def ensures(result, src, dst):
        return {"pure-split-moves-nothing": result == 0.0}

    def domain(tier, rng):
        yield from moved_fraction.domain(tier, rng)


@contract(f"{RC}::_rechunk_stage_transfer", props=["C27"])
class rechunk_stage_transfer:
    """one rechunk stage: 0 <= min <= max; nothing moves when old == new; NaN only with unknown sizes."""
    bounded_only = True
    params = {"old_chunks": "const", "new_chunks": "const", "itemsize": "const"}
    scope = "1-D and 2-D pairs of chunkings of extents <= 6 (with zero chunks), itemsize {1,8}; NaN layouts"

    def requires(old_chunks, new_chunks, itemsize):
        import math
        return all(any(isinstance(c, float) for c in o + n) or sum(o) == sum(n) for o, n in zip(old_chunks, new_chunks))

    def ensures(result, old_chunks, new_chunks, itemsize):
        import math
        lo, hi = result
        unknown = any(isinstance(c, float) and math.isnan(c) for ax in tuple(old_chunks) + tuple(new_chunks) for c in ax)
        if unknown:
            return {"nan-only-when-unknown": math.isnan(lo) and math.isnan(hi)}
        out = {"not-nan-when-known": not (math.isnan(lo) or math.isnan(hi)), "ordered": 0 <= lo <= hi}
        if tuple(old_chunks) == tuple(new_chunks):
            out["same-chunks-move-nothing"] = lo == 0 and hi == 0
        return out

    def domain(tier, rng):
        import math
        from contracts.slicing import chunkings
        by_n = {}
        for n, c in chunkings(5 if tier == "quick" else 7):
            by_n.setdefault(n, []).append(c)
        pairs = [(a, b) for n, cs in by_n.items() for a in cs for b in cs]
        for a, b in pairs:
            for it in (1, 8):
                yield {"old_chunks": (a,), "new_chunks": (b,), "itemsize": it}
        for _ in range(4000 if tier == "quick" else 60000):
            (a0, b0), (a1, b1) = rng.choice(pairs), rng.choice(pairs)
            yield {"old_chunks": (a0, a1), "new_chunks": (b0, b1), "itemsize": 8}
        yield {"old_chunks": ((math.nan, math.nan),), "new_chunks": ((math.nan, math.nan),), "itemsize": 8}
        yield {"old_chunks": ((2, 2), (math.nan,)), "new_chunks": ((4,), (math.nan,)), "itemsize": 8}


@contract(f"{CORE}::common_blockdim", props=["C17"])
class common_blockdim:
    """the common layout of several layouts of one axis: a chunking of the same
    total whose boundary set is the union of the inputs' boundary sets (so every
    input is only split).  Bounded only: sets of tuples / aliased list mutation
    are outside the subset."""
    bounded_only = True
    params = {"blockdims": "const"}
    scope = "all pairs and triples of chunkings (no zero chunks) of equal total <= 6 (quick) / 8"
    raises = {"ValueError": lambda blockdims: len({sum(d) for d in blockdims if len(d) > 1}) > 1}

    def requires(blockdims):
        return all(all(c > 0 for c in d) for d in blockdims) and len(blockdims) >= 1

    def ensures(result, blockdims):
        def bounds(t):
            out, acc = set(), 0
            for c in t:
                acc += c
                out.add(acc)
            return out
        nt = [d for d in blockdims if len(d) > 1]
        out = {}
        if not nt:
            out["trivial"] = tuple(result) in [tuple(d) for d in blockdims]
            return out
        want = set()
        for d in nt:
            want |= bounds(d)
        out["sum"] = sum(result) == sum(nt[0])
        out["boundaries-are-the-union"] = bounds(result) == want
        out["positive"] = all(c > 0 for c in result)
        return out

    def domain(tier, rng):
        from contracts.slicing import chunkings
        by_n = {}
        for n, c in chunkings(6 if tier == "quick" else 8, zero=False):
            if c:
                by_n.setdefault(n, []).append(c)
        for n, cs in by_n.items():
            for a in cs:
                for b in cs:
                    yield {"blockdims": [a, b]}
            for _ in range(300 if tier == "quick" else 3000):
                yield {"blockdims": [rng.choice(cs) for _ in range(3)]}
        yield {"blockdims": [(3,), (2, 1)]}
        yield {"blockdims": [(2, 2), (3, 1)]}
        yield {"blockdims": [(2, 2), (3, 2)]}


# ---------------------------------------------------------------------------
# _rechunk_stage_transfer, proved (known sizes): 0 <= min <= max, never NaN
# ---------------------------------------------------------------------------
def _rst_common(v):
    """facts about the walk shared by the two loops (v: current variables; `it` is the index of the new block)"""
    import z3
    old, new, n, u = v.old, v.new, v.n_intersections, v.useq
    cov = S.If(v.old_start >= v.new_start, v.old_start - v.new_start, 0)
    return {
        "j": S.And(0 <= v.j, v.j < S.slen(old)),
        "counts": S.And(S.slen(n) == S.slen(old), S.slen(u) == S.slen(old),
                        S.forall_idx(old, lambda i: S.And(S.at(n, i) >= 0, 0 <= S.at(u, i), S.at(u, i) <= S.at(old, i) * S.at(n, i)))),
        "old_start": v.old_start == z3.ToReal(S.prefix(old, v.j)),
        "new_start": v.new_start == z3.ToReal(S.prefix(new, v.it)),
        "old-block-reaches-new-start": S.prefix(old, v.j + 1) >= S.prefix(new, v.it),
        "uncut-is-ghost-sum": v.u_ax == z3.ToReal(S.ssum(u)),
        "largest": S.And(0 <= v.s_ax, v.s_ax <= v.l_ax, v.l_ax <= v.new_start),
    }, cov


def _rst_outer(v, v0):
    r, _ = _rst_common(v)
    r["old-start-not-ahead"] = S.prefix(v.old, v.j) <= S.prefix(v.new, v.it)
    return r


def _rst_inner(v, v0):
    r, cov = _rst_common(v)
    r["old-start-within-new-block"] = v.old_start <= v.new_end
    r["best"] = S.And(0 <= v.best, v.best <= cov, v.n_sources >= 0)
    r["no-source-nothing-covered"] = S.Implies(v.n_sources == 0, S.And(v.best == 0, cov == 0))
    r["one-source-is-the-cover"] = S.Implies(v.n_sources == 1, v.best == cov)
    return r


def _rst_ghost_init(v):
    import z3
    return {"useq": SeqV(S.f_rep(z3.IntVal(0), S.slen(v.old)), "list")}


def _rst_ghost_uncut(v):
    u = v.useq
    return {"useq": SeqV(S.f_update(u.t, v.j, S.at(u, v.j) + S.at(v.old, v.j)), "list")}


def _rst_reads_hint(v):
    # r_ax is sum(out) for the comprehension's sequence out[i] = old[i] * n[i]; the ghost u is pointwise below it
    out = SeqV(v.r_ax.arg(0), "tuple")
    return {"__hints__": [("lemma", "sum_mono", v.useq, out), ("lemma", "prefix_nonneg", v.useq)]}


from pyvc.spec import SeqV  # noqa: E402


def _axes(t):
    from pyvc.spec import TupV
    return list(t.items) if isinstance(t, TupV) else list(t)


class _rst_base:
    result = "tup:real,real"

    def requires(old_chunks, new_chunks, itemsize):
        cs = [itemsize >= 0]
        for o, n in zip(_axes(old_chunks), _axes(new_chunks)):
            cs += [S.chunking(o), S.chunking(n), S.slen(o) >= 1, S.slen(n) >= 1, S.ssum(o) == S.ssum(n)]
        return S.And(*cs)

    def facts(old_chunks, new_chunks, itemsize):
        out = []
        for t in _axes(old_chunks) + _axes(new_chunks):
            out += [("mono_prefix", t), ("prefix_nonneg", t)]
        return out

    def ensures(result, old_chunks, new_chunks, itemsize):
        from pyvc.spec import NanV, RealV
        lo, hi = _axes(result)
        if isinstance(lo, NanV) or isinstance(hi, NanV):
            return {"nan-only-when-unknown": False}
        if isinstance(lo, RealV):
            nn = S.And(S.Not(lo.nan), S.Not(hi.nan)) if (lo.nan is not False or hi.nan is not False) else True
            return {"nan-only-when-unknown": nn, "ordered": S.And(0 <= lo.t, lo.t <= hi.t)}
        return {"nan-only-when-unknown": lo == lo and hi == hi, "ordered": 0 <= lo <= hi}

    loops = {
        "for#2": Loop(invariant=_rst_outer),
        "while#1": Loop(invariant=_rst_inner, decreases=lambda v, v0: S.slen(v.old) - v.j),
    }
    after = {
        "u_ax = 0.0": (["useq"], _rst_ghost_init),
        "u_ax += old[j]": (["useq"], _rst_ghost_uncut),
        "r_ax = sum((c * n for c, n in zip(old, n_intersections)))": ([], _rst_reads_hint),
    }


@contract(f"{RC}::_rechunk_stage_transfer", spec="known-r1", props=["C27"])
class rechunk_stage_transfer_r1(_rst_base):
    """one axis, known sizes: the estimate is a pair with 0 <= min <= max and is never NaN."""
    params = {"old_chunks": "tup:seq", "new_chunks": "tup:seq", "itemsize": "int"}

    def domain(tier, rng):
        for d in rechunk_stage_transfer.domain(tier, rng):
            if len(d["old_chunks"]) == 1 and all(isinstance(c, int) for ax in d["old_chunks"] + d["new_chunks"] for c in ax) \
                    and all(len(ax) >= 1 for ax in d["old_chunks"] + d["new_chunks"]):
                yield d


@contract(f"{RC}::_rechunk_stage_transfer", spec="known-r2", props=["C27"])
class rechunk_stage_transfer_r2(_rst_base):
    """two axes, known sizes (the per-axis walks are verified once per axis; the final products are nonlinear real arithmetic)."""
    params = {"old_chunks": "tup:seq,seq", "new_chunks": "tup:seq,seq", "itemsize": "int"}

    def domain(tier, rng):
        for d in rechunk_stage_transfer.domain(tier, rng):
            if len(d["old_chunks"]) == 2 and all(isinstance(c, int) for ax in d["old_chunks"] + d["new_chunks"] for c in ax) \
                    and all(len(ax) >= 1 for ax in d["old_chunks"] + d["new_chunks"]):
                yield d
