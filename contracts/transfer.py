"""Contracts for transfer estimates (C27) and chunk unification helpers (C17)."""
from pyvc.contract import contract, Loop
from pyvc import spec as S

EXPR = "dask_array/_expr.py"
RC = "dask_array/_rechunk.py"
CORE = "dask_array/_core_utils.py"


def _R(x):
    import z3
    return z3.ToReal(x) if x.is_int() else x


def _mf_outer(v, v0):
    import z3
    return {
        "i": S.And(0 <= v.i, v.i < S.slen(v.src)),
        "dst_start": v.dst_start == z3.ToReal(S.prefix(v.dst, v.it)),
        "moved": S.And(v.moved >= 0, v.moved <= v.dst_start),
    }


def _mf_inner(v, v0):
    import z3
    return {
        "i": S.And(0 <= v.i, v.i < S.slen(v.src)),
        "best": S.And(v.best >= 0, v.best <= z3.ToReal(v.target)),
    }


@contract(f"{EXPR}::moved_fraction", props=["C27", "C17"])
class moved_fraction:
    """the moved fraction lies in [0, 1] and is 0 for identical layouts."""
    params = {"src": "seq", "dst": "seq"}
    result = "real"

    def requires(src, dst):
        return S.And(S.chunking(src), S.chunking(dst))

    def facts(src, dst):
        return [("prefix_nonneg", src), ("prefix_nonneg", dst)]

    def ensures(result, src, dst):
        return {
            "range": S.And(0 <= result, result <= 1),
            "identical": S.Implies(S.seq_equal(src, dst), result == 0),
        }

    loops = {
        "for#1": Loop(invariant=_mf_outer),
        "while#1": Loop(invariant=_mf_inner, decreases=lambda v, v0: S.slen(v.src) - v.i),
    }

    def domain(tier, rng):
        from contracts.slicing import chunkings
        by_n = {}
        for n, c in chunkings(6 if tier == "quick" else 8):
            by_n.setdefault(n, []).append(c)
        for n, cs in by_n.items():
            for a in cs:
                for b in cs:
                    yield {"src": a, "dst": b}
        yield {"src": (), "dst": ()}
        yield {"src": (3,), "dst": (1, 1)}


@contract(f"{EXPR}::moved_fraction", spec="splits", props=["C27", "C17"])
class moved_fraction__splits:
    """pure splits move nothing (bounded: the refinement argument is not yet an invariant)."""
    bounded_only = True
    params = {"src": "seq", "dst": "seq"}
    scope = "all pairs (layout, refinement of it) over chunkings of length <= 6 (quick) / 8"

    def requires(src, dst):
        def bounds(t):
            out, acc = set(), 0
            for c in t:
                acc += c
                out.add(acc)
            return out
        return sum(src) == sum(dst) and all(c > 0 for c in src) and all(c > 0 for c in dst) and bounds(src) <= bounds(dst)

    def ensures(result, src, dst):
        return {"pure-split-moves-nothing": result == 0.0}

    def domain(tier, rng):
        yield from moved_fraction.domain(tier, rng)


@contract(f"{RC}::_rechunk_stage_transfer", props=["C27"])
class rechunk_stage_transfer:
    """one rechunk stage: 0 <= min <= max; nothing moves when old == new; NaN only with unknown sizes."""
    bounded_only = True
    params = {"old_chunks": "const", "new_chunks": "const", "itemsize": "const"}
    scope = "1-D and 2-D pairs of chunkings of extents <= 6 (with zero chunks), itemsize {1,8}; NaN layouts"

    def requires(old_chunks, new_chunks, itemsize):
        import math
        return all(any(isinstance(c, float) for c in o + n) or sum(o) == sum(n) for o, n in zip(old_chunks, new_chunks))

    def ensures(result, old_chunks, new_chunks, itemsize):
        import math
        lo, hi = result
        unknown = any(isinstance(c, float) and math.isnan(c) for ax in tuple(old_chunks) + tuple(new_chunks) for c in ax)
        if unknown:
            return {"nan-only-when-unknown": math.isnan(lo) and math.isnan(hi)}
        out = {"not-nan-when-known": not (math.isnan(lo) or math.isnan(hi)), "ordered": 0 <= lo <= hi}
        if tuple(old_chunks) == tuple(new_chunks):
            out["same-chunks-move-nothing"] = lo == 0 and hi == 0
        return out

    def domain(tier, rng):
        import math
        from contracts.slicing import chunkings
        by_n = {}
        for n, c in chunkings(5 if tier == "quick" else 7):
            by_n.setdefault(n, []).append(c)
        pairs = [(a, b) for n, cs in by_n.items() for a in cs for b in cs]
        for a, b in pairs:
            for it in (1, 8):
                yield {"old_chunks": (a,), "new_chunks": (b,), "itemsize": it}
        for _ in range(4000 if tier == "quick" else 60000):
            (a0, b0), (a1, b1) = rng.choice(pairs), rng.choice(pairs)
            yield {"old_chunks": (a0, a1), "new_chunks": (b0, b1), "itemsize": 8}
        yield {"old_chunks": ((math.nan, math.nan),), "new_chunks": ((math.nan, math.nan),), "itemsize": 8}
        yield {"old_chunks": ((2, 2), (math.nan,)), "new_chunks": ((4,), (math.nan,)), "itemsize": 8}


@contract(f"{CORE}::common_blockdim", props=["C17"])
class common_blockdim:
    """the common layout of several layouts of one axis: a chunking of the same
    total whose boundary set is the union of the inputs' boundary sets (so every
    input is only split).  Bounded only: sets of tuples / aliased list mutation
    are outside the subset."""
    bounded_only = True
    params = {"blockdims": "const"}
    scope = "all pairs and triples of chunkings (no zero chunks) of equal total <= 6 (quick) / 8"
    raises = {"ValueError": lambda blockdims: len({sum(d) for d in blockdims if len(d) > 1}) > 1}

    def requires(blockdims):
        return all(all(c > 0 for c in d) for d in blockdims) and len(blockdims) >= 1

    def ensures(result, blockdims):
        def bounds(t):
            out, acc = set(), 0
            for c in t:
                acc += c
                out.add(acc)
            return out
        nt = [d for d in blockdims if len(d) > 1]
        out = {}
        if not nt:
            out["trivial"] = tuple(result) in [tuple(d) for d in blockdims]
            return out
        want = set()
        for d in nt:
            want |= bounds(d)
        out["sum"] = sum(result) == sum(nt[0])
        out["boundaries-are-the-union"] = bounds(result) == want
        out["positive"] = all(c > 0 for c in result)
        return out

    def domain(tier, rng):
        from contracts.slicing import chunkings
        by_n = {}
        for n, c in chunkings(6 if tier == "quick" else 8, zero=False):
            if c:
                by_n.setdefault(n, []).append(c)
        for n, cs in by_n.items():
            for a in cs:
                for b in cs:
                    yield {"blockdims": [a, b]}
            for _ in range(300 if tier == "quick" else 3000):
                yield {"blockdims": [rng.choice(cs) for _ in range(3)]}
        yield {"blockdims": [(3,), (2, 1)]}
        yield {"blockdims": [(2, 2), (3, 1)]}
        yield {"blockdims": [(2, 2), (3, 2)]}


# ---------------------------------------------------------------------------
# _rechunk_stage_transfer, proved (known sizes): 0 <= min <= max, never NaN
# ---------------------------------------------------------------------------
def _rst_common(v):
    """facts about the walk shared by the two loops (v: current variables; `it` is the index of the new block)"""
    import z3
    old, new, n, u = v.old, v.new, v.n_intersections, v.useq
    cov = S.If(v.old_start >= v.new_start, v.old_start - v.new_start, 0)
    return {
        "j": S.And(0 <= v.j, v.j < S.slen(old)),
        "counts": S.And(S.slen(n) == S.slen(old), S.slen(u) == S.slen(old),
                        S.forall_idx(old, lambda i: S.And(S.at(n, i) >= 0, 0 <= S.at(u, i), S.at(u, i) <= S.at(old, i) * S.at(n, i)))),
        "old_start": v.old_start == z3.ToReal(S.prefix(old, v.j)),
        "new_start": v.new_start == z3.ToReal(S.prefix(new, v.it)),
        "old-block-reaches-new-start": S.prefix(old, v.j + 1) >= S.prefix(new, v.it),
        "uncut-is-ghost-sum": v.u_ax == z3.ToReal(S.ssum(u)),
        "largest": S.And(0 <= v.s_ax, v.s_ax <= v.l_ax, v.l_ax <= v.new_start),
    }, cov


def _rst_outer(v, v0):
    r, _ = _rst_common(v)
    r["old-start-not-ahead"] = S.prefix(v.old, v.j) <= S.prefix(v.new, v.it)
    return r


def _rst_inner(v, v0):
    r, cov = _rst_common(v)
    r["old-start-within-new-block"] = v.old_start <= v.new_end
    r["best"] = S.And(0 <= v.best, v.best <= cov, v.n_sources >= 0)
    r["no-source-nothing-covered"] = S.Implies(v.n_sources == 0, S.And(v.best == 0, cov == 0))
    r["one-source-is-the-cover"] = S.Implies(v.n_sources == 1, v.best == cov)
    return r


def _rst_ghost_init(v):
    import z3
    return {"useq": SeqV(S.f_rep(z3.IntVal(0), S.slen(v.old)), "list")}


def _rst_ghost_uncut(v):
    u = v.useq
    return {"useq": SeqV(S.f_update(u.t, v.j, S.at(u, v.j) + S.at(v.old, v.j)), "list")}


def _rst_reads_hint(v):
    # r_ax is sum(out) for the comprehension's sequence out[i] = old[i] * n[i]; the ghost u is pointwise below it
    out = SeqV(v.r_ax.arg(0), "tuple")
    return {"__hints__": [("lemma", "sum_mono", v.useq, out), ("lemma", "prefix_nonneg", v.useq)]}


from pyvc.spec import SeqV  # noqa: E402


def _axes(t):
    from pyvc.spec import TupV
    return list(t.items) if isinstance(t, TupV) else list(t)


class _rst_base:
    result = "tup:real,real"

    def requires(old_chunks, new_chunks, itemsize):
        cs = [itemsize >= 0]
        for o, n in zip(_axes(old_chunks), _axes(new_chunks)):
            cs += [S.chunking(o), S.chunking(n), S.slen(o) >= 1, S.slen(n) >= 1, S.ssum(o) == S.ssum(n)]
        return S.And(*cs)

    def facts(old_chunks, new_chunks, itemsize):
        out = []
        for t in _axes(old_chunks) + _axes(new_chunks):
            out += [("mono_prefix", t), ("prefix_nonneg", t)]
        return out

    def ensures(result, old_chunks, new_chunks, itemsize):
        from pyvc.spec import NanV, RealV
        lo, hi = _axes(result)
        if isinstance(lo, NanV) or isinstance(hi, NanV):
            return {"nan-only-when-unknown": False}
        if isinstance(lo, RealV):
            nn = S.And(S.Not(lo.nan), S.Not(hi.nan)) if (lo.nan is not False or hi.nan is not False) else True
            return {"nan-only-when-unknown": nn, "ordered": S.And(0 <= lo.t, lo.t <= hi.t)}
        return {"nan-only-when-unknown": lo == lo and hi == hi, "ordered": 0 <= lo <= hi}

    loops = {
        "for#2": Loop(invariant=_rst_outer),
        "while#1": Loop(invariant=_rst_inner, decreases=lambda v, v0: S.slen(v.old) - v.j),
    }
    after = {
        "u_ax = 0.0": (["useq"], _rst_ghost_init),
        "u_ax += old[j]": (["useq"], _rst_ghost_uncut),
        "r_ax = sum((c * n for c, n in zip(old, n_intersections)))": ([], _rst_reads_hint),
    }


@contract(f"{RC}::_rechunk_stage_transfer", spec="known-r1", props=["C27"])
class rechunk_stage_transfer_r1(_rst_base):
    """one axis, known sizes: the estimate is a pair with 0 <= min <= max and is never NaN."""
    params = {"old_chunks": "tup:seq", "new_chunks": "tup:seq", "itemsize": "int"}

    def domain(tier, rng):
        for d in rechunk_stage_transfer.domain(tier, rng):
            if len(d["old_chunks"]) == 1 and all(isinstance(c, int) for ax in d["old_chunks"] + d["new_chunks"] for c in ax) \
                    and all(len(ax) >= 1 for ax in d["old_chunks"] + d["new_chunks"]):
                yield d


@contract(f"{RC}::_rechunk_stage_transfer", spec="known-r2", props=["C27"])
class rechunk_stage_transfer_r2(_rst_base):
    """two axes, known sizes (the per-axis walks are verified once per axis; the final products are nonlinear real arithmetic)."""
    params = {"old_chunks": "tup:seq,seq", "new_chunks": "tup:seq,seq", "itemsize": "int"}

    def domain(tier, rng):
        for d in rechunk_stage_transfer.domain(tier, rng):
            if len(d["old_chunks"]) == 2 and all(isinstance(c, int) for ax in d["old_chunks"] + d["new_chunks"] for c in ax) \
                    and all(len(ax) >= 1 for ax in d["old_chunks"] + d["new_chunks"]):
                yield d


# ---------------------------------------------------------------------------
# common_blockdim: the merging walk (two and three non-trivial layouts), proved as a fragment
# ---------------------------------------------------------------------------
def _cb_lists(x):
    from pyvc.spec import TupV
    return list(x.items) if isinstance(x, TupV) else list(x)


def _cb_boundary(R, total, t):
    """t-th boundary, counted from the end, of the layout whose reversed block list is R"""
    return total - S.prefix(R, t)


def _cb_inv(nlists):
    def inv(v, v0):
        out = {"i": S.And(0 <= v.i, v.i <= v.total),
               "out": S.And(S.ssum(v.out) == v.i, S.forall_idx(v.out, lambda j: S.at(v.out, j) >= 1))}
        for k in range(nlists):
            L, R = S.item(v.rchunks, k), S.item(v.rchunks0, k)
            n = S.slen(L)
            q = getattr(v, f"q{k}")
            out[f"list{k}-shape"] = S.And(n <= S.slen(R), S.Iff(n == 0, v.i == v.total),
                                          S.forall_idx(L, lambda j: S.Implies(j < n - 1, S.at(L, j) == S.at(R, j))))
            out[f"list{k}-position"] = S.Implies(n >= 1, S.And(1 <= S.at(L, n - 1), S.at(L, n - 1) <= S.at(R, n - 1),
                                                               v.total - v.i == S.prefix(R, n - 1) + S.at(L, n - 1)))
            b = _cb_boundary(R, v.total, v.t)
            out[f"list{k}-boundary-kept"] = S.Implies(S.And(0 <= v.t, v.t <= S.slen(R), b <= v.i),
                                                       S.And(0 <= q, q <= S.slen(v.out), S.prefix(v.out, q) == b))
        return out
    return inv


def _common_blockdim_walk(nlists):
    tys = ",".join(["lseq"] * nlists)

    def ghost_init(v):
        return {f"q{k}": 0 for k in range(nlists)}

    def ghost_update(h, e):
        r = {}
        for k in range(nlists):
            R = S.item(h.rchunks0, k)
            r[f"q{k}"] = S.If(e.i == _cb_boundary(R, h.total, h.t), S.slen(e.out), getattr(h, f"q{k}"))
        return r

    @contract(f"{CORE}::common_blockdim", spec=f"walk-{nlists}", props=["C17"])
    class common_blockdim_walk:
        """the merging walk of common_blockdim over the reversed block lists of the non-trivial layouts: the result is a
        layout of the same total with positive blocks, and every block boundary of every input layout is a boundary of
        the result -- the common layout only ever *splits* an operand's blocks (the `refine` guarantee)."""
        fragment = {"first": "i = 0", "last": "return tuple(out)"}
        params = {"rchunks": f"list:{tys}", "total": "int"}
        ghosts = {"t": "int"}
        result = "seq"

        def requires(rchunks, total):
            cs = []
            for L in _cb_lists(rchunks):
                cs += [S.slen(L) >= 1, S.forall_idx(L, lambda j: S.at(L, j) >= 1), S.ssum(L) == total]
            return S.And(*cs)

        def facts(rchunks, total):
            out = []
            for L in _cb_lists(rchunks):
                out += [("mono_prefix", L), ("prefix_nonneg", L)]
            return out

        def ensures(result, rchunks, total, t, env=None, calls=None):
            out = {"same-total": S.ssum(result) == total, "positive": S.forall_idx(result, lambda j: S.at(result, j) >= 1)}
            for k, R in enumerate(_cb_lists(rchunks)):
                if env is not None:
                    q = getattr(env, f"q{k}")
                    out[f"every-boundary-of-input-{k}-is-kept"] = S.Implies(
                        S.And(0 <= t, t <= S.slen(R)), S.And(0 <= q, q <= S.slen(result), S.prefix(result, q) == _cb_boundary(R, total, t)))
                else:
                    bounds = {sum(result[:q]) for q in range(len(result) + 1)}
                    out[f"every-boundary-of-input-{k}-is-kept"] = (not (0 <= t <= len(R))) or (total - sum(R[:t]) in bounds)
            return out

        after = {"i = 0": (["rchunks0"], lambda v: {"rchunks0": v.rchunks})}
        loops = {
            "while#1": Loop(invariant=_cb_inv(nlists), ghosts={f"q{k}": "int" for k in range(nlists)},
                            ghost_init=ghost_init, ghost_update=ghost_update, decreases=lambda v, v0: v.total - v.i),
        }

        def ghost_domain(rchunks, total):
            return {"t": range(0, max(len(L) for L in rchunks) + 1)}

        def domain(tier, rng):
            from contracts.slicing import chunkings
            by_n = {}
            for n, c in chunkings(6 if tier == "quick" else 8, zero=False):
                if len(c) >= 1 and n >= 1:
                    by_n.setdefault(n, []).append(list(c)[::-1])
            for n, cs in by_n.items():
                if nlists == 2:
                    for a in cs:
                        for b in cs:
                            yield {"rchunks": [list(a), list(b)], "total": n}
                else:
                    for _ in range(400 if tier == "quick" else 4000):
                        yield {"rchunks": [list(rng.choice(cs)) for _ in range(nlists)], "total": n}

    common_blockdim_walk.__name__ = f"common_blockdim_walk_{nlists}"
    return common_blockdim_walk


CBW2 = _common_blockdim_walk(2)
CBW3 = _common_blockdim_walk(3)


# ---------------------------------------------------------------------------
# moved_fraction: a pure split moves nothing (proved)
# ---------------------------------------------------------------------------
def _refines(src, dst):
    """every block boundary of src is a block boundary of dst.  Symbolically the witness is an uninterpreted
    function W (boundary index of src -> boundary index of dst); concretely the boundary sets are compared."""
    from pyvc.spec import SeqV
    if isinstance(src, SeqV):
        import z3
        W = z3.Function("refine_witness", z3.IntSort(), z3.IntSort())
        p = z3.Int("p!rw")
        return z3.ForAll([p], z3.Implies(z3.And(0 <= p, p <= S.slen(src)),
                                         z3.And(0 <= W(p), W(p) <= S.slen(dst), S.prefix(dst, W(p)) == S.prefix(src, p))),
                         patterns=[S.prefix(src, p)])
    bd = {sum(dst[:q]) for q in range(len(dst) + 1)}
    return all(sum(src[:p]) in bd for p in range(len(src) + 1))


def _mfs_outer(v, v0):
    import z3
    src, dst = v.src, v.dst
    return {
        "i": S.And(0 <= v.i, v.i < S.slen(src)),
        "src_start": v.src_start == z3.ToReal(S.prefix(src, v.i)),
        "dst_start": v.dst_start == z3.ToReal(S.prefix(dst, v.it)),
        "nothing-moved": v.moved == 0,
        "source-block-holds-the-target-start": S.And(S.prefix(src, v.i) <= S.prefix(dst, v.it),
                                                     S.Implies(v.it < S.slen(dst), S.prefix(dst, v.it) < S.prefix(src, v.i + 1))),
    }


def _mfs_inner(v, v0):
    import z3
    src, dst = v.src, v.dst
    first = S.And(v.best == 0, S.prefix(src, v.i) <= S.prefix(dst, v.it), S.prefix(dst, v.it) < S.prefix(src, v.i + 1))
    moved_on = S.And(v.best == z3.ToReal(v.target), S.prefix(src, v.i) == S.prefix(dst, v.it + 1))
    return {
        "i": S.And(0 <= v.i, v.i < S.slen(src)),
        "src_start": v.src_start == z3.ToReal(S.prefix(src, v.i)),
        "state": S.Or(first, moved_on),
    }


@contract(f"{EXPR}::moved_fraction", spec="splits-proof", props=["C27", "C17"])
class moved_fraction_splits_proof:
    """a pure split (every boundary of src is a boundary of dst, positive blocks) moves nothing: the fraction is 0."""
    params = {"src": "seq", "dst": "seq"}
    result = "real"

    def requires(src, dst):
        return S.And(S.slen(src) >= 1, S.slen(dst) >= 1, S.forall_idx(src, lambda j: S.at(src, j) >= 1),
                     S.forall_idx(dst, lambda j: S.at(dst, j) >= 1), S.ssum(src) == S.ssum(dst), _refines(src, dst))

    def facts(src, dst):
        return [("mono_prefix", src), ("mono_prefix", dst), ("strict_prefix", dst), ("strict_prefix", src)]

    def ensures(result, src, dst):
        return {"pure-split-moves-nothing": result == 0}

    loops = {
        "for#1": Loop(invariant=_mfs_outer),
        "while#1": Loop(invariant=_mfs_inner, decreases=lambda v, v0: S.slen(v.src) - v.i),
    }

    def domain(tier, rng):
        yield from moved_fraction.domain(tier, rng)


# ---------------------------------------------------------------------------
# SliceSlicesIntegers.transfer_bytes (record abstraction, rank 1): 0 = min <= max
# ---------------------------------------------------------------------------
SBASIC = "dask_array/slicing/_basic.py"


def _ext_transfer_bytes(ex, st, args, kwargs, node):
    """TransferBytes(lo, hi): the pair itself"""
    from pyvc.spec import TupV
    return TupV(list(args), "tuple")


def _ssi_transfer(spec, index_type):
    @contract(f"{SBASIC}::SliceSlicesIntegers.transfer_bytes", spec=spec, props=["C27"])
    class ssi_transfer_bytes:
        """a basic slice moves nothing under min and at most the bytes of the blocks it reads (minus the full-block aliases)
        under max: the pair is (0, max) with max >= 0 -- from the per-block plan's contract (every key is a block of the
        input) and non-negative block sizes"""
        params = {"self": "obj:SSI"}
        result = "tup:real,real"
        fields = {"SSI": {"array": "obj:Arr", "index": index_type, "allow_getitem_optimization": "bool"},
                  "Arr": {"chunks": "tup:seq", "shape": "tup:int", "ndim": "const", "dtype": "obj:DType"},
                  "DType": {"itemsize": "int"}}
        consts = {"self.array.ndim": 1}
        externals = {"TransferBytes": _ext_transfer_bytes}

        def requires(self):
            from contracts.slicing import norm_bounds
            from pyvc.spec import SliceV
            arr = self.get("array")
            c, n = S.item(arr.get("chunks"), 0), S.item(arr.get("shape"), 0)
            idx = S.item(self.get("index"), 0)
            cs = [S.slen(c) >= 1, S.chunking(c, n), arr.get("dtype").get("itemsize") >= 0]
            if isinstance(idx, SliceV):
                cs.append(norm_bounds(idx, n))
            else:
                cs.append(S.And(0 <= idx, idx < n))
            return S.And(*cs)

        def facts(self):
            c = S.item(self.get("array").get("chunks"), 0)
            return [("mono_prefix", c), ("cum_sorted", c), ("prefix_nonneg", c)]

        def ensures(result, self):
            from pyvc.spec import NanV
            lo, hi = result.items
            if isinstance(lo, NanV) or isinstance(hi, NanV):
                return {"nan-only-when-unknown": False}  # all sizes are known here: the NaN return must be unreachable
            return {"0<=min<=max": S.And(lo.t == 0, hi.t >= 0)}

        loops = {
            "for#2": Loop(invariant=lambda v, v0: {"aliases-among-reads": S.And(0 <= v.alias_ax, v.alias_ax <= v.reads_ax)}),
        }

    ssi_transfer_bytes.__name__ = "ssi_transfer_bytes_" + spec.replace("-", "_")
    return ssi_transfer_bytes


SSIT1 = _ssi_transfer("r1-slice", "tup:slice")
SSIT2 = _ssi_transfer("r1-int", "tup:int")


# ---------------------------------------------------------------------------
# Blockwise.transfer_bytes (record abstraction: two array operands of rank 2, output rank 2)
# ---------------------------------------------------------------------------
BWF = "dask_array/_blockwise.py"


def _bw_transfer(spec, ind0, ind1, out_ind):
    @contract(f"{BWF}::Blockwise.transfer_bytes", spec=spec, props=["C27"])
    class blockwise_transfer_bytes:
        """a blockwise layer's estimate is a pair 0 <= min <= max: every distinct (operand, index pattern) adds
        nbytes * (fanout - 1/gather) to min and nbytes * fanout to max with fanout >= 1 <= ... >= 1/gather, because block
        counts are at least 1"""
        params = {"self": "obj:BW"}
        result = "tup:real,real"
        fields = {"BW": {"args": "tup:obj:Arr,(tup:int,int),obj:Arr,(tup:int,int)", "out_ind": "tup:int,int", "numblocks": "tup:int,int"},
                  "Arr": {"_name": "str", "numblocks": "tup:int,int", "nbytes": "int"},
                  "__bases__": {"Arr": ["Arr", "ArrayExpr"]}}
        externals = {"TransferBytes": _ext_transfer_bytes}
        consts_index = (ind0, ind1, out_ind)

        def requires(self):
            a0, i0, a1, i1 = self.get("args").items
            cs = []
            for t, want in ((i0, ind0), (i1, ind1), (self.get("out_ind"), out_ind)):
                cs += [S.item(t, k) == want[k] for k in range(2)]
            for a in (a0, a1):
                cs += [a.get("nbytes") >= 0, S.item(a.get("numblocks"), 0) >= 1, S.item(a.get("numblocks"), 1) >= 1]
            cs += [S.item(self.get("numblocks"), k) >= 1 for k in range(2)]
            return S.And(*cs)

        def ensures(result, self):
            lo, hi = result.items
            return {"0<=min<=max": S.And(0 <= lo.t, lo.t <= hi.t)}

        loops = {
            "for#2": Loop(invariant=lambda v, v0: {"fanout-at-least-one": v.fanout >= 1}),
        }

    blockwise_transfer_bytes.__name__ = "blockwise_transfer_bytes_" + spec.replace("-", "_")
    return blockwise_transfer_bytes


BWT1 = _bw_transfer("r2-aligned", (0, 1), (0, 1), (0, 1))
BWT2 = _bw_transfer("r2-matmul-like", (0, 2), (2, 1), (0, 1))
BWT3 = _bw_transfer("r2-same-pattern-twice", (0, 1), (0, 1), (1, 0))


def _ext_dependencies(ndeps):
    def m_dependencies(ex, st, base, args, kwargs, node):
        """expr.dependencies(): the operand expressions (a fixed number of opaque array records, each with nbytes >= 0)"""
        from pyvc.spec import TupV
        deps = [ex.fresh_value("obj:Arr", f"dep{i}") for i in range(ndeps)]
        for d in deps:
            st.pc.append(S._t(d.get("nbytes") >= 0))  # class invariant of an array expression: a size in bytes
        return TupV(deps, "list")
    return m_dependencies


def _default_transfer(ndeps):
    @contract(f"{EXPR}::ArrayExpr.transfer_bytes", spec=f"default-{ndeps}-deps", props=["C27"])
    class default_transfer_bytes:
        """the default (block-aligned) estimate: every distinct dependency adds a non-negative amount to min and at least as
        much to max -- (ratio - 1, ratio) copies of its bytes when it is broadcast to more blocks, ((1 - ratio), 1) when
        several of its blocks are gathered -- so 0 <= min <= max"""
        params = {"self": "obj:Node"}
        result = "tup:real,real"
        fields = {"Node": {"numblocks": "tup:int,int"}, "Arr": {"_name": "str", "numblocks": "tup:int,int", "nbytes": "int"},
                  "__bases__": {"Arr": ["Arr", "ArrayExpr"]}}
        externals = {"TransferBytes": _ext_transfer_bytes}
        methods = {"Node.dependencies": _ext_dependencies(ndeps)}

        def requires(self):
            return S.And(*[S.item(self.get("numblocks"), k) >= 0 for k in range(2)])

        def ensures(result, self, env=None, calls=None):
            lo, hi = result.items
            return {"0<=min<=max": S.And(0 <= lo.t, lo.t <= hi.t)}

        def assume_deps(v):
            return True

    default_transfer_bytes.__name__ = f"default_transfer_bytes_{ndeps}"
    return default_transfer_bytes


DT1 = _default_transfer(1)
DT2 = _default_transfer(2)
