"""A fixed, enumerated catalogue of small collections for the bounded (L2)
object-level contracts (DESIGN 2.2).  It is data, not a program generator:
each entry is (name, build) where build() returns (dask_array collection,
numpy expected value or None, info dict).

Used only under /venv/bin/python (needs dask_array and numpy).
"""
from __future__ import annotations

import itertools
import threading


class RecordingSource:
    """array-like with a storage grid that logs every read request and asserts
    it is a tuple of in-bounds basic slices."""

    def __init__(self, data, chunks=None):
        import numpy as np
        self._data = np.asarray(data)
        self.shape = self._data.shape
        self.dtype = self._data.dtype
        self.ndim = self._data.ndim
        if chunks is not None:
            self.chunks = chunks
        self.requests = []
        self.array_calls = []
        self.bad = []
        self._lock = threading.Lock()
        import uuid
        self._uid = uuid.uuid4().hex

    def __dask_tokenize__(self):
        # one token per instance (kept through pickling): two recording sources with equal content must not be taken for
        # one another by the name-keyed registries, or the reads of one would be logged on the other
        return ("RecordingSource", self._uid)

    def __getstate__(self):
        # picklable (the lock is per process): a collection over a recording source can be serialised
        d = dict(self.__dict__)
        d.pop("_lock", None)
        return d

    def __setstate__(self, d):
        self.__dict__.update(d)
        self._lock = threading.Lock()

    def __getitem__(self, idx):
        import numpy as np
        if not isinstance(idx, tuple):
            idx = (idx,)
        with self._lock:
            self.requests.append(idx)
            ok = len(idx) <= self.ndim
            for i, n in zip(idx, self.shape):
                if isinstance(i, slice):
                    a, b, c = i.start, i.stop, i.step
                    if c not in (None, 1) or a is None or b is None or not (0 <= a <= b <= n):
                        ok = False
                elif isinstance(i, (int, np.integer)):
                    if not (0 <= i < n):
                        ok = False
                else:
                    ok = False
            if not ok:
                self.bad.append(idx)
        return self._data[idx]

    def __array__(self, dtype=None, copy=None):
        # a whole-source read through the NumPy conversion protocol (what np.asarray(source) does)
        import numpy as np
        with self._lock:
            self.array_calls.append(("__array__", self.shape))
        return np.asarray(self._data, dtype=dtype)

    def nonempty_requests(self):
        import numpy as np
        out = [c for c in self.array_calls if self._data.size > 0]
        for idx in self.requests:
            sub = self._data[idx]
            if np.size(sub) > 0:
                out.append(idx)
        return out

    def __len__(self):
        return self.shape[0]


def compositions(n, maxparts=None):
    if n == 0:
        yield ()
        return
    for first in range(1, n + 1):
        for rest in compositions(n - first):
            c = (first,) + rest
            if maxparts is None or len(c) <= maxparts:
                yield c


def layouts_1d(n, tier):
    out = list(compositions(n, 3 if tier == "quick" else None))
    if n == 0:
        out = [(0,)]
    return out


def sources(tier):
    """(name, numpy data)"""
    import numpy as np
    out = [("a1d6", np.arange(6.0)), ("a1d7i", np.arange(7)), ("a2d", np.arange(12.0).reshape(3, 4))]
    if tier != "quick":
        out += [("a1d8", np.arange(8.0) * 1.5), ("a2d_b", np.arange(20).reshape(4, 5)), ("a3d", np.arange(24.0).reshape(2, 3, 4))]
    return out


def chunkings_for(shape, tier, rng=None, limit=None):
    per_axis = [layouts_1d(n, tier) for n in shape]
    allc = list(itertools.product(*per_axis))
    if limit and len(allc) > limit and rng is not None:
        allc = rng.sample(allc, limit)
    return allc


def _plain_getitem(a, index):
    return a[index]


def base_arrays(tier, rng, per_source=6):
    """(name, dask array, numpy, info) over NumPy and recording sources with enumerated chunkings."""
    import dask_array as da
    out = []
    for sname, data in sources(tier):
        for ch in chunkings_for(data.shape, tier, rng, per_source):
            out.append((f"{sname}/np/{ch}", (lambda d=data, c=ch: da.from_array(d, chunks=c)), data, {"kind": "numpy"}))
        ch = chunkings_for(data.shape, tier, rng, 2)
        for c in ch:
            def mk(d=data, c=c):
                src = RecordingSource(d)
                return da.from_array(src, chunks=c), src
            out.append((f"{sname}/rec/{c}", mk, data, {"kind": "recording"}))
            def mk2(d=data, c=c):
                src = RecordingSource(d, chunks=tuple(max(1, n // 2) for n in d.shape))
                return da.from_array(src, chunks=c), src
            out.append((f"{sname}/recgrid/{c}", mk2, data, {"kind": "recording-grid"}))
        # a user-supplied two-argument getitem(a, index), as documented for from_array
        for c in ch[:1]:
            def mk3(d=data, c=c):
                src = RecordingSource(d)
                return da.from_array(src, chunks=c, getitem=_plain_getitem), src
            out.append((f"{sname}/rec-getitem/{c}", mk3, data, {"kind": "recording"}))
    return out


def derived(tier, rng):
    """catalogue of derived collections: (name, build() -> (collection, numpy expected or None, info))"""
    import numpy as np
    import dask_array as da
    entries = []

    def add(name, fn):
        entries.append((name, fn))

    for bname, mk, data, info in base_arrays(tier, rng):
        def base(mk=mk):
            r = mk()
            return r if not isinstance(r, tuple) else r[0]

        add(f"{bname}", lambda base=base, d=data: (base(), d, {}))
        add(f"{bname}+1", lambda base=base, d=data: (base() + 1, d + 1, {}))
        add(f"{bname}[1:]", lambda base=base, d=data: (base()[1:], d[1:], {}))
        add(f"{bname}[::-1]", lambda base=base, d=data: (base()[::-1], d[::-1], {}))
        add(f"{bname}[::2][1:]", lambda base=base, d=data: (base()[::2][1:], d[::2][1:], {}))
        add(f"{bname}.sum()", lambda base=base, d=data: (base().sum(), d.sum(), {}))
        add(f"{bname}.sum(0)", lambda base=base, d=data: (base().sum(axis=0), d.sum(axis=0), {}))
        add(f"{bname}.T", lambda base=base, d=data: (base().T, d.T, {}))
        add(f"{bname}.rechunk(2)", lambda base=base, d=data: (base().rechunk(2), d, {}))
        add(f"{bname}.rechunk(-1)[1:]", lambda base=base, d=data: (base().rechunk(-1)[1:], d[1:], {}))
        if data.ndim == 1:
            add(f"concat({bname},{bname})",
                lambda base=base, d=data: (da.concatenate([base(), base() * 2]), np.concatenate([d, d * 2]), {}))
            if len(data) >= 3:
                add(f"swv({bname},3).sum(-1) [layout-drifting]",
                    lambda base=base, d=data: (da.sliding_window_view(base(), 3).sum(-1),
                                               np.lib.stride_tricks.sliding_window_view(d, 3).sum(-1),
                                               {"layout_drifting": True}))
                add(f"swv({bname},2).max(-1) [layout-drifting]",
                    lambda base=base, d=data: (da.sliding_window_view(base(), 2).max(-1),
                                               np.lib.stride_tricks.sliding_window_view(d, 2).max(-1),
                                               {"layout_drifting": True}))
            add(f"{bname}[mask] [unknown chunks]",
                lambda base=base, d=data: ((lambda b: b[b > 2])(base()), d[d > 2], {"unknown_chunks": True}))
            add(f"outer({bname},{bname})", lambda base=base, d=data: ((lambda b: da.outer(b, b))(base()), np.outer(d, d), {}))
            add(f"elemwise-broadcast({bname})",
                lambda base=base, d=data: (base()[:, None] * base()[None, :], d[:, None] * d[None, :], {}))
        if data.ndim == 2:
            add(f"{bname}+{bname}.rechunk(1)", lambda base=base, d=data: (base() + base().rechunk(1), d + d, {}))
            add(f"{bname}[:, 1]", lambda base=base, d=data: (base()[:, 1], d[:, 1], {}))
            add(f"{bname}.mean(1)", lambda base=base, d=data: (base().mean(axis=1), d.mean(axis=1), {}))
            # contractions: list-valued index patterns (tensordot) and one operand under two index patterns (x @ x.T)
            add(f"tensordot({bname},{bname}.T)", lambda base=base, d=data: (da.tensordot(base(), base().T, axes=1), np.tensordot(d, d.T, axes=1), {}))
            add(f"{bname}@{bname}.T", lambda base=base, d=data: ((lambda b: b @ b.T)(base()), d @ d.T, {}))
    # concatenate / stack of heterogeneous inputs with a list index on a non-concat axis: optimisation pushes the take
    # into each input separately, whose shuffles may settle on different layouts
    base4 = np.arange(8, dtype="f8").reshape(4, 2)
    rows = [(2, 1, 1), (3, 1), (1, 3), (2, 2), (4,), (1, 1, 2)]
    idxs = [[0, 0, 2, 2, 3, 3, 3, 3], [3, 1, 1, 0], [0, 1, 2, 3, 0, 1, 2, 3], [2, 2, 2]]
    combos = [(rm, rn, rq, ix) for rm in rows for rn in rows for rq in rows for ix in range(len(idxs)) if rm != rn]
    if tier == "quick":
        combos = rng.sample(combos, 60) + [((2, 1, 1), (3, 1), (3, 1), 0)]
    for rm, rn, rq, ix in combos:
        def mk3(rm=rm, rn=rn, rq=rq):
            m = da.from_array(base4, chunks=(rm, (2,)))
            n = da.from_array(base4 + 100, chunks=(rn, (2,)))
            q = da.from_array(base4 + 300, chunks=(rq, (2,)))
            return m, n, q
        idx = idxs[ix]
        npq, npe = base4 + 300, base4 + (base4 + 100)
        add(f"concat([q{rq}, m{rm}+n{rn}],1)[idx{ix}]",
            lambda mk3=mk3, idx=idx: ((lambda m, n, q: da.concatenate([q, m + n], axis=1)[idx])(*mk3()),
                                      np.concatenate([npq, npe], axis=1)[idx], {}))
        add(f"concat([q{rq}[idx{ix}], (m{rm}+n{rn})[idx{ix}]],1)",
            lambda mk3=mk3, idx=idx: ((lambda m, n, q: da.concatenate([q[idx], (m + n)[idx]], axis=1))(*mk3()),
                                      np.concatenate([npq[idx], npe[idx]], axis=1), {}))
        add(f"stack([q{rq}, m{rm}+n{rn}])[:, idx{ix}]",
            lambda mk3=mk3, idx=idx: ((lambda m, n, q: da.stack([q, m + n])[:, idx])(*mk3()),
                                      np.stack([npq, npe])[:, idx], {}))
    # routines with their own hand-written `chunks` formula, on irregular layouts (a square 2-D input whose row and
    # column layouts differ but share the largest block, and a ragged 1-D input)
    sq = np.arange(64.0).reshape(8, 8)
    v7 = (np.arange(7.0) * 5) % 7
    for rows, cols in [((3, 3, 2), (3, 2, 3)), ((2, 3, 3), (3, 3, 2)), ((3, 3, 2), (3, 3, 2)), ((4, 4), (2, 2, 2, 2))]:
        def mk2(rows=rows, cols=cols):
            return da.from_array(sq, chunks=(rows, cols))
        tag = f"sq{rows}x{cols}"
        for name, f, g in [
            ("diag", lambda x: da.diag(x), lambda a: np.diag(a)),
            ("diag(x[1:, :-1])", lambda x: da.diag(x[1:, :-1]), lambda a: np.diag(a[1:, :-1])),
            ("diag(k=1)", lambda x: da.diag(x, k=1), lambda a: np.diag(a, k=1)),
            ("diagonal", lambda x: da.diagonal(x), lambda a: np.diagonal(a)),
            ("diagonal(offset=-2)", lambda x: da.diagonal(x, offset=-2), lambda a: np.diagonal(a, offset=-2)),
            ("tril", lambda x: da.tril(x), lambda a: np.tril(a)),
            ("triu(k=1)", lambda x: da.triu(x, k=1), lambda a: np.triu(a, k=1)),
            ("topk(3, axis=1)", lambda x: da.topk(x, 3, axis=1), lambda a: np.flip(np.sort(a, axis=1), axis=1)[:, :3]),
            ("flip(0)", lambda x: da.flip(x, 0), lambda a: np.flip(a, 0)),
            ("roll(3, axis=1)", lambda x: da.roll(x, 3, axis=1), lambda a: np.roll(a, 3, axis=1)),
            ("repeat(2, axis=0)", lambda x: da.repeat(x, 2, axis=0), lambda a: np.repeat(a, 2, axis=0)),
            ("tile((1,2))", lambda x: da.tile(x, (1, 2)), lambda a: np.tile(a, (1, 2))),
            ("pad(1)", lambda x: da.pad(x, 1, mode="constant"), lambda a: np.pad(a, 1, mode="constant")),
            ("squeeze(x[:, 2:3])", lambda x: da.squeeze(x[:, 2:3]), lambda a: np.squeeze(a[:, 2:3])),
            ("ravel", lambda x: x.ravel(), lambda a: a.ravel()),
            ("reshape(2,4,8)", lambda x: x.reshape(2, 4, 8), lambda a: a.reshape(2, 4, 8)),
            ("reshape(64).reshape(4,16)", lambda x: x.reshape(64).reshape(4, 16), lambda a: a.reshape(4, 16)),
            ("swapaxes", lambda x: da.swapaxes(x, 0, 1), lambda a: np.swapaxes(a, 0, 1)),
            ("cumsum(axis=1)", lambda x: da.cumsum(x, axis=1), lambda a: np.cumsum(a, axis=1)),
            ("diff(axis=0)", lambda x: da.diff(x, axis=0), lambda a: np.diff(a, axis=0)),
            ("where(x>20, x, -x)", lambda x: da.where(x > 20, x, -x), lambda a: np.where(a > 20, a, -a)),
            ("coarsen(sum,{0:2,1:2})", lambda x: da.coarsen(np.sum, x, {0: 2, 1: 2}), lambda a: a.reshape(4, 2, 4, 2).sum(axis=(1, 3))),
            ("argmax(axis=0)", lambda x: da.argmax(x, axis=0), lambda a: np.argmax(a, axis=0)),
            ("apply_gufunc(sum, (i)->())", lambda x: da.apply_gufunc(lambda t: t.sum(axis=-1), "(i)->()", x.rechunk({1: -1}), output_dtypes=float),
             lambda a: a.sum(axis=-1)),
            ("map_overlap(depth=1, trim=False)", lambda x: x.map_overlap(lambda b: b, depth=1, boundary="reflect", trim=False),
             lambda a, rows=rows, cols=cols: _untrimmed_halo(a, rows, cols)),
        ]:
            add(f"{tag}.{name}", lambda mk2=mk2, f=f, g=g: (f(mk2()), (g(sq) if g is not None else None), {}))
        # a 1-D boolean dask mask on a layout-drifting 2-D input (the mask's nan chunks are a literal of the input's layout)
        mrow = np.array([True, False, True, True, False, False, True, True])
        add(f"{tag}.swv(axis=1).sum(-1)[row mask] [layout-drifting, unknown chunks]",
            lambda mk2=mk2: ((lambda x: da.sliding_window_view(x, 3, axis=1).sum(-1)[da.from_array(mrow, chunks=(x.chunks[0],))])(mk2()),
                             np.lib.stride_tricks.sliding_window_view(sq, 3, axis=1).sum(-1)[mrow],
                             {"layout_drifting": True, "unknown_chunks": True}))
        # the mask itself comes from a layout-drifting expression and the indexed array has ONE block along the masked axis,
        # so the result's block grid is the mask's advertised grid
        swref = np.lib.stride_tricks.sliding_window_view(sq, 3, axis=0).sum(-1)[0] >= 30
        add(f"{tag}.one-block x[:, mask from swv(axis=0).sum(-1)[0] >= 30] [layout-drifting, unknown chunks]",
            lambda mk2=mk2: ((lambda x: da.from_array(sq + 1, chunks=(8, 8))[:, da.sliding_window_view(x, 3, axis=0).sum(-1)[0] >= 30])(mk2()),
                             (sq + 1)[:, swref], {"layout_drifting": True, "unknown_chunks": True}))
        add(f"{tag}.one-block x[mask from swv(axis=1).sum(-1)[:, 0] >= 30] [layout-drifting, unknown chunks]",
            lambda mk2=mk2: ((lambda x: da.from_array(sq + 1, chunks=(8, 8))[da.sliding_window_view(x, 3, axis=1).sum(-1)[:, 0] >= 30])(mk2()),
                             (sq + 1)[np.lib.stride_tricks.sliding_window_view(sq, 3, axis=1).sum(-1)[:, 0] >= 30],
                             {"layout_drifting": True, "unknown_chunks": True}))
    for ch in [(3, 3, 1), (2, 5), (7,)]:
        def mk1(ch=ch):
            return da.from_array(v7, chunks=(ch,))
        for name, f, g in [
            ("topk(5)", lambda x: da.topk(x, 5), lambda a: np.sort(a)[::-1][:5]),
            ("topk(9) [k > n]", lambda x: da.topk(x, 9), lambda a: np.sort(a)[::-1][:9]),
            ("argtopk(-2)", lambda x: da.argtopk(x, -2), lambda a: np.argsort(a)[:2]),
            ("repeat(3)", lambda x: da.repeat(x, 3), lambda a: np.repeat(a, 3)),
            ("tile(2)", lambda x: da.tile(x, 2), lambda a: np.tile(a, 2)),
            ("pad((2,1), edge)", lambda x: da.pad(x, (2, 1), mode="edge"), lambda a: np.pad(a, (2, 1), mode="edge")),
            ("diag(v)", lambda x: da.diag(x), lambda a: np.diag(a)),
            ("outer ones(1) + x via map_blocks", lambda x: da.map_blocks(np.add, da.ones((1,), chunks=1), x.rechunk(-1)), lambda a: 1 + a),
            # dtype of percentile: the kernels interpolate in q's precision and keep integer inputs for nearest / lower
            ("percentile(f4, [25, 50])", lambda x: da.percentile(x.astype("f4"), [25, 50]), lambda a: None),
            ("percentile(f2, 30)", lambda x: da.percentile(x.astype("f2"), 30), lambda a: None),
            ("percentile(i4, [10, 90], nearest)", lambda x: da.percentile(x.astype("i4"), [10, 90], method="nearest"), lambda a: None),
            ("percentile(u1, f4 q, midpoint)", lambda x: da.percentile(x.astype("u1"), np.array([10, 90], dtype="f4"), method="midpoint"), lambda a: None),
            ("bincount(i8, minlength=8)", lambda x: da.bincount(x.astype("i8"), minlength=8), lambda a: np.bincount(a.astype("i8"), minlength=8)),
            ("searchsorted(swv.sum, [4, 9, 100]) [layout-drifting]",
             lambda x: da.searchsorted(da.sliding_window_view(x.rechunk(1), 3).sum(-1).cumsum(axis=0), da.from_array(np.array([4.0, 9.0, 100.0]), chunks=1)),
             lambda a: np.searchsorted(np.lib.stride_tricks.sliding_window_view(a, 3).sum(-1).cumsum(), [4.0, 9.0, 100.0])),
            ("apply_gufunc on swv.sum [layout-drifting]",
             lambda x: da.apply_gufunc(lambda t: t * 2, "()->()", da.sliding_window_view(x, 3).sum(-1), output_dtypes=float),
             lambda a: np.lib.stride_tricks.sliding_window_view(a, 3).sum(-1) * 2),
        ]:
            add(f"v7{ch}.{name}", lambda mk1=mk1, f=f, g=g: (f(mk1()), g(v7), {}))
    # a window larger than the blocks: the native sliding-window reduction re-blocks its input, so the advertised layout of
    # everything derived from it (here a boolean mask, then the selection it drives on a one-block array) drifts
    big = np.arange(96.0 * 8).reshape(96, 8)
    bigref = np.lib.stride_tricks.sliding_window_view(big, 72, axis=0).var(axis=-1)
    thr = float(np.median(bigref[0]))
    xd = np.arange(40.0).reshape(5, 8)
    for bch in ((24, 4), (24, 2), (32, 8)):
        def mkmask(bch=bch):
            r = da.sliding_window_view(da.from_array(big, chunks=bch), 72, axis=0).var(axis=-1)
            return r[0] >= thr
        add(f"big{bch}.one-block x[:, mask from swv(72).var(-1)[0]] [layout-drifting, unknown chunks]",
            lambda mkmask=mkmask: (da.from_array(xd, chunks=(5, 8))[:, mkmask()], xd[:, bigref[0] >= thr],
                                   {"layout_drifting": True, "unknown_chunks": True}))
        add(f"big{bch}.x(5,2)[:, mask from swv(72).var(-1)[0]] [layout-drifting, unknown chunks]",
            lambda mkmask=mkmask: (da.from_array(xd, chunks=(5, 2))[:, mkmask()], xd[:, bigref[0] >= thr],
                                   {"layout_drifting": True, "unknown_chunks": True}))
    for bch in ((24, 4), (32, 8)):
        add(f"big{bch}.r[r > t] full-dimensional mask over swv(72).var(-1) [layout-drifting, unknown chunks]",
            lambda bch=bch: ((lambda r: r[r > 2000.0])(da.sliding_window_view(da.from_array(big, chunks=bch), 72, axis=0).var(axis=-1)),
                             bigref[bigref > 2000.0], {"layout_drifting": True, "unknown_chunks": True}))
    # a dask array handed to a block function as a keyword / inside a list argument: finalized into ONE task under its bare
    # name, which the optimised (re-named, pinned) graph must still define
    base = np.arange(6.0)
    add("map_blocks(f, x+1, off=<0-d dask sum>)",
        lambda: (da.map_blocks(_add_kw, da.from_array(base, chunks=3) + 1, off=da.ones((2,), chunks=1).sum() * 5, dtype="f8"), base + 11, {}))
    add("map_blocks(f, x+1, [<1-d dask array>])",
        lambda: (da.map_blocks(_add_first, da.from_array(base, chunks=3) + 1, [da.ones((1,), chunks=1) * 10], dtype="f8"), base + 11, {}))
    add("map_blocks(f, x, off=<3-block dask array>).sum()",
        lambda: (da.map_blocks(_add_kw_sum, da.from_array(base, chunks=2), off=da.ones((3,), chunks=1) * 2, dtype="f8").sum(), (base + 6).sum(), {}))
    # creation routines and a persisted input
    add("arange(7, chunks=3)", lambda: (da.arange(7, chunks=3), np.arange(7), {}))
    add("ones((3,4), chunks=2)*3", lambda: (da.ones((3, 4), chunks=2) * 3, np.ones((3, 4)) * 3, {}))
    add("persisted", lambda: ((da.arange(6, chunks=2) + 1).persist() * 2, (np.arange(6) + 1) * 2, {"persisted": True}))
    return entries


def walk(expr):
    seen = set()
    stack = [expr]
    while stack:
        e = stack.pop()
        if id(e) in seen:
            continue
        seen.add(id(e))
        yield e
        try:
            deps = e.dependencies()
        except Exception:
            deps = []
        stack.extend(deps)


def _delayed_ten():
    from dask import delayed
    return delayed(lambda: 10.0)()


def _add_kw(b, off=0):
    return b + off


def _add_kw_sum(b, off=0):
    import numpy
    return b + numpy.sum(off)


def _add_first(b, lst):
    return b + lst[0]


def _add_key(b, off=None):
    return b + off["a"]


def _add_pos(b, off):
    return b + off


def _add2(p, q):
    return p + q


def _repeat_block(p):
    import numpy
    return numpy.repeat(p, 2)


def _add_location(p, block_info=None):
    import numpy
    lo = block_info[0]["array-location"][0][0]
    return p + 100.0 * (lo + numpy.arange(p.shape[0]))


def _grid_consumers():
    """consumers that observe the block grid of their input: a second operand chunked like the first, explicit output
    chunks, a block_info reader; each (build, numpy reference) over a 1-D inner array"""
    import numpy as np
    import dask_array as da
    return {
        "map_blocks(add, inner, w~inner.chunks)": (
            lambda s: da.map_blocks(_add2, s, da.from_array(np.arange(s.shape[0]) * 100.0, chunks=s.chunks), dtype="f8"),
            lambda a: a + np.arange(a.shape[0]) * 100.0),
        "inner.map_blocks(repeat2, chunks=2c)": (
            lambda s: s.map_blocks(_repeat_block, chunks=(tuple(2 * c for c in s.chunks[0]),), dtype="f8"),
            lambda a: np.repeat(a, 2)),
        "inner.map_blocks(f(block_info))": (
            lambda s: s.map_blocks(_add_location, dtype="f8"),
            lambda a: a + np.arange(a.shape[0]) * 100.0),
    }


def _add_where_out(x):
    import numpy as np
    import dask_array as da
    z = da.from_array(np.full(tuple(int(n) for n in x.shape), -1.0), chunks=x.chunks)
    return da.add(x, x, where=(x % 3 == 0), out=z)


def _np_add_where_out(a):
    import numpy as np
    return np.add(a, a, where=(a % 3 == 0), out=np.full(a.shape, -1.0))


def _untrimmed_halo(a, rows, cols):
    """NumPy reference for map_overlap(identity, depth=1, boundary='reflect', trim=False): every block with its halo"""
    import numpy as np
    p = np.pad(a, 1, mode="symmetric")
    out, r0 = [], 0
    for r in rows:
        line, c0 = [], 0
        for c in cols:
            line.append(p[r0:r0 + r + 2, c0:c0 + c + 2])
            c0 += c
        out.append(line)
        r0 += r
    return np.block(out)


def _halving_blockwise(x):
    """every block keeps every second row; a (1, n) operand is broadcast along the rows"""
    import numpy as np
    import dask_array as da
    row = da.from_array(np.arange(float(x.shape[1])).reshape(1, -1), chunks=(1, x.chunks[1]))
    return da.blockwise(lambda p, q: (p + q)[::2], "ij", x, "ij", row, "ij", adjust_chunks={"i": lambda c: (c + 1) // 2}, dtype="f8")


def rewrite_targets(tier, rng):
    """compositions chosen to make the optimiser's rewrite rules fire (slice / rechunk / shuffle pushdowns,
    nested-op fusion, sliding-window substitution, chunk unification, rechunk-into-IO): (name, build)"""
    import numpy as np
    import dask_array as da
    out = []
    d1 = np.arange(12.0)
    d2 = np.arange(30.0).reshape(5, 6)
    lay1 = [(4, 4, 4), (5, 7), (1, 2, 9), (3, 3, 3, 3), (12,)]
    lay2 = [((2, 3), (3, 3)), ((5,), (2, 2, 2)), ((1, 4), (6,)), ((2, 2, 1), (1, 5))]
    if tier == "quick":
        lay1, lay2 = lay1[:3], lay2[:2]

    def srcs1(c):
        yield "np", lambda: da.from_array(d1, chunks=(c,))
        yield "rec", lambda: da.from_array(RecordingSource(d1, chunks=(3,)), chunks=(c,))

    def srcs2(c):
        yield "np", lambda: da.from_array(d2, chunks=c)
        yield "rec", lambda: da.from_array(RecordingSource(d2, chunks=(2, 3)), chunks=c)

    ops1 = {
        "(x+1)[2:9]": (lambda x: (x + 1)[2:9], lambda a: (a + 1)[2:9]),
        "x[2:9][1:4]": (lambda x: x[2:9][1:4], lambda a: a[2:9][1:4]),
        "x[::2][1:]": (lambda x: x[::2][1:], lambda a: a[::2][1:]),
        "x[::-1][2:5]": (lambda x: x[::-1][2:5], lambda a: a[::-1][2:5]),
        "x[3]": (lambda x: x[3], lambda a: a[3]),
        "x[1:11].rechunk(5)": (lambda x: x[1:11].rechunk(5), lambda a: a[1:11]),
        "x.rechunk(5)[1:11]": (lambda x: x.rechunk(5)[1:11], lambda a: a[1:11]),
        "x.rechunk(2).rechunk(6)": (lambda x: x.rechunk(2).rechunk(6), lambda a: a),
        "concat(x,x*2).rechunk(5)": (lambda x: da.concatenate([x, x * 2]).rechunk(5), lambda a: np.concatenate([a, a * 2])),
        "concat(x,x*2)[3:20]": (lambda x: da.concatenate([x, x * 2])[3:20], lambda a: np.concatenate([a, a * 2])[3:20]),
        "x[None,:].rechunk((1,5))": (lambda x: x[None, :].rechunk((1, 5)), lambda a: a[None, :]),
        "swv(x,3).sum(-1)": (lambda x: da.sliding_window_view(x, 3).sum(-1), lambda a: np.lib.stride_tricks.sliding_window_view(a, 3).sum(-1)),
        "swv(x,5).mean(-1)[1:]": (lambda x: da.sliding_window_view(x, 5).mean(-1)[1:], lambda a: np.lib.stride_tricks.sliding_window_view(a, 5).mean(-1)[1:]),
        "(x+x.rechunk(5))": (lambda x: x + x.rechunk(5), lambda a: a + a),
        "(x*2+1).sum()": (lambda x: (x * 2 + 1).sum(), lambda a: (a * 2 + 1).sum()),
        "x.cumsum(0)[2:]": (lambda x: x.cumsum(axis=0)[2:], lambda a: a.cumsum()[2:]),
        "x[[5,1,7]]": (lambda x: x[[5, 1, 7]], lambda a: a[[5, 1, 7]]),
        "x[[5,1,7]].rechunk(1)": (lambda x: x[[5, 1, 7]].rechunk(1), lambda a: a[[5, 1, 7]]),
        "roll(x,3)[2:7]": (lambda x: da.roll(x, 3)[2:7], lambda a: np.roll(a, 3)[2:7]),
        "map_overlap(x)": (lambda x: x.map_overlap(lambda b: b * 2, depth=1, boundary="reflect"), lambda a: a * 2),
        "diff(x)[1:5]": (lambda x: da.diff(x)[1:5], lambda a: np.diff(a)[1:5]),
        # untrimmed overlap: the result still carries the halos, so a slice of it is not a slice of the input
        "map_overlap(depth=2, none, trim=False)[5:9]": (lambda x: x.map_overlap(lambda b: b * 1.0, depth=2, boundary="none", trim=False)[5:9], None),
        "map_overlap(depth=1, reflect, trim=False)[3:]": (lambda x: x.map_overlap(lambda b: b * 1.0, depth=1, boundary="reflect", trim=False)[3:], None),
        # a take pushed through a broadcast changes the extent of the axis it acts on
        "broadcast_to(x,(3,12))[:, [5,0,3]]": (lambda x: da.broadcast_to(x, (3, 12))[:, [5, 0, 3]], lambda a: np.broadcast_to(a, (3, 12))[:, [5, 0, 3]]),
        "broadcast_to(x,(3,12))[:, [2]*14]": (lambda x: da.broadcast_to(x, (3, 12))[:, [2] * 14], lambda a: np.broadcast_to(a, (3, 12))[:, [2] * 14]),
        # lazy (delayed) values handed to a blockwise function above an elemwise op: blockwise fusion must still
        # deliver the computed value, whether the delayed object is a keyword, or sits inside a list / dict argument
        "map_blocks(f, x+1, off=delayed)": (lambda x: da.map_blocks(_add_kw, x + 1, off=_delayed_ten(), dtype="f8"), lambda a: a + 11),
        "map_blocks(f, x+1, [delayed])": (lambda x: da.map_blocks(_add_first, x + 1, [_delayed_ten()], dtype="f8"), lambda a: a + 11),
        "map_blocks(f, x+1, off={'a': delayed})": (lambda x: da.map_blocks(_add_key, x + 1, off={"a": _delayed_ten()}, dtype="f8"), lambda a: a + 11),
        "map_blocks(f, x+1, delayed)": (lambda x: da.map_blocks(_add_pos, x + 1, _delayed_ten(), dtype="f8"), lambda a: a + 11),
        # a dask array (0-d reduction result / small 1-D array) handed to a block function as a keyword or inside a list:
        # it is finalized into one task under its bare name, which the optimised graph must still define
        "map_blocks(f, x+1, off=<0-d dask sum>)": (lambda x: da.map_blocks(_add_kw, x + 1, off=da.ones((2,), chunks=1).sum() * 5, dtype="f8"), lambda a: a + 11),
        "map_blocks(f, x+1, [<1-d dask array>])": (lambda x: da.map_blocks(_add_first, x + 1, [da.ones((1,), chunks=1) * 10], dtype="f8"), lambda a: a + 11),
        "map_blocks(f, x+1, off=<swv reduction>[0])": (lambda x: da.map_blocks(_add_kw, x + 1, off=da.sliding_window_view(da.arange(6.0, chunks=1), 3).sum(-1)[1:2] + 4, dtype="f8"), lambda a: a + 11),
    }
    ops2 = {
        "(x+1)[1:4, ::2]": (lambda x: (x + 1)[1:4, ::2], lambda a: (a + 1)[1:4, ::2]),
        "x.T[1:5]": (lambda x: x.T[1:5], lambda a: a.T[1:5]),
        "x.T.rechunk((3,5))": (lambda x: x.T.rechunk((3, 5)), lambda a: a.T),
        "x.sum(0)[1:4]": (lambda x: x.sum(axis=0)[1:4], lambda a: a.sum(axis=0)[1:4]),
        "x.mean(1, keepdims=True)[2:]": (lambda x: x.mean(axis=1, keepdims=True)[2:], lambda a: a.mean(axis=1, keepdims=True)[2:]),
        "x[:, 2]": (lambda x: x[:, 2], lambda a: a[:, 2]),
        "x[1][::2]": (lambda x: x[1][::2], lambda a: a[1][::2]),
        "(x + x[0])[2:, 1:]": (lambda x: (x + x[0])[2:, 1:], lambda a: (a + a[0])[2:, 1:]),
        "broadcast_to(x[0],(3,6))[1:]": (lambda x: da.broadcast_to(x[0], (3, 6))[1:], lambda a: np.broadcast_to(a[0], (3, 6))[1:]),
        "x.rechunk((1,6)).reshape(30)[3:20]": (lambda x: x.rechunk((1, 6)).reshape(30)[3:20], lambda a: a.reshape(30)[3:20]),
        "x.rechunk((5,1))[1:, 2:4]": (lambda x: x.rechunk((5, 1))[1:, 2:4], lambda a: a[1:, 2:4]),
        "concat([x,x],1).rechunk((2,4))": (lambda x: da.concatenate([x, x], axis=1).rechunk((2, 4)), lambda a: np.concatenate([a, a], axis=1)),
        "stack([x,x])[1, 2:]": (lambda x: da.stack([x, x])[1, 2:], lambda a: np.stack([a, a])[1, 2:]),
        "(x>3).any(1)": (lambda x: (x > 3).any(axis=1), lambda a: (a > 3).any(axis=1)),
        "x.max(1)[::-1]": (lambda x: x.max(axis=1)[::-1], lambda a: a.max(axis=1)[::-1]),
        "expand_dims(x,0).rechunk((1,2,3))": (lambda x: da.expand_dims(x, 0).rechunk((1, 2, 3)), lambda a: np.expand_dims(a, 0)),
        "x[::-1, ::-1][1:3]": (lambda x: x[::-1, ::-1][1:3], lambda a: a[::-1, ::-1][1:3]),
        "tensordot(x, x.T)": (lambda x: da.tensordot(x, x.T, axes=1), lambda a: np.tensordot(a, a.T, axes=1)),
        # coarse slice through a blockwise with adjust_chunks, one operand being a single block broadcast along the sliced axis
        "blockwise(adjust_chunks, x + row)[1:2]": (lambda x: _halving_blockwise(x)[1:2], None),
        "blockwise(adjust_chunks, x + row)[0:3, 1:]": (lambda x: _halving_blockwise(x)[0:3, 1:], None),
        # ufuncs with array-valued where= / out=: a slice pushed through the elemwise node must slice those operands too
        "add(x,x,where=m,out=z)[1:4, 1:3]": (lambda x: _add_where_out(x)[1:4, 1:3], lambda a: _np_add_where_out(a)[1:4, 1:3]),
        "add(x,x,where=m,out=z)[2]": (lambda x: _add_where_out(x)[2], lambda a: _np_add_where_out(a)[2]),
        "add(x,x,where=m,out=z)[:, 1]": (lambda x: _add_where_out(x)[:, 1], lambda a: _np_add_where_out(a)[:, 1]),
        "add(x,x,where=m,out=z)[::2]": (lambda x: _add_where_out(x)[::2], lambda a: _np_add_where_out(a)[::2]),
        "add(x,x,where=m,out=z).rechunk((2,4))": (lambda x: _add_where_out(x).rechunk((2, 4)), lambda a: _np_add_where_out(a)),
    }
    # overlap computations followed by slices near and away from the edges (reference: the raw, unoptimised form)
    def halo(depth):
        def f(b):
            k = np.ones(2 * depth + 1)
            return np.convolve(b, k, mode="same")
        return f
    for bnd in ("periodic", "reflect", "nearest", "none", 0.0):
        for depth in (1, 2, 3):
            for a, b in ((1, 12), (2, 10), (0, 3), (9, 12), (1, 3), (10, 11), (4, 8), (0, 12)):
                if tier == "quick" and (depth == 3 or (a, b) in ((0, 12), (4, 8)) and bnd not in ("periodic",)):
                    continue
                ops1[f"map_overlap(depth={depth},boundary={bnd})[{a}:{b}]"] = (
                    (lambda x, depth=depth, bnd=bnd, a=a, b=b: x.map_overlap(halo(depth), depth=depth, boundary=bnd, dtype="f8")[a:b]),
                    None)
    # coarse slice through a blockwise whose blocks change size (adjust_chunks / map_blocks(chunks=...)): every position of
    # the slice's last element relative to the output block boundaries (first / inner / last element of a block), at the
    # root and under a reduction
    def _repeat2(x):
        return x.map_blocks(lambda b: np.repeat(b, 2), chunks=(tuple(2 * c for c in x.chunks[0]),), dtype=x.dtype)
    # observations of a seeding agent on the unchanged tree: pushdowns that assume more than they check
    ops1["arange(0.5,10,1.5,dtype=int)[1::2]"] = (lambda x: da.arange(0.5, 10, 1.5, dtype=int, chunks=3)[1::2], None)
    ops1["arange(0.5,10,1.5,dtype=int)[2:5]"] = (lambda x: da.arange(0.5, 10, 1.5, dtype=int, chunks=3)[2:5], None)
    _row = np.arange(6.0).reshape(1, 6) * 100
    def _bw_row(x):
        return da.blockwise(np.add, "ij", x, "ij", da.from_array(_row, chunks=((1,), x.chunks[1])), "ij", dtype=float)
    ops2["blockwise(add, x, row(1,6))[1:2]"] = (lambda x: _bw_row(x)[1:2], lambda a: (a + _row)[1:2])
    ops2["blockwise(add, x, row(1,6))[3]"] = (lambda x: _bw_row(x)[3], lambda a: (a + _row)[3])
    ops2["blockwise(add, x, row(1,6))[2:, 1:4]"] = (lambda x: _bw_row(x)[2:, 1:4], lambda a: (a + _row)[2:, 1:4])
    for t in range(1, 25):
        for s_ in sorted({0, max(t - 3, 0), max(t - 9, 0)}):
            if tier == "quick" and s_ == max(t - 9, 0) and s_ not in (0, max(t - 3, 0)) and t % 2:
                continue
            ops1[f"map_blocks(repeat2, chunks=2c)[{s_}:{t}]"] = (lambda x, s_=s_, t=t: _repeat2(x)[s_:t], lambda a, s_=s_, t=t: np.repeat(a, 2)[s_:t])
            ops1[f"map_blocks(repeat2, chunks=2c)[{s_}:{t}].sum()"] = (lambda x, s_=s_, t=t: _repeat2(x)[s_:t].sum(), lambda a, s_=s_, t=t: np.repeat(a, 2)[s_:t].sum())
        ops1[f"map_blocks(repeat2, chunks=2c)[{t - 1}]"] = (lambda x, t=t: _repeat2(x)[t - 1], lambda a, t=t: np.repeat(a, 2)[t - 1])
    for c in lay1:
        for sname, mk in srcs1(c):
            for oname, (f, g) in ops1.items():
                if g is None and (sname != "np" or min(c) < 4):
                    continue  # overlap entries: NumPy sources, blocks at least as large as the depth
                if oname.startswith("map_blocks(repeat2") and sname != "np":
                    continue
                out.append((f"1d/{sname}/{c}/{oname}", (lambda mk=mk, f=f, g=g: (f(mk()), (g(d1) if g is not None else None), {}))))
    for c in lay2:
        for sname, mk in srcs2(c):
            for oname, (f, g) in ops2.items():
                out.append((f"2d/{sname}/{c}/{oname}", (lambda mk=mk, f=f, g=g: (f(mk()), (g(d2) if g is not None else None), {}))))
    # rank 3: every axis permutation (incl. the two 3-cycles, which are not their own inverse) under takes, slices,
    # rechunks and reductions -- the pushdowns through Transpose map axes through the permutation
    import itertools
    d3 = np.arange(24.0).reshape(2, 3, 4)
    d3c = np.arange(27.0).reshape(3, 3, 3)
    lay3 = [((1, 1), (3,), (2, 2)), ((2,), (1, 2), (1, 3))]
    lay3c = [((1, 2), (3,), (2, 1))]
    ops3 = {}
    for perm in itertools.permutations(range(3)):
        if tier == "quick" and perm in ((0, 1, 2), (0, 2, 1)):
            continue
        for ax in range(3):
            ops3[f"transpose{perm}.take([1,0],axis={ax})"] = (
                (lambda x, perm=perm, ax=ax: da.take(x.transpose(perm), [1, 0], axis=ax)),
                (lambda a, perm=perm, ax=ax: np.take(a.transpose(perm), [1, 0], axis=ax)))
        ops3[f"transpose{perm}[::-1, 1:, :2]"] = ((lambda x, perm=perm: x.transpose(perm)[::-1, 1:, :2]),
                                                  (lambda a, perm=perm: a.transpose(perm)[::-1, 1:, :2]))
        ops3[f"transpose{perm}[1]"] = ((lambda x, perm=perm: x.transpose(perm)[1]), (lambda a, perm=perm: a.transpose(perm)[1]))
        ops3[f"transpose{perm}.rechunk(1,2,2)"] = ((lambda x, perm=perm: x.transpose(perm).rechunk((1, 2, 2))),
                                                   (lambda a, perm=perm: a.transpose(perm)))
        ops3[f"transpose{perm}.sum(0)[1:]"] = ((lambda x, perm=perm: x.transpose(perm).sum(axis=0)[1:]),
                                               (lambda a, perm=perm: a.transpose(perm).sum(axis=0)[1:]))
        ops3[f"(transpose{perm}+1).transpose{perm}"] = ((lambda x, perm=perm: (x.transpose(perm) + 1).transpose(perm)),
                                                        (lambda a, perm=perm: (a.transpose(perm) + 1).transpose(perm)))
    ops3c = {}
    for perm in ((1, 2, 0), (2, 0, 1), (2, 1, 0)):
        for ax in range(3):
            ops3c[f"cubic.transpose{perm}[[2,0,1]] on axis {ax}"] = (
                (lambda x, perm=perm, ax=ax: da.take(x.transpose(perm), [2, 0, 1], axis=ax)),
                (lambda a, perm=perm, ax=ax: np.take(a.transpose(perm), [2, 0, 1], axis=ax)))
    for data, lays, ops in ((d3, lay3, ops3), (d3c, lay3c, ops3c)):
        for c in lays:
            mk = (lambda data=data, c=c: da.from_array(data, chunks=c))
            for oname, (f, g) in ops.items():
                out.append((f"3d/np/{c}/{oname}", (lambda mk=mk, f=f, g=g, data=data: (f(mk()), g(data), {}))))
    # grid-sensitive consumers (map_blocks with a second operand chunked like the first, with explicit chunks, with
    # block_info) over inner programs whose block grid the pushdowns would change: the optimiser has to keep such a
    # consumer's input on the grid it was built for (or the program, computable un-optimised, raises / pairs wrong blocks)
    d1g = np.arange(12.0)
    perm = [1, 0, 3, 2, 5, 4, 7, 6, 9, 8, 11, 10]
    swv = np.lib.stride_tricks.sliding_window_view
    inners = {
        "((x+1)[perm]*2)[6:10]": (lambda x: ((x + 1)[perm] * 2)[6:10], lambda a: ((a + 1)[perm] * 2)[6:10]),
        "(x+1)[perm][5:][1:5]": (lambda x: (x + 1)[perm][5:][1:5], lambda a: (a + 1)[perm][5:][1:5]),
        "(x+1)[perm][6:10]": (lambda x: (x + 1)[perm][6:10], lambda a: (a + 1)[perm][6:10]),
        "x[perm][3:][:6]": (lambda x: x[perm][3:][:6], lambda a: a[perm][3:][:6]),
        "((x+1)[perm].rechunk(12)*2)[6:10]": (lambda x: ((x + 1)[perm].rechunk(12) * 2)[6:10], lambda a: ((a + 1)[perm] * 2)[6:10]),
        "(x*2)[::-1][2:9][1:]": (lambda x: (x * 2)[::-1][2:9][1:], lambda a: (a * 2)[::-1][2:9][1:]),
        "(x+1).rechunk(5)[1:11][2:8]": (lambda x: (x + 1).rechunk(5)[1:11][2:8], lambda a: (a + 1)[1:11][2:8]),
        "swv(x,3).sum(-1)[2:9]": (lambda x: da.sliding_window_view(x, 3).sum(-1)[2:9], lambda a: swv(a, 3).sum(-1)[2:9]),
        "swv(x,3).sum(-1)[1:][1:8]": (lambda x: da.sliding_window_view(x, 3).sum(-1)[1:][1:8], lambda a: swv(a, 3).sum(-1)[1:][1:8]),
        "(roll(x,3)+1)[2:9][1:]": (lambda x: (da.roll(x, 3) + 1)[2:9][1:], lambda a: (np.roll(a, 3) + 1)[2:9][1:]),
        "concat(x,x*2)[3:20][2:]": (lambda x: da.concatenate([x, x * 2])[3:20][2:], lambda a: np.concatenate([a, a * 2])[3:20][2:]),
    }
    for c in [(6, 2, 2, 2), (8, 2, 2), (4, 4, 4), (1, 2, 9)][: 3 if tier == "quick" else 4]:
        for iname, (fi, gi) in inners.items():
            for cname, (fc, gc) in _grid_consumers().items():
                out.append((f"1d/np/{c}/grid-consumer/{cname} over {iname}",
                            (lambda c=c, fi=fi, gi=gi, fc=fc, gc=gc: (fc(fi(da.from_array(d1g, chunks=(c,)))), gc(gi(d1g)), {}))))
    return out


def naming_families():
    """families of programs that differ in exactly one respect that matters for the array they denote (chunking with the same
    number of blocks, a region of the same length, a closure cell, a configuration value, the data behind a user-supplied
    name, ...): {family: [(label, build)]}, build() -> (collection, expected value or None, expected chunks or None).
    Two members of a family must never share a name (or, sharing it, must be the same array)."""
    import numpy as np
    import dask
    import dask_array as da
    fam = {}

    def add(family, label, build):
        fam.setdefault(family, []).append((label, build))

    # random arrays: same generator state, size and arguments, as many blocks, different block sizes / grids
    for kind in ("generator", "randomstate"):
        def rng(kind=kind, seed=1234):
            return da.random.default_rng(seed) if kind == "generator" else da.random.RandomState(seed)
        for dist in ("random", "normal", "integers"):
            def draw(g, size, chunks, dist=dist, kind=kind):
                if dist == "random":
                    return g.random(size, chunks=chunks) if kind == "generator" else g.random_sample(size, chunks=chunks)
                if dist == "normal":
                    return g.normal(1.0, 2.0, size=size, chunks=chunks)
                return g.integers(0, 50, size=size, chunks=chunks) if kind == "generator" else g.randint(0, 50, size=size, chunks=chunks)
            for size, chunks in (((12, 12), (6, 4)), ((12, 12), (4, 6)), ((12, 12), (6, 6)), ((10,), ((5, 5),)), ((10,), ((4, 6),)), ((10,), ((6, 4),))):
                add(f"random/{kind}/{dist}/{len(size)}d", f"chunks={chunks}",
                    lambda rng=rng, draw=draw, size=size, chunks=chunks: (draw(rng(), size, chunks), None, da.core.normalize_chunks(chunks, size) if hasattr(da, "core") and hasattr(da.core, "normalize_chunks") else None))
        add(f"random/{kind}/seeds", "seed 1", lambda rng=rng: (rng(seed=1).normal(size=(8,), chunks=4), None, ((4, 4),)))
        add(f"random/{kind}/seeds", "seed 2", lambda rng=rng: (rng(seed=2).normal(size=(8,), chunks=4), None, ((4, 4),)))
        add(f"random/{kind}/args", "loc 0", lambda rng=rng: (rng().normal(0.0, 1.0, size=(8,), chunks=4), None, ((4, 4),)))
        add(f"random/{kind}/args", "loc 1", lambda rng=rng: (rng().normal(1.0, 1.0, size=(8,), chunks=4), None, ((4, 4),)))
    # chunks="auto" resolved under different configurations
    big = np.arange(10000.0)
    for size in ("8 kB", "16 kB", "40 kB"):
        def mk(size=size):
            with dask.config.set({"array.chunk-size": size}):
                x = da.from_array(big, chunks="auto")
                ch = x.chunks
            n = {"8 kB": 1000, "16 kB": 2000, "40 kB": 5000}[size]
            return x, big, ((n,) * (10000 // n),)
        add("from_array/auto-under-config", f"array.chunk-size={size}", mk)
        def mk1(size=size):
            with dask.config.set({"array.chunk-size": size}):
                x = da.from_array(big, chunks="auto") + 1
            return x, big + 1, None
        add("from_array/auto-under-config/+1", f"array.chunk-size={size}", mk1)
    # two sources given the same name by the user: the library must not confuse what it derives from them
    for fname, prog, ref in (("[:5]+1", lambda t: t[:5] + 1, lambda a: a[:5] + 1), ("rechunk(2)", lambda t: t.rechunk(2), lambda a: a),
                             ("[::2]", lambda t: t[::2], lambda a: a[::2]), ("rechunk(2)[1:]", lambda t: t.rechunk(2)[1:], lambda a: a[1:]),
                             ("+1", lambda t: t + 1, lambda a: a + 1), ("[3]", lambda t: t[3], lambda a: a[3]),
                             ("[2:8].rechunk(3).sum()", lambda t: t[2:8].rechunk(3).sum(), lambda a: a[2:8].sum()),
                             ("[[4, 1]]", lambda t: t[[4, 1]], lambda a: a[[4, 1]])):
        for label, data in (("zeros", np.zeros(10)), ("ones", np.ones(10)), ("arange", np.arange(10.0))):
            add(f"from_array/user-name/{fname}", label,
                lambda prog=prog, ref=ref, data=data: (prog(da.from_array(data, chunks=5, name="user-named")), ref(data), None))
    # creation routines: as many blocks, other block sizes
    for cname, mk, ref in (("ones", lambda c: da.ones((10,), chunks=c), np.ones(10)), ("zeros", lambda c: da.zeros((10,), chunks=c), np.zeros(10)),
                           ("full", lambda c: da.full((10,), 7.0, chunks=c), np.full(10, 7.0)), ("arange", lambda c: da.arange(10, chunks=c), np.arange(10)),
                           ("linspace", lambda c: da.linspace(0, 1, 10, chunks=c), np.linspace(0, 1, 10)),
                           ("from_array", lambda c: da.from_array(np.arange(10.0), chunks=c), np.arange(10.0)),
                           ("from_array.rechunk", lambda c: da.from_array(np.arange(10.0), chunks=10).rechunk(c), np.arange(10.0)),
                           ("from_array+1.rechunk", lambda c: (da.from_array(np.arange(10.0), chunks=10) + 1).rechunk(c), np.arange(10.0) + 1),
                           ("eye", lambda c: da.eye(10, chunks=c[0][0]) if c[0][0] in (5, 2) else da.eye(10, chunks=5), None)):
        for c in (((5, 5),), ((4, 6),), ((6, 4),), ((2,) * 5,)):
            if cname == "eye" and c[0][0] not in (5, 2):
                continue
            add(f"creation/{cname}", f"chunks={c}", lambda mk=mk, c=c, ref=ref, cname=cname: (mk(c), ref, None if cname == "eye" else c))
    # regions of one source with the same length
    base = np.arange(12.0) * 3 % 7
    for a, b, s in ((0, 6, 1), (1, 7, 1), (2, 8, 1), (0, 12, 2), (1, 12, 2), (11, None, -2), (10, None, -2)):
        add("region/same-length", f"[{a}:{b}:{s}]", lambda a=a, b=b, s=s: (da.from_array(base, chunks=4)[a:b:s], base[a:b:s], None))
        add("region/same-length/+1", f"[{a}:{b}:{s}]", lambda a=a, b=b, s=s: ((da.from_array(base, chunks=4) + 1)[a:b:s], (base + 1)[a:b:s], None))
    # functions that differ only in a closure cell / a default / a keyword
    for k in (1, 2, 3):
        add("map_blocks/closure-cell", f"k={k}", lambda k=k: (da.from_array(base, chunks=4).map_blocks(lambda b: b + k, dtype="f8"), base + k, None))
        add("map_blocks/default", f"k={k}", lambda k=k: (da.from_array(base, chunks=4).map_blocks(lambda b, k=k: b * k, dtype="f8"), base * k, None))
        add("map_blocks/keyword", f"k={k}", lambda k=k: (da.from_array(base, chunks=4).map_blocks(_add_kw, off=k, dtype="f8"), base + k, None))
        add("map_overlap/depth", f"depth={k}", lambda k=k: (da.from_array(base, chunks=4).map_overlap(lambda b: b * 1.0, depth=k, boundary="none", trim=False), None, None))
        add("roll/shift", f"shift={k}", lambda k=k: (da.roll(da.from_array(base, chunks=4), k), np.roll(base, k), None))
        add("pad/width", f"width={k}", lambda k=k: (da.pad(da.from_array(base, chunks=4), k, mode="edge"), np.pad(base, k, mode="edge"), None))
        add("reduction/split_every", f"split_every={k + 1}", lambda k=k: (da.from_array(base, chunks=2).sum(split_every=k + 1), base.sum(), None))
        add("topk/k", f"k={k}", lambda k=k: (da.topk(da.from_array(base, chunks=4), k), np.sort(base)[::-1][:k], None))
    # scalars that compare (and hash) equal but are not the same operand
    for label, v in (("1", 1), ("1.0", 1.0), ("True", True), ("np.int8(1)", np.int8(1)), ("np.float32(1)", np.float32(1)), ("1+0j", 1 + 0j)):
        add("elemwise/equal-scalars", label, lambda v=v: (da.from_array(np.arange(6, dtype="i2"), chunks=3) + v, np.arange(6, dtype="i2") + v, None))
        add("full/equal-scalars", label, lambda v=v: (da.full((6,), v, chunks=3), np.full((6,), v), None))
    for label, dt in (("f4", "f4"), ("f8", "f8"), ("i4", "i4"), ("i8", "i8"), ("c8", "c8")):
        add("astype", label, lambda dt=dt: (da.from_array(base, chunks=4).astype(dt), base.astype(dt), None))
        add("sum/dtype", label, lambda dt=dt: (da.from_array(base, chunks=4).sum(dtype=dt), base.sum(dtype=dt), None))
    # shape changes with the same number of elements and blocks
    sq = np.arange(36.0).reshape(6, 6)
    add("reshape", "(36,)", lambda: (da.from_array(sq, chunks=(2, 6)).reshape(36), sq.reshape(36), None))
    add("reshape", "(6,2,3)", lambda: (da.from_array(sq, chunks=(2, 6)).reshape(6, 2, 3), sq.reshape(6, 2, 3), None))
    add("reshape", "(6,3,2)", lambda: (da.from_array(sq, chunks=(2, 6)).reshape(6, 3, 2), sq.reshape(6, 3, 2), None))
    add("reshape", "(2,3,6)", lambda: (da.from_array(sq, chunks=(2, 6)).reshape(2, 3, 6), sq.reshape(2, 3, 6), None))
    add("reshape", "(3,2,6)", lambda: (da.from_array(sq, chunks=(2, 6)).reshape(3, 2, 6), sq.reshape(3, 2, 6), None))
    for ax in ((0, 1), (1, 0)):
        add("transpose", f"axes={ax}", lambda ax=ax: (da.from_array(sq, chunks=(3, 2)).transpose(ax), sq.transpose(ax), None))
    for ax in (0, 1):
        add("take/axis", f"axis={ax}", lambda ax=ax: (da.take(da.from_array(sq, chunks=(3, 3)), [5, 0, 2], axis=ax), np.take(sq, [5, 0, 2], axis=ax), None))
        add("cumsum/axis", f"axis={ax}", lambda ax=ax: (da.from_array(sq, chunks=(3, 3)).cumsum(axis=ax), sq.cumsum(axis=ax), None))
        add("flip/axis", f"axis={ax}", lambda ax=ax: (da.flip(da.from_array(sq, chunks=(3, 3)), ax), np.flip(sq, ax), None))
        add("concatenate/axis", f"axis={ax}", lambda ax=ax: (da.concatenate([da.from_array(sq, chunks=(3, 3))] * 2, axis=ax), np.concatenate([sq, sq], axis=ax), None))
    for idx in ([5, 0, 2], [0, 5, 2], [2, 0, 5]):
        add("take/indices", str(idx), lambda idx=idx: (da.from_array(sq, chunks=(3, 3))[idx], sq[idx], None))
    for m in ((sq[:, 0] > 10), (sq[:, 0] > 20), (sq[:, 0] < 15)):
        add("mask", str(m.astype(int).tolist()), lambda m=m: (da.from_array(sq, chunks=(3, 3))[da.from_array(m, chunks=3)], sq[m], None))
    return fam


# ---------------------------------------------------------------------------
# C01: generated programs (random compositions of the public API against NumPy)
# ---------------------------------------------------------------------------
def _gen_chunks(rnd, shape):
    out = []
    for n in shape:
        if n == 0:
            out.append((0,))
            continue
        kind = rnd.random()
        if kind < 0.2:
            out.append((n,))
        elif kind < 0.4:
            out.append((1,) * n)
        else:
            sizes = []
            left = n
            while left > 0:
                c = rnd.randint(1, max(1, min(left, 4)))
                sizes.append(c)
                left -= c
            out.append(tuple(sizes))
    return tuple(out)


def _gen_ops():
    """(name, applicable(a), dask_fn(x, a, rnd) -> collection, numpy_fn(a, rnd) -> ndarray); both fns draw the same random
    choices because they are called with random generators in the same state"""
    import numpy as np
    import dask_array as da
    swv = np.lib.stride_tricks.sliding_window_view

    def rslice(rnd, n):
        k = rnd.random()
        if n == 0 or k < 0.15:
            return slice(None)
        if k < 0.3:
            return rnd.randrange(-n, n)
        a, b = rnd.randint(-n - 1, n + 1), rnd.randint(-n - 1, n + 1)
        st = rnd.choice([1, 1, 1, 2, 3, -1, -2])
        return slice(a if rnd.random() < 0.8 else None, b if rnd.random() < 0.8 else None, st)

    def index(rnd, shape):
        idx = [rslice(rnd, n) for n in shape]
        if rnd.random() < 0.2 and idx:
            idx.insert(rnd.randrange(len(idx) + 1), None)
        if rnd.random() < 0.15 and len(idx) > 1:
            i = rnd.randrange(len(idx))
            idx[i:] = [Ellipsis]
        return tuple(idx)

    def axis(rnd, nd):
        return rnd.randrange(nd)

    def axes(rnd, nd):
        k = rnd.random()
        if k < 0.3:
            return None
        if k < 0.8 or nd == 1:
            return rnd.randrange(nd)
        return tuple(sorted(rnd.sample(range(nd), rnd.randint(1, nd))))

    ops = []

    def op(name, applicable, dfn, nfn):
        ops.append((name, applicable, dfn, nfn))
    num = lambda a: a.dtype.kind in "fiu"
    flt = lambda a: a.dtype.kind == "f"
    nd1 = lambda a: a.ndim >= 1
    nonempty = lambda a: a.size > 0
    op("add-scalar", num, lambda x, a, r: x + r.choice([1, 2.5, -3]), lambda a, r: a + r.choice([1, 2.5, -3]))
    op("mul-self", num, lambda x, a, r: x * x, lambda a, r: a * a)
    op("neg", num, lambda x, a, r: -x, lambda a, r: -a)
    op("abs-sqrt", num, lambda x, a, r: da.sqrt(abs(x)), lambda a, r: np.sqrt(abs(a)))
    op("astype", lambda a: a.dtype.kind in "fiub", lambda x, a, r: x.astype(r.choice(["f4", "f8", "i8", "i4"])), lambda a, r: a.astype(r.choice(["f4", "f8", "i8", "i4"])))
    op("clip", num, lambda x, a, r: da.clip(x, 1, 5), lambda a, r: np.clip(a, 1, 5))
    op("compare", num, lambda x, a, r: x > r.choice([0, 3, 7]), lambda a, r: a > r.choice([0, 3, 7]))
    op("where", num, lambda x, a, r: da.where(x > 3, x, -x), lambda a, r: np.where(a > 3, a, -a))
    op("add-first-row", lambda a: num(a) and a.ndim >= 2 and a.shape[0] > 0, lambda x, a, r: x + x[0], lambda a, r: a + a[0])
    op("mul-last-col", lambda a: num(a) and a.ndim >= 2 and a.shape[-1] > 0, lambda x, a, r: x * x[..., -1:], lambda a, r: a * a[..., -1:])
    op("maximum-T", lambda a: num(a) and a.ndim == 2 and a.shape[0] == a.shape[1], lambda x, a, r: da.maximum(x, x.T), lambda a, r: np.maximum(a, a.T))
    op("index", lambda a: True, lambda x, a, r: x[index(r, a.shape)], lambda a, r: a[index(r, a.shape)])
    op("transpose", lambda a: a.ndim >= 2, lambda x, a, r: x.transpose(_perm(r, a.ndim)), lambda a, r: a.transpose(_perm(r, a.ndim)))
    op("swapaxes", lambda a: a.ndim >= 2, lambda x, a, r: da.swapaxes(x, 0, a.ndim - 1), lambda a, r: np.swapaxes(a, 0, a.ndim - 1))
    op("flip", nd1, lambda x, a, r: da.flip(x, axis(r, a.ndim)), lambda a, r: np.flip(a, axis(r, a.ndim)))
    op("roll", nd1, lambda x, a, r: da.roll(x, r.randint(-3, 3), axis=axis(r, a.ndim)), lambda a, r: np.roll(a, r.randint(-3, 3), axis=axis(r, a.ndim)))
    op("ravel", lambda a: True, lambda x, a, r: x.ravel(), lambda a, r: a.ravel())
    op("reshape-merge", lambda a: a.ndim >= 2, lambda x, a, r: x.reshape((-1,) + a.shape[2:]), lambda a, r: a.reshape((-1,) + a.shape[2:]))
    op("reshape-split", lambda a: a.ndim >= 1 and a.shape[0] % 2 == 0 and a.shape[0] > 0, lambda x, a, r: x.reshape((2, -1) + a.shape[1:]), lambda a, r: a.reshape((2, -1) + a.shape[1:]))
    op("expand_dims", lambda a: a.ndim <= 3, lambda x, a, r: da.expand_dims(x, r.randrange(a.ndim + 1)), lambda a, r: np.expand_dims(a, r.randrange(a.ndim + 1)))
    op("squeeze", lambda a: 1 in a.shape, lambda x, a, r: da.squeeze(x), lambda a, r: np.squeeze(a))
    op("rechunk", nd1, lambda x, a, r: x.rechunk(_gen_chunks(r, a.shape)), lambda a, r: (_gen_chunks(r, a.shape), a)[1])
    for red in ("sum", "mean", "max", "min", "std", "var", "prod", "any", "all"):
        def dfn(x, a, r, red=red):
            ax = axes(r, a.ndim)
            kd = r.random() < 0.3
            return getattr(da, red)(x, axis=ax, keepdims=kd)

        def nfn(a, r, red=red):
            ax = axes(r, a.ndim)
            kd = r.random() < 0.3
            return getattr(np, red)(a, axis=ax, keepdims=kd)
        op(red, (lambda a, red=red: a.ndim >= 1 and a.dtype.kind in "fiub" and (a.size > 0 or red in ("sum", "prod", "any", "all")) and
                 (red not in ("max", "min", "mean", "std", "var") or all(n > 0 for n in a.shape))), dfn, nfn)
    op("argmax", lambda a: nd1(a) and nonempty(a) and a.dtype.kind in "fiu" and all(n > 0 for n in a.shape), lambda x, a, r: da.argmax(x, axis=axis(r, a.ndim)), lambda a, r: np.argmax(a, axis=axis(r, a.ndim)))
    op("cumsum", lambda a: nd1(a) and num(a), lambda x, a, r: da.cumsum(x, axis=axis(r, a.ndim)), lambda a, r: np.cumsum(a, axis=axis(r, a.ndim)))
    op("cumprod", lambda a: nd1(a) and flt(a), lambda x, a, r: da.cumprod(x / 4, axis=axis(r, a.ndim)), lambda a, r: np.cumprod(a / 4, axis=axis(r, a.ndim)))
    op("cumsum-blelloch", lambda a: nd1(a) and num(a), lambda x, a, r: da.cumsum(x, axis=axis(r, a.ndim), method="blelloch"), lambda a, r: np.cumsum(a, axis=axis(r, a.ndim)))
    op("cumprod-blelloch", lambda a: nd1(a) and flt(a), lambda x, a, r: da.cumprod(x / 4, axis=axis(r, a.ndim), method="blelloch"), lambda a, r: np.cumprod(a / 4, axis=axis(r, a.ndim)))
    op("concat-self", nd1, lambda x, a, r: da.concatenate([x, x * 2 if a.dtype.kind != "b" else x], axis=axis(r, a.ndim)), lambda a, r: np.concatenate([a, a * 2 if a.dtype.kind != "b" else a], axis=axis(r, a.ndim)))
    op("stack-self", lambda a: a.ndim <= 3, lambda x, a, r: da.stack([x, x], axis=r.randrange(a.ndim + 1)), lambda a, r: np.stack([a, a], axis=r.randrange(a.ndim + 1)))
    op("take", lambda a: nd1(a) and nonempty(a), lambda x, a, r: _take(da, x, a, r), lambda a, r: _take(np, a, a, r))
    op("mask-select", lambda a: a.ndim == 1 and num(a), lambda x, a, r: x[x > 3], lambda a, r: a[a > 3])
    op("map_blocks", num, lambda x, a, r: x.map_blocks(_times3, dtype=a.dtype), lambda a, r: a * 3)
    op("map_overlap", lambda a: a.ndim == 1 and num(a) and a.shape[0] >= 4, lambda x, a, r: x.rechunk(max(2, a.shape[0] // 2)).map_overlap(_stencil3, depth=1, boundary="periodic", dtype=a.dtype), lambda a, r: _stencil3(a))
    op("swv-sum", lambda a: a.ndim >= 1 and num(a) and a.shape[-1] >= 3, lambda x, a, r: da.sliding_window_view(x, 3, axis=-1).sum(-1), lambda a, r: swv(a, 3, axis=-1).sum(-1))
    op("pad", lambda a: nd1(a) and num(a) and nonempty(a), lambda x, a, r: da.pad(x, r.randint(1, 2), mode=r.choice(["edge", "constant", "reflect"]) if min(a.shape) > 1 else "edge"), lambda a, r: np.pad(a, r.randint(1, 2), mode=r.choice(["edge", "constant", "reflect"]) if min(a.shape) > 1 else "edge"))
    op("diff", lambda a: nd1(a) and num(a) and a.shape[-1] >= 2, lambda x, a, r: da.diff(x, axis=-1), lambda a, r: np.diff(a, axis=-1))
    op("repeat", nd1, lambda x, a, r: da.repeat(x, 2, axis=axis(r, a.ndim)), lambda a, r: np.repeat(a, 2, axis=axis(r, a.ndim)))
    op("tile", lambda a: a.ndim <= 2, lambda x, a, r: da.tile(x, 2), lambda a, r: np.tile(a, 2))
    op("setitem", lambda a: nd1(a) and num(a) and nonempty(a), lambda x, a, r: _setitem(x, a, r), lambda a, r: _setitem(a.copy(), a, r))
    op("matmul-T", lambda a: a.ndim == 2 and num(a), lambda x, a, r: x @ x.T, lambda a, r: a @ a.T)
    op("tensordot", lambda a: a.ndim == 2 and num(a), lambda x, a, r: da.tensordot(x, x.T, axes=1), lambda a, r: np.tensordot(a, a.T, axes=1))
    op("outer", lambda a: a.ndim == 1 and num(a) and a.size <= 12, lambda x, a, r: da.outer(x, x), lambda a, r: np.outer(a, a))
    op("topk", lambda a: a.ndim == 1 and num(a) and a.size >= 2, lambda x, a, r: da.topk(x, 2), lambda a, r: np.sort(a)[::-1][:2])
    op("isnan-nansum", flt, lambda x, a, r: da.nansum(da.where(x > 5, np.nan, x)), lambda a, r: np.nansum(np.where(a > 5, np.nan, a)))
    op("round", flt, lambda x, a, r: da.round(x / 3, 1), lambda a, r: np.round(a / 3, 1))
    return ops


def _perm(rnd, nd):
    p = list(range(nd))
    rnd.shuffle(p)
    return tuple(p)


def _times3(b):
    return b * 3


def _stencil3(b):
    import numpy as np
    return np.roll(b, 1) + b + np.roll(b, -1)


def _smooth(b):
    import numpy as np
    return np.convolve(b, np.ones(3) / 3, mode="same")


def _smooth_full(a):
    import numpy as np
    p = np.pad(a, 1, mode="reflect")
    return np.convolve(p, np.ones(3) / 3, mode="same")[1:-1]


def _take(mod, x, a, rnd):
    ax = rnd.randrange(a.ndim)
    n = a.shape[ax]
    idx = [rnd.randrange(-n, n) for _ in range(rnd.randint(1, 4))]
    return mod.take(x, idx, axis=ax)


def _setitem(x, a, rnd):
    n = a.shape[0]
    lo = rnd.randrange(n)
    x[lo: lo + 2] = 9
    return x


# programs kept exactly as first generated because a known-finding contract names them by seed
KNOWN_FINDING_SEEDS = {109919, 109436, 137996, 158270, 89223}


def generated_program(seed, depth=4):
    """one random program: a base array (shape, dtype, chunking drawn from `seed`) and up to `depth` operations; returns
    (dask collection, numpy value, description)"""
    import random
    import numpy as np
    import dask_array as da
    rnd = random.Random(seed)
    shape = rnd.choice([(7,), (12,), (4, 5), (6, 6), (3, 4, 2), (0, 3), (1, 5), (2, 1, 6), (9,), (5, 4), (16,), (23,)])
    dt = rnd.choice(["f8", "f8", "i8", "f4", "bool"])
    base = (np.arange(int(np.prod(shape))).reshape(shape) * 7 % 11 - 2)
    base = base.astype(dt) if dt != "bool" else base % 2 == 0
    chunks = _gen_chunks(rnd, shape)
    x = da.from_array(base, chunks=chunks)
    a = base
    desc = [f"from_array({shape}, {dt}, chunks={chunks})"]
    ops = _gen_ops()
    steps = 0
    tries = 0
    windowed = False
    taken = False
    inexact = False
    # results that depend on the order floating-point numbers are added / multiplied in (exact only up to rounding) ...
    ROUNDS = {"abs-sqrt", "mean", "std", "var", "cumprod", "cumprod-blelloch", "cumsum-blelloch", "matmul-T", "tensordot", "outer", "sum", "prod", "cumsum", "map_overlap",
              "swv-sum", "round", "mul-self", "mul-last-col", "isnan-nansum"}
    # ... must not be fed to an operation that is discontinuous in its input (a comparison, a rounding, a cast to
    # integers, an ordering): a difference in the last bit would flip the result, which the property's "within floating
    # tolerance" does not count as a disagreement
    JUMPS = {"compare", "where", "mask-select", "isnan-nansum", "round", "astype", "argmax", "topk", "clip", "max", "min", "maximum-T",
             "any", "all"}
    while steps < depth and tries < 40:
        tries += 1
        name, ok, dfn, nfn = rnd.choice(ops)
        if a.ndim > 4 or a.size > 4000 or not ok(a):
            continue
        if inexact and name in JUMPS:
            continue
        if name == "prod" and a.size > 8:
            continue        # products of many elements overflow, and inf * 0 depends on the order
        if name in ("var", "std") and a.dtype.kind == "f" and a.size and float(np.nanmax(np.abs(a))) > (100 if a.dtype == np.float32 else 1e6):
            continue        # E[x^2] - E[x]^2 on large values cancels down to the rounding of the squares
        if name in ("cumprod", "cumprod-blelloch", "mul-self") and a.dtype.kind == "f" and a.size and not np.all(np.abs(a[np.isfinite(a)]) < 1e30):
            continue        # chained products overflow; inf / nan then depend on the order of the multiplications
        if name in ("reshape-merge", "reshape-split", "ravel") and (windowed or taken) and seed not in KNOWN_FINDING_SEEDS:
            # a reshape of an array whose layout optimisation may change (the result of a native sliding-window reduction,
            # or of a take, whose advertised chunks are not stable) is known finding F52 (its own contract)
            continue
        if name == "take":
            taken = True
        if name == "swv-sum" and taken and seed not in KNOWN_FINDING_SEEDS:
            continue        # a sliding window over a take (advertised chunks not stable) is known finding F46 (own contract)
        if name == "swv-sum":
            # a sliding window over the result of a native sliding-window reduction is known finding F46 (its own contract,
            # sliding_window_view[over-a-layout-drifting-input]); generated programs take at most one
            if windowed:
                continue
            windowed = True
        st = rnd.getstate()
        try:
            with np.errstate(all="ignore"):
                a2 = np.asarray(nfn(a, rnd))
        except Exception:
            rnd.setstate(st)
            rnd.random()
            continue
        end = rnd.getstate()
        rnd.setstate(st)
        try:
            x = dfn(x, a, rnd)      # a refusal or failure of dask_array where NumPy computes is reported by the caller
        except NotImplementedError as ex:
            # a documented refusal (reshape across unevenly chunked axes, ...): leave this step out
            rnd.setstate(end)
            continue
        except Exception as ex:
            raise RuntimeError(f"{' . '.join(desc)} . {name} [input shape {a.shape}, chunks {x.chunks}]: {type(ex).__name__}: {str(ex)[:80]}") from ex
        rnd.setstate(end)
        a = a2
        desc.append(name)
        steps += 1
        if name in ROUNDS and a.dtype.kind in "fc":
            inexact = True
        if any(np.isnan(s) for s in x.shape):
            break
    return x, a, " . ".join(desc)
