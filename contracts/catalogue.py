"""A fixed, enumerated catalogue of small collections for the bounded (L2)
object-level contracts (DESIGN 2.2).  It is data, not a program generator:
each entry is (name, build) where build() returns (dask_array collection,
numpy expected value or None, info dict).

Used only under /venv/bin/python (needs dask_array and numpy).
"""
from __future__ import annotations

import itertools
import threading


class RecordingSource:
    """array-like with a storage grid that logs every read request and asserts
    it is a tuple of in-bounds basic slices."""

    def __init__(self, data, chunks=None):
        import numpy as np
        self._data = np.asarray(data)
        self.shape = self._data.shape
        self.dtype = self._data.dtype
        self.ndim = self._data.ndim
        if chunks is not None:
            self.chunks = chunks
        self.requests = []
        self.bad = []
        self._lock = threading.Lock()

    def __getitem__(self, idx):
        import numpy as np
        if not isinstance(idx, tuple):
            idx = (idx,)
        with self._lock:
            self.requests.append(idx)
            ok = len(idx) <= self.ndim
            for i, n in zip(idx, self.shape):
                if isinstance(i, slice):
                    a, b, c = i.start, i.stop, i.step
                    if c not in (None, 1) or a is None or b is None or not (0 <= a <= b <= n):
                        ok = False
                elif isinstance(i, (int, np.integer)):
                    if not (0 <= i < n):
                        ok = False
                else:
                    ok = False
            if not ok:
                self.bad.append(idx)
        return self._data[idx]

    def nonempty_requests(self):
        import numpy as np
        out = []
        for idx in self.requests:
            sub = self._data[idx]
            if np.size(sub) > 0:
                out.append(idx)
        return out

    def __len__(self):
        return self.shape[0]


def compositions(n, maxparts=None):
    if n == 0:
        yield ()
        return
    for first in range(1, n + 1):
        for rest in compositions(n - first):
            c = (first,) + rest
            if maxparts is None or len(c) <= maxparts:
                yield c


def layouts_1d(n, tier):
    out = list(compositions(n, 3 if tier == "quick" else None))
    if n == 0:
        out = [(0,)]
    return out


def sources(tier):
    """(name, numpy data)"""
    import numpy as np
    out = [("a1d6", np.arange(6.0)), ("a1d7i", np.arange(7)), ("a2d", np.arange(12.0).reshape(3, 4))]
    if tier != "quick":
        out += [("a1d8", np.arange(8.0) * 1.5), ("a2d_b", np.arange(20).reshape(4, 5)), ("a3d", np.arange(24.0).reshape(2, 3, 4))]
    return out


def chunkings_for(shape, tier, rng=None, limit=None):
    per_axis = [layouts_1d(n, tier) for n in shape]
    allc = list(itertools.product(*per_axis))
    if limit and len(allc) > limit and rng is not None:
        allc = rng.sample(allc, limit)
    return allc


def base_arrays(tier, rng, per_source=6):
    """(name, dask array, numpy, info) over NumPy and recording sources with enumerated chunkings."""
    import dask_array as da
    out = []
    for sname, data in sources(tier):
        for ch in chunkings_for(data.shape, tier, rng, per_source):
            out.append((f"{sname}/np/{ch}", (lambda d=data, c=ch: da.from_array(d, chunks=c)), data, {"kind": "numpy"}))
        ch = chunkings_for(data.shape, tier, rng, 2)
        for c in ch:
            def mk(d=data, c=c):
                src = RecordingSource(d)
                return da.from_array(src, chunks=c), src
            out.append((f"{sname}/rec/{c}", mk, data, {"kind": "recording"}))
            def mk2(d=data, c=c):
                src = RecordingSource(d, chunks=tuple(max(1, n // 2) for n in d.shape))
                return da.from_array(src, chunks=c), src
            out.append((f"{sname}/recgrid/{c}", mk2, data, {"kind": "recording-grid"}))
    return out


def derived(tier, rng):
    """catalogue of derived collections: (name, build() -> (collection, numpy expected or None, info))"""
    import numpy as np
    import dask_array as da
    entries = []

    def add(name, fn):
        entries.append((name, fn))

    for bname, mk, data, info in base_arrays(tier, rng):
        def base(mk=mk):
            r = mk()
            return r if not isinstance(r, tuple) else r[0]

        add(f"{bname}", lambda base=base, d=data: (base(), d, {}))
        add(f"{bname}+1", lambda base=base, d=data: (base() + 1, d + 1, {}))
        add(f"{bname}[1:]", lambda base=base, d=data: (base()[1:], d[1:], {}))
        add(f"{bname}[::-1]", lambda base=base, d=data: (base()[::-1], d[::-1], {}))
        add(f"{bname}[::2][1:]", lambda base=base, d=data: (base()[::2][1:], d[::2][1:], {}))
        add(f"{bname}.sum()", lambda base=base, d=data: (base().sum(), d.sum(), {}))
        add(f"{bname}.sum(0)", lambda base=base, d=data: (base().sum(axis=0), d.sum(axis=0), {}))
        add(f"{bname}.T", lambda base=base, d=data: (base().T, d.T, {}))
        add(f"{bname}.rechunk(2)", lambda base=base, d=data: (base().rechunk(2), d, {}))
        add(f"{bname}.rechunk(-1)[1:]", lambda base=base, d=data: (base().rechunk(-1)[1:], d[1:], {}))
        if data.ndim == 1:
            add(f"concat({bname},{bname})",
                lambda base=base, d=data: (da.concatenate([base(), base() * 2]), np.concatenate([d, d * 2]), {}))
            if len(data) >= 3:
                add(f"swv({bname},3).sum(-1) [layout-drifting]",
                    lambda base=base, d=data: (da.sliding_window_view(base(), 3).sum(-1),
                                               np.lib.stride_tricks.sliding_window_view(d, 3).sum(-1),
                                               {"layout_drifting": True}))
                add(f"swv({bname},2).max(-1) [layout-drifting]",
                    lambda base=base, d=data: (da.sliding_window_view(base(), 2).max(-1),
                                               np.lib.stride_tricks.sliding_window_view(d, 2).max(-1),
                                               {"layout_drifting": True}))
            add(f"{bname}[mask] [unknown chunks]",
                lambda base=base, d=data: ((lambda b: b[b > 2])(base()), d[d > 2], {"unknown_chunks": True}))
            add(f"elemwise-broadcast({bname})",
                lambda base=base, d=data: (base()[:, None] * base()[None, :], d[:, None] * d[None, :], {}))
        if data.ndim == 2:
            add(f"{bname}+{bname}.rechunk(1)", lambda base=base, d=data: (base() + base().rechunk(1), d + d, {}))
            add(f"{bname}[:, 1]", lambda base=base, d=data: (base()[:, 1], d[:, 1], {}))
            add(f"{bname}.mean(1)", lambda base=base, d=data: (base().mean(axis=1), d.mean(axis=1), {}))
    # creation routines and a persisted input
    add("arange(7, chunks=3)", lambda: (da.arange(7, chunks=3), np.arange(7), {}))
    add("ones((3,4), chunks=2)*3", lambda: (da.ones((3, 4), chunks=2) * 3, np.ones((3, 4)) * 3, {}))
    add("persisted", lambda: ((da.arange(6, chunks=2) + 1).persist() * 2, (np.arange(6) + 1) * 2, {"persisted": True}))
    return entries


def walk(expr):
    seen = set()
    stack = [expr]
    while stack:
        e = stack.pop()
        if id(e) in seen:
            continue
        seen.add(id(e))
        yield e
        try:
            deps = e.dependencies()
        except Exception:
            deps = []
        stack.extend(deps)
