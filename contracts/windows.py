"""Contracts for the banded native sliding-window plans (C19, C03).

The NumPy kernels (`_sliding_window_banded_reduce`, `_moving_window_banded_reduce`) combine, for output position t of
block i, a suffix of block i, the totals of the middle blocks and a prefix of a band of blocks.  Whether those three
pieces are exactly the window [t, t + window) is pure index arithmetic over the chunk boundaries: it is decided here
for all chunkings and windows; the kernels themselves stay bounded (sliding_window_view[numpy])."""
from pyvc.contract import contract, Loop
from pyvc import spec as S

SW = "dask_array/reductions/_sliding_window.py"


def native_ok(c, w):
    """what `supports_native_sliding_window(c, w) is True` establishes (and what the banded plan needs)"""
    n = S.ssum(c)
    return S.And(w >= 2, S.slen(c) >= 1, S.forall_idx(c, lambda j: S.at(c, j) >= 1), n >= w,
                 S.forall_idx(c, lambda j: S.Implies(S.prefix(c, j) < n - (w - 1), S.at(c, j) <= w - 1)))


def _all_chunkings(tier, zero=False):
    from contracts.slicing import chunkings
    return [c for _, c in chunkings(7 if tier == "quick" else 10, zero=zero) if c]


@contract(f"{SW}::supports_native_sliding_window", spec="ints", props=["C19", "C02"])
class supports_native_sliding_window:
    """the guard of the native path: it answers True only when the window is at least 2, every chunk is positive,
    the axis holds a full window and every block that emits output is no larger than window - 1"""
    params = {"chunks": "seq", "window": "int"}
    result = "bool"

    def requires(chunks, window):
        return S.slen(chunks) >= 1

    def facts(chunks, window):
        return [("mono_prefix", chunks), ("prefix_nonneg", chunks)]

    def ensures(result, chunks, window):
        return {"true-only-when-the-banded-plan-is-valid": S.Implies(result, native_ok(chunks, window))}

    loops = {
        "for#1": Loop(invariant=lambda v, v0: {
            "start": v.start == S.prefix(v.chunks, v.it),
            "emitting-blocks-fit": S.forall_idx(v.it, lambda j: S.Implies(S.prefix(v.chunks, j) < v.out_len,
                                                                         S.at(v.chunks, j) <= v.depth)),
        }),
    }

    def domain(tier, rng):
        for c in _all_chunkings(tier, zero=True):
            for w in range(0, 9):
                yield {"chunks": c, "window": w}


def _plan_rows(result):
    from pyvc.spec import RowsV
    if isinstance(result, RowsV):
        return result
    return result


@contract(f"{SW}::SlidingWindowReduction._block_plan", spec="r1", props=["C19", "C03"])
class swr_block_plan:
    """the banded plan of the native sliding-window reduction.  For every block q that emits output:
    the right edge of its first window lies in band block b > q (so block q's own suffix is never counted twice),
    that of its last window in block e >= b, band_offset is the edge's offset inside block b, and out_len <= the
    block's size -- hence window t of block q is exactly [start_q + t, end_q) + blocks q+1..b-1 + the first
    band_offset + t + 1 elements of blocks b..e.  Non-emitting blocks get the row (0, 0, q, q); output lengths are the
    input chunks clipped to the n - window + 1 outputs."""
    params = {"self": "obj:SWR"}
    ghosts = {"q": "int"}
    result = "rows:4"
    fields = {"SWR": {"array": "obj:Arr", "sliding_axis": "const", "window": "int"}, "Arr": {"chunks": "tup:seq"}}
    consts = {"self.sliding_axis": 0}
    locals = {"starts": "lseq", "plan": "rows:4"}

    def requires(self):
        return native_ok(S.item(self.get("array").get("chunks"), 0), self.get("window"))

    def facts(self):
        c = S.item(self.get("array").get("chunks"), 0)
        return [("mono_prefix", c), ("prefix_nonneg", c)]

    def row_ok(c, w, row, q, remaining_before):
        """the clauses for row q; remaining_before = outputs not yet assigned to blocks 0..q-1"""
        out_len, off, b, e = row
        edge = S.prefix(c, q) + w - 1
        emitting = S.And(
            out_len == S.min_(S.at(c, q), remaining_before), out_len >= 1,
            q < b, b <= e, e < S.slen(c),
            S.prefix(c, b) <= edge, edge < S.prefix(c, b + 1), off == edge - S.prefix(c, b),
            S.prefix(c, e) <= edge + out_len - 1, edge + out_len - 1 < S.prefix(c, e + 1))
        idle = S.And(out_len == 0, off == 0, b == q, e == q)
        return S.If(remaining_before >= 1, emitting, idle)

    def ensures(result, self, q):
        c = S.item(self.get("array").get("chunks"), 0)
        w = self.get("window")
        n_out = S.ssum(c) - w + 1
        return {
            "one-row-per-block": S.slen(result) == S.slen(c),
            "row": S.Implies(S.And(0 <= q, q < S.slen(c)),
                             swr_block_plan.row_ok(c, w, S.elem(result, q), q, S.max_(0, n_out - S.prefix(c, q)))),
        }

    loops = {
        "for#1": Loop(invariant=lambda v, v0: {
            "starts": S.And(S.slen(v.starts) == v.it + 1,
                            S.forall_idx(v.it + 1, lambda j: S.at(v.starts, j) == S.prefix(v.chunks, j))),
        }),
        "for#2": Loop(invariant=lambda v, v0: {
            "len": S.slen(v.plan) == v.it,
            "remaining": v.remaining == S.max_(0, S.ssum(v.chunks) - v.window + 1 - S.prefix(v.chunks, v.it)),
            "rows-so-far": S.Implies(S.And(0 <= v.q, v.q < v.it),
                                     swr_block_plan.row_ok(v.chunks, v.window, S.elem(v.plan, v.q), v.q,
                                                           S.max_(0, S.ssum(v.chunks) - v.window + 1 - S.prefix(v.chunks, v.q)))),
        }),
    }

    def call(fn, self):
        return fn(self)

    def normalize_result(result):
        return [tuple(r) for r in result]

    def domain(tier, rng):
        from pyvc.concrete import Rec
        for c in _all_chunkings(tier):
            for w in range(2, 9):
                yield {"self": Rec(array=Rec(chunks=(c,)), sliding_axis=0, window=w)}

    def ghost_domain(self):
        return {"q": range(0, len(self.get("array").get("chunks")[0]))}


def _ext_transfer_bytes(ex, st, args, kwargs, node):
    """TransferBytes(lo, hi): the pair itself"""
    from pyvc.spec import TupV
    return TupV(list(args), "tuple")


@contract(f"{SW}::SlidingWindowReduction.transfer_bytes", spec="r1", props=["C27"])
class swr_transfer_bytes:
    """transfer estimate of the native sliding-window reduction: 0 <= min <= max.  Uses the banded plan through its
    contract (assumed here as the class invariant of `_block_plan`, proved by the unit `_block_plan[r1]`): the band a
    block reads under min (band_offset + out_len elements) lies inside the band blocks b..e it fetches under max."""
    params = {"self": "obj:SWR"}
    result = "tup:real,real"
    fields = {"SWR": {"array": "obj:Arr", "sliding_axis": "const", "window": "int", "_block_plan": "rows:4"},
              "Arr": {"chunks": "tup:seq", "shape": "tup:int", "dtype": "obj:DType"}, "DType": {"itemsize": "int"}}
    consts = {"self.sliding_axis": 0}
    externals = {"TransferBytes": _ext_transfer_bytes}

    def requires(self):
        arr = self.get("array")
        c = S.item(arr.get("chunks"), 0)
        w = self.get("window")
        plan = self.get("_block_plan")
        n_out = S.ssum(c) - w + 1
        rows = S.forall_idx(c, lambda q: swr_block_plan.row_ok(c, w, S.elem(plan, q), q, S.max_(0, n_out - S.prefix(c, q))))
        return S.And(native_ok(c, w), S.slen(plan) == S.slen(c), rows, arr.get("dtype").get("itemsize") >= 0,
                     S.item(arr.get("shape"), 0) == S.ssum(c))

    def facts(self):
        c = S.item(self.get("array").get("chunks"), 0)
        return [("mono_prefix", c), ("prefix_nonneg", c)]

    def ensures(result, self):
        lo, hi = result.items
        return {"0<=min<=max": S.And(0 <= lo.t, lo.t <= hi.t)}

    def _hints(h, e):
        # the band read under min lies inside the band blocks fetched under max (linear facts first, then the products)
        c = h.chunks
        band = S.prefix(c, e.e + 1) - S.prefix(c, e.b)
        return {
            "band-blocks-in-range": S.And(0 <= e.b, e.b <= e.e + 1, e.e + 1 <= S.slen(c)),
            "band-blocks-sum": S.ssum(S.pyslice(c, e.b, e.e + 1)) == band,
            "band-inside-band-blocks": e.band_offset + e.out_len <= band,
            "middles-nonneg": S.And(e.b - e.i - 1 >= 0, e.cross >= 0),
            "product-middles": (e.b - e.i - 1) * e.cross >= 0,
            "product-band": S.And((e.band_offset + e.out_len) * e.cross >= 0,
                                  (e.band_offset + e.out_len) * e.cross <= (S.pyat(c, e.i) + S.ssum(S.pyslice(c, e.b, e.e + 1))) * e.cross),
        }

    loops = {"for#1": Loop(invariant=lambda v, v0: {"ordered": S.And(0 <= v.lo, v.lo <= v.hi)}, hints=_hints)}


# ---------------------------------------------------------------------------
# trailing-window (bottleneck move_*) plan
# ---------------------------------------------------------------------------
def moving_ok(c, w):
    """what `supports_native_moving_window(c, w) is True` establishes"""
    return S.And(w >= 2, S.slen(c) >= 2, S.forall_idx(c, lambda j: S.And(S.at(c, j) >= 1, S.at(c, j) <= w - 1)), S.ssum(c) >= w)


@contract(f"{SW}::supports_native_moving_window", spec="ints", props=["C19", "C26"])
class supports_native_moving_window:
    """the guard of the native trailing-window path: True only when window >= 2, at least two chunks, every chunk positive
    and smaller than the window, and the axis holds a full window"""
    params = {"chunks": "seq", "window": "int"}
    result = "bool"

    def requires(chunks, window):
        return S.slen(chunks) >= 1

    def ensures(result, chunks, window):
        return {"true-only-when-the-banded-plan-is-valid": S.Implies(result, moving_ok(chunks, window))}

    def domain(tier, rng):
        for c in _all_chunkings(tier, zero=True):
            for w in range(0, 9):
                yield {"chunks": c, "window": w}


@contract(f"{SW}::MovingWindowReduction._block_plan", spec="r1", props=["C19", "C03", "C26"])
class mwr_block_plan:
    """the banded plan of the trailing-window reduction.  Row q is (start_q, size_q, ...): the first block has no band;
    for every later block the left edge of its first window, max(0, start_q - window + 1), lies in band block g and that
    of its last window in block h, with g <= h < q (so the block's own prefix scan is never counted twice), band_offset
    is the first edge's offset inside block g, and the middle blocks covered whole are exactly h+1 .. q-1.  Hence window
    t of block q is [left edge, end of block h) + blocks h+1..q-1 + the block's own first t+1 elements."""
    params = {"self": "obj:MWR"}
    ghosts = {"q": "int"}
    result = "rows:int,int,int,optint,optint,range"
    fields = {"MWR": {"array": "obj:Arr", "sliding_axis": "const", "window": "int"}, "Arr": {"chunks": "tup:seq"}}
    consts = {"self.sliding_axis": 0}
    locals = {"starts": "lseq", "plan": "rows:int,int,int,optint,optint,range"}

    def requires(self):
        return moving_ok(S.item(self.get("array").get("chunks"), 0), self.get("window"))

    def facts(self):
        c = S.item(self.get("array").get("chunks"), 0)
        return [("mono_prefix", c), ("prefix_nonneg", c), ("strict_prefix", c)]

    def row_ok(c, w, row, q):
        from pyvc.spec import Opt
        start, size, off, g, h, middle = row
        sq = S.prefix(c, q)
        first = S.max_(0, sq - w + 1)
        last = S.max_(first, sq + S.at(c, q) - w)
        if isinstance(g, Opt):
            g_none, g_val, h_none, h_val = S._b(g.n), S._i(g.v), S._b(h.n), S._i(h.v)
            lo, hi = middle
        else:
            g_none, g_val, h_none, h_val = g is None, (g or 0), h is None, (h or 0)
            lo, hi = middle.start, middle.stop
        head = S.And(start == sq, size == S.at(c, q))
        no_band = S.And(g_none, h_none, off == 0, hi <= lo)
        band = S.And(S.Not(g_none), S.Not(h_none), 0 <= g_val, g_val <= h_val, h_val < q,
                     S.prefix(c, g_val) <= first, first < S.prefix(c, g_val + 1), off == first - S.prefix(c, g_val),
                     S.prefix(c, h_val) <= last, last < S.prefix(c, h_val + 1),
                     lo == h_val + 1, hi == q)
        return S.And(head, S.If(q == 0, no_band, band))

    def ensures(result, self, q):
        c = S.item(self.get("array").get("chunks"), 0)
        w = self.get("window")
        inr = S.And(0 <= q, q < S.slen(c))
        return {"one-row-per-block": S.slen(result) == S.slen(c),
                "row": S.Implies(inr, S.lazy_implies(inr, lambda: mwr_block_plan.row_ok(c, w, S.elem(result, q), q)))}

    loops = {
        "for#1": Loop(invariant=lambda v, v0: {
            "starts": S.And(S.slen(v.starts) == v.it + 1,
                            S.forall_idx(v.it + 1, lambda j: S.at(v.starts, j) == S.prefix(v.chunks, j))),
        }),
        "for#2": Loop(invariant=lambda v, v0: {
            "len": S.slen(v.plan) == v.it,
            "rows-so-far": S.Implies(S.And(0 <= v.q, v.q < v.it), mwr_block_plan.row_ok(v.chunks, v.window, S.elem(v.plan, v.q), v.q)),
        }),
    }

    def call(fn, self):
        return fn(self)

    def normalize_result(result):
        return [tuple(r) for r in result]

    def domain(tier, rng):
        from pyvc.concrete import Rec
        for c in _all_chunkings(tier):
            for w in range(2, 9):
                yield {"self": Rec(array=Rec(chunks=(c,)), sliding_axis=0, window=w)}

    def ghost_domain(self):
        return {"q": range(0, len(self.get("array").get("chunks")[0]))}


@contract(f"{SW}::MovingWindowReduction.transfer_bytes", spec="r1", props=["C27"])
class mwr_transfer_bytes:
    """transfer estimate of the native trailing-window reduction: 0 <= min <= max, from the plan's contract (class
    invariant of `_block_plan`, proved by `_block_plan[r1]`): the part of the band a block reads under min is the band
    blocks g..h minus the offset of its first window's left edge inside block g."""
    params = {"self": "obj:MWR"}
    result = "tup:real,real"
    fields = {"MWR": {"array": "obj:Arr", "sliding_axis": "const", "window": "int", "_block_plan": "rows:int,int,int,optint,optint,range"},
              "Arr": {"chunks": "tup:seq", "shape": "tup:int", "dtype": "obj:DType"}, "DType": {"itemsize": "int"}}
    consts = {"self.sliding_axis": 0}
    externals = {"TransferBytes": _ext_transfer_bytes}

    def requires(self):
        arr = self.get("array")
        c = S.item(arr.get("chunks"), 0)
        w = self.get("window")
        plan = self.get("_block_plan")
        rows = S.forall_idx(c, lambda q: mwr_block_plan.row_ok(c, w, S.elem(plan, q), q))
        return S.And(moving_ok(c, w), S.slen(plan) == S.slen(c), rows, arr.get("dtype").get("itemsize") >= 0,
                     S.item(arr.get("shape"), 0) == S.ssum(c))

    def facts(self):
        c = S.item(self.get("array").get("chunks"), 0)
        return [("mono_prefix", c), ("prefix_nonneg", c)]

    def ensures(result, self):
        lo, hi = result.items
        return {"0<=min<=max": S.And(0 <= lo.t, lo.t <= hi.t)}

    def _hints(h, e):
        from pyvc.spec import Opt
        c = S.item(h.x.get("chunks"), 0)
        g, hh = e.g, e.h
        gv, hv = S._i(g.v), S._i(hh.v)
        band = S.prefix(c, hv + 1) - S.prefix(c, gv)
        has = S.Not(S._b(g.n))
        sl = S.ssum(S.pyslice(c, g, Opt(False, hv + 1)))
        lo_, hi_ = e.middle[1], e.middle[2]
        return {
            "band-blocks-in-range": S.Implies(has, S.And(0 <= gv, gv <= hv + 1, hv + 1 <= S.slen(c))),
            "band-blocks-sum": S.Implies(has, sl == band),
            "offset-inside-band": S.Implies(has, S.And(0 <= e.band_start, e.band_start <= band)),
            "sizes-nonneg": S.And(e.c >= 0, e.cross >= 0),
            "middle-count-nonneg": S.rlen(lo_, hi_, 1) >= 0,
            "product-min": (S.rlen(lo_, hi_, 1) + S.If(has, sl - e.band_start, 0)) * e.cross >= 0,
            "product-order": (S.rlen(lo_, hi_, 1) + S.If(has, sl - e.band_start, 0)) * e.cross
                             <= (S.rlen(lo_, hi_, 1) + e.c + S.If(has, sl, 0)) * e.cross,
        }

    loops = {"for#1": Loop(invariant=lambda v, v0: {"ordered": S.And(0 <= v.lo, v.lo <= v.hi)}, hints=_hints)}
