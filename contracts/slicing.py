"""Contracts for dask_array/slicing/_utils.py and slicing/_basic.py helpers."""
from pyvc.contract import contract, Loop
from pyvc import spec as S

UTILS = "dask_array/slicing/_utils.py"
BASIC = "dask_array/slicing/_basic.py"


def same_selection(out, n_out, ref, n_ref, k):
    """`out` applied to an axis of length n_out selects, in order, exactly the
    positions `ref` selects on an axis of length n_ref (k: ghost position)."""
    return {
        "count": S.nsel(out, n_out) == S.nsel(ref, n_ref),
        "positions": S.Implies(S.And(0 <= k, k < S.nsel(ref, n_ref)),
                               S.sel(out, n_out, k) == S.sel(ref, n_ref, k)),
    }


@contract(f"{UTILS}::normalize_slice", spec="slice", props=["C12", "C13"])
class normalize_slice__slice:
    params = {"idx": "slice", "dim": "int"}
    ghosts = {"k": "int"}
    result = "slice"

    def requires(idx, dim):
        return S.And(dim >= 0, S.step_ok(idx))

    def ensures(result, idx, dim, k):
        r = same_selection(result, dim, idx, dim, k)
        r["step-ok"] = S.step_ok(result)
        r["canonical"] = norm_bounds(result, dim)  # what _slice_1d / new_blockdim require
        return r

    def ghost_domain(idx, dim):
        return {"k": range(0, dim + 1)}

    def domain(tier, rng):
        for dim in range(0, 7 if tier == "quick" else 12):
            for s in small_slices(tier):
                yield {"idx": s, "dim": dim}


@contract(f"{UTILS}::posify_index", spec="int", props=["C12", "C13"])
class posify_index__int:
    params = {"shape": "int", "ind": "int"}
    result = "int"

    def requires(shape, ind):
        return shape >= 0

    def ensures(result, shape, ind):
        return {
            "value": result == S.If(ind < 0, ind + shape, ind),
            "in-range": S.Implies(S.And(-shape <= ind, ind < shape), S.And(0 <= result, result < shape)),
        }

    def domain(tier, rng):
        r = range(-12, 13)
        for shape in range(0, 9):
            for ind in r:
                yield {"shape": shape, "ind": ind}


@contract(f"{UTILS}::check_index", spec="int", props=["C12"])
class check_index__int:
    """out-of-bounds integers are refused (IndexError), never wrapped."""
    params = {"axis": "int", "ind": "int", "dimension": "int"}
    result = "none"

    def requires(axis, ind, dimension):
        return dimension >= 0

    raises = {"IndexError": lambda axis, ind, dimension: S.Or(ind >= dimension, ind < -dimension)}

    def ensures(result, axis, ind, dimension):
        return {"in-bounds": S.And(-dimension <= ind, ind < dimension)}

    def domain(tier, rng):
        for dimension in range(0, 7):
            for ind in range(-9, 10):
                yield {"axis": 0, "ind": ind, "dimension": dimension}


def nonneg_slice(s):
    a, b, c = S.parts(s)
    return S.And(
        S.Or(S.is_none(a), S.val(a) >= 0),
        S.Or(S.is_none(b), S.val(b) >= 0),
        S.Or(S.is_none(c), S.val(c, 1) > 0),
    )


@contract(f"{UTILS}::_normalize_slice_for_fusion", props=["C13", "C25"])
class normalize_slice_for_fusion:
    params = {"s": "slice"}
    ghosts = {"n": "int", "k": "int"}
    result = "slice"

    def requires(s):
        return S.step_ok(s)

    raises = {"NotImplementedError": lambda s: S.Not(nonneg_slice(s))}

    def ensures(result, s, n, k):
        a, b, c = S.parts(result)
        r = {
            "start-int": S.And(S.Not(S.is_none(a)), S.val(a) >= 0),
            "step-int": S.And(S.Not(S.is_none(c)), S.val(c, 1) > 0),
            "stop": S.Or(S.is_none(b), S.val(b) >= 0),
            "accepted": nonneg_slice(s),
        }
        sa, sb, sc = S.parts(s)
        # structural description (what callers reason with)
        r["start-val"] = S.val(a) == S.If(S.is_none(sa), 0, S.val(sa))
        r["stop-same"] = S.opt_eq(b, sb)
        r["step-val"] = S.val(c) == S.If(S.is_none(sc), 1, S.val(sc))
        sel = same_selection(result, n, s, n, k)
        r["count"] = S.Implies(n >= 0, sel["count"])
        r["positions"] = S.Implies(n >= 0, sel["positions"])
        return r

    def ghost_domain(s):
        return {"n": range(0, 8), "k": range(0, 8)}

    def call_patterns(result, s, n, k):
        return {}

    def domain(tier, rng):
        for s in small_slices(tier):
            yield {"s": s}


def small_slices(tier, vals=None, steps=None):
    vals = vals if vals is not None else [None, -9, -4, -2, -1, 0, 1, 2, 3, 5, 9]
    steps = steps if steps is not None else [None, -3, -2, -1, 1, 2, 3]
    for a in vals:
        for b in vals:
            for c in steps:
                yield slice(a, b, c)


def composed(result, a, b, n, k):
    """`result` on an axis of length n selects what `b` selects from what `a`
    selects from that axis, in order."""
    na = S.nsel(a, n)
    cnt = S.nsel(b, na)
    return {
        "count": S.Implies(n >= 0, S.nsel(result, n) == cnt),
        "positions": S.Implies(S.And(n >= 0, 0 <= k, k < cnt),
                               S.sel(result, n, k) == S.sel(a, n, S.sel(b, na, k))),
    }


@contract(f"{UTILS}::fuse_slice", spec="slice,slice", props=["C13", "C02", "C25"])
class fuse_slice__slice_slice:
    params = {"a": "slice", "b": "slice"}
    ghosts = {"n": "int", "k": "int"}
    result = "slice"

    def requires(a, b):
        return S.And(S.step_ok(a), S.step_ok(b))

    raises = {"NotImplementedError": lambda a, b: S.Or(S.Not(nonneg_slice(a)), S.Not(nonneg_slice(b)))}

    def ensures(result, a, b, n, k):
        r = composed(result, a, b, n, k)
        r["step-ok"] = S.step_ok(result)
        return r

    def ghost_domain(a, b):
        return {"n": range(0, 9), "k": range(0, 9)}

    def domain(tier, rng):
        vals = [None, -2, 0, 1, 2, 3, 5, 9]
        steps = [None, -1, 1, 2, 3]
        for a in small_slices(tier, vals, steps):
            for b in small_slices(tier, vals, steps):
                yield {"a": a, "b": b}


@contract(f"{UTILS}::fuse_slice", spec="slice,int", props=["C13", "C02", "C25"])
class fuse_slice__slice_int:
    params = {"a": "slice", "b": "int"}
    ghosts = {"n": "int"}
    result = "int"

    def requires(a, b):
        return S.step_ok(a)

    raises = {"NotImplementedError": lambda a, b: S.Or(S.Not(nonneg_slice(a)), b < 0)}

    def ensures(result, a, b, n):
        return {"position": S.Implies(S.And(n >= 0, 0 <= b, b < S.nsel(a, n)), result == S.sel(a, n, b))}

    def ghost_domain(a, b):
        return {"n": range(0, 9)}

    def domain(tier, rng):
        for a in small_slices(tier):
            for b in range(-2, 9):
                yield {"a": a, "b": b}


def _fuse_tuple(rank):
    tys = "tup:" + ",".join(["slice"] * rank)

    @contract(f"{UTILS}::fuse_slice", spec=f"tuple{rank}", props=["C13", "C25"])
    class fuse_slice__tuple:
        """tuples of slices (a region and a block index, as store composes them) are fused axis by axis: on every axis the
        result selects what b's slice selects from what a's slice selects, or the helper refuses (NotImplementedError)"""
        params = {"a": tys, "b": tys}
        ghosts = {"n": "int", "k": "int"}
        result = tys

        def _axes(t):
            from pyvc.spec import TupV
            return list(t.items) if isinstance(t, TupV) else list(t)

        def requires(a, b):
            return S.And(*[S.step_ok(x) for x in fuse_slice__tuple._axes(a) + fuse_slice__tuple._axes(b)])

        raises = {"NotImplementedError": lambda a, b: S.Or(*[S.Not(nonneg_slice(x)) for x in
                                                              fuse_slice__tuple._axes(a) + fuse_slice__tuple._axes(b)])}

        def ensures(result, a, b, n, k):
            out = {}
            for d, (r, x, y) in enumerate(zip(fuse_slice__tuple._axes(result), fuse_slice__tuple._axes(a), fuse_slice__tuple._axes(b))):
                for name, cl in composed(r, x, y, n, k).items():
                    out[f"axis{d}-{name}"] = cl
                out[f"axis{d}-step-ok"] = S.step_ok(r)
            return out

        def ghost_domain(a, b):
            return {"n": range(0, 8), "k": range(0, 8)}

        def domain(tier, rng):
            vals = [None, 0, 1, 3, 7]
            steps = [None, 1, 2]
            sl = list(small_slices(tier, vals, steps)) + [slice(-2, None), slice(None, None, -1)]
            if rank == 1:
                for x in sl:
                    for y in sl:
                        yield {"a": (x,), "b": (y,)}
            else:
                for _ in range(3000 if tier == "quick" else 40000):
                    yield {"a": tuple(rng.choice(sl) for _ in range(rank)), "b": tuple(rng.choice(sl) for _ in range(rank))}

    fuse_slice__tuple.__name__ = f"fuse_slice__tuple{rank}"
    return fuse_slice__tuple


FST1 = _fuse_tuple(1)
FST2 = _fuse_tuple(2)


@contract(f"{BASIC}::_compose_slices", props=["C13", "C24", "C02"])
class compose_slices:
    params = {"outer_slice": "slice", "inner_slice": "slice", "dim_size": "int"}
    ghosts = {"k": "int"}
    result = "slice"

    def requires(outer_slice, inner_slice, dim_size):
        return S.And(dim_size >= 0, S.step_ok(outer_slice), S.step_ok(inner_slice))

    def ensures(result, outer_slice, inner_slice, dim_size, k):
        r = composed(result, outer_slice, inner_slice, dim_size, k)
        r["step-ok"] = S.step_ok(result)

        def unit(s):
            c = S.parts(s)[2]
            return S.Or(S.is_none(c), S.val(c, 1) == 1)
        # what FromArray regions rely on: unit steps compose to a unit step
        r["unit-steps-compose"] = S.Implies(S.And(unit(outer_slice), unit(inner_slice)), unit(result))
        return r

    def ghost_domain(outer_slice, inner_slice, dim_size):
        return {"k": range(0, dim_size + 1)}

    def domain(tier, rng):
        if tier == "quick":
            vals, steps, dims = [None, -3, -1, 0, 2, 5], [None, -2, -1, 1, 3], (0, 1, 3, 5)
        else:
            vals, steps, dims = [None, -9, -2, -1, 0, 1, 2, 3, 5, 9], [None, -2, -1, 1, 2, 3], range(0, 7)
        for n in dims:
            for a in small_slices(tier, vals, steps):
                for b in small_slices(tier, vals, steps):
                    yield {"outer_slice": a, "inner_slice": b, "dim_size": n}


def chunkings(maxlen, zero=True, maxparts=None):
    """all tuples of positive ints (and, optionally, with one zero entry
    inserted) summing to each n <= maxlen."""
    out = []

    def comps(n):
        if n == 0:
            yield ()
            return
        for first in range(1, n + 1):
            for rest in comps(n - first):
                yield (first,) + rest

    for n in range(0, maxlen + 1):
        for c in comps(n):
            if maxparts and len(c) > maxparts:
                continue
            if c:
                out.append((n, c))
            if zero:
                for pos in range(len(c) + 1):
                    z = c[:pos] + (0,) + c[pos:]
                    if not maxparts or len(z) <= maxparts:
                        out.append((n, z))
    return out


@contract(f"{BASIC}::_compute_sliced_chunks", props=["C13", "C24", "C03", "C02"])
class compute_sliced_chunks:
    """chunk sizes advertised for a sliced source region: a chunking of exactly
    the selected length."""
    params = {"chunks": "seq", "slc": "slice", "dim_size": "int"}
    result = "seq"

    def requires(chunks, slc, dim_size):
        return S.And(dim_size >= 0, S.slen(chunks) >= 1, S.chunking(chunks, dim_size), S.step_ok(slc))

    def ensures(result, chunks, slc, dim_size):
        return {
            "sum": S.ssum(result) == S.nsel(slc, dim_size),
            "nonneg": S.forall_idx(result, lambda j: S.at(result, j) >= 0),
            "nonempty": S.slen(result) >= 1,
        }

    loops = {
        "for#1": Loop(
            invariant=lambda v, v0: {
                "pos": v.pos == S.prefix(v.chunks, v.it),
                "sum": S.ssum(v.result) == S.max_(0, S.min_(v.pos, v.stop) - v.start),
                "nonneg": S.forall_idx(v.result, lambda j: S.at(v.result, j) >= 0),
            },
        )
    }

    def domain(tier, rng):
        ch = chunkings(6 if tier == "quick" else 8)
        vals = [None, -9, -3, -1, 0, 1, 2, 4, 9]
        steps = [None, -2, -1, 1, 2]
        for n, c in ch:
            for s in small_slices(tier, vals, steps):
                yield {"chunks": c, "slc": s, "dim_size": n}


# ---------------------------------------------------------------------------
# _slice_1d: the per-block slice plan
# ---------------------------------------------------------------------------
@contract(f"{UTILS}::_slice_1d", spec="int", props=["C12", "C13", "C04"])
class slice_1d__int:
    """an integer index lands in exactly the block that contains it, at its
    offset inside that block."""
    params = {"dim_shape": "int", "lengths": "seq", "index": "int"}
    ghosts = {"j": "int"}
    result = "map:int"

    def requires(dim_shape, lengths, index):
        return S.And(S.slen(lengths) >= 1, S.chunking(lengths, dim_shape), 0 <= index, index < dim_shape)

    def facts(dim_shape, lengths, index):
        return [("mono_prefix", lengths), ("cum_sorted", lengths)]

    def ensures(result, dim_shape, lengths, index, j):
        inblock = S.And(0 <= j, j < S.slen(lengths),
                        S.lazy_implies(S.And(0 <= j, j < S.slen(lengths)),
                                       lambda: S.And(S.prefix(lengths, j) <= index, index < S.prefix(lengths, j + 1))))
        return {
            "key-is-containing-block": S.Implies(S.mhas(result, j), inblock),
            "offset": S.lazy_implies(S.mhas(result, j), lambda: S.val(S.mget(result, j)) == index - S.prefix(lengths, j)),
            "containing-block-is-key": S.Implies(inblock, S.mhas(result, j)),
        }

    def ghost_domain(dim_shape, lengths, index):
        return {"j": range(-1, len(lengths) + 1)}

    def domain(tier, rng):
        for n, c in chunkings(6 if tier == "quick" else 9):
            for index in range(0, n):
                yield {"dim_shape": n, "lengths": c, "index": index}


def norm_bounds(s, n):
    """bounds of a normalised slice (normalize_slice's 'canonical' clause and
    _slice_1d's precondition): no negative / out-of-range entries left."""
    a, b, c = S.parts(s)
    pos = S.And(
        S.Or(S.is_none(a), S.And(0 <= S.val(a), S.val(a) <= n)),
        S.Or(S.is_none(b), S.And(0 <= S.val(b), S.val(b) <= n)),
        S.Or(S.is_none(a), S.is_none(b), S.val(a) <= S.val(b)),
    )
    neg = S.And(
        S.Or(S.is_none(a), S.And(0 <= S.val(a), S.val(a) <= n - 1)),
        S.Or(S.is_none(b), S.And(0 <= S.val(b), S.val(b) <= n - 1)),
    )
    return S.And(S.step_ok(s), S.If(S.Or(S.is_none(c), S.val(c, 1) > 0), pos, neg))


def selected(index, n, p):
    """position p of an axis of length n is selected by `index`."""
    lo, hi, st = S.idx3(index, n)
    return S.If(st > 0,
                S.And(lo <= p, p < hi, S.mod(p - lo, st) == 0),
                S.And(hi < p, p <= lo, S.mod(lo - p, -st) == 0))


def piece_count(piece, n):
    """what new_blockdim relies on: a piece is the full slice, or its three fields are integers and the length
    formula ceil((stop - start) / step) is the number of positions it selects from a block of length n"""
    a, b, c = S.parts(piece)
    colon = S.And(S.is_none(a), S.is_none(b), S.is_none(c))
    ints = S.And(S.Not(S.is_none(a)), S.Not(S.is_none(b)), S.Not(S.is_none(c)), S.val(c, 1) != 0)
    return S.Or(colon, S.And(ints, S.lazy_implies(ints, lambda: S.ceildiv(S.val(b) - S.val(a), S.val(c, 1)) == S.nsel(piece, n))))


def same_direction(index, piece):
    c = S.parts(index)[2]
    pc = S.parts(piece)[2]
    return S.Iff(S.Or(S.is_none(c), S.val(c, 1) > 0), S.Or(S.is_none(pc), S.val(pc, 1) > 0))


@contract(f"{UTILS}::_slice_1d", spec="slice", props=["C12", "C13", "C03", "C04"])
class slice_1d__slice:
    """the per-block plan partitions exactly the selected positions: position
    q of block j is selected by the index iff block j is a key and its piece
    selects q; every key is a block; pieces run in the index's direction."""
    params = {"dim_shape": "int", "lengths": "seq", "index": "slice"}
    ghosts = {"j": "int", "q": "int"}
    result = "map:slice"
    locals = {"d": "map:slice"}

    def requires(dim_shape, lengths, index):
        return S.And(S.slen(lengths) >= 1, S.chunking(lengths, dim_shape), norm_bounds(index, dim_shape))

    def facts(dim_shape, lengths, index):
        return [("mono_prefix", lengths), ("cum_sorted", lengths)]

    def ensures(result, dim_shape, lengths, index, j, q):
        inr = S.And(0 <= j, j < S.slen(lengths))
        return {
            "keys-are-blocks": S.Implies(S.mhas(result, j), inr),
            "exact": S.lazy_implies(
                inr, lambda: S.lazy_implies(
                    S.And(0 <= q, q < S.at(lengths, j)),
                    lambda: S.Iff(selected(index, dim_shape, S.prefix(lengths, j) + q),
                                  S.And(S.mhas(result, j),
                                        S.lazy_implies(S.mhas(result, j),
                                                       lambda: selected(S.mget(result, j), S.at(lengths, j), q)))))),
            "piece-count": S.lazy_implies(S.And(inr, S.mhas(result, j)),
                                          lambda: piece_count(S.mget(result, j), S.at(lengths, j))),
            "direction": S.lazy_implies(
                S.And(inr, S.mhas(result, j)),
                lambda: S.And(S.step_ok(S.mget(result, j)),
                              S.lazy_implies(S.step_ok(S.mget(result, j)),
                                             lambda: S.Implies(S.nsel(S.mget(result, j), S.at(lengths, j)) >= 1,
                                                               same_direction(index, S.mget(result, j)))))),
        }

    def ghost_domain(dim_shape, lengths, index):
        return {"j": range(-1, len(lengths) + 1), "q": range(0, max(lengths) if lengths else 1)}

    def domain(tier, rng):
        ch = chunkings(6 if tier == "quick" else 9, maxparts=4 if tier == "quick" else None)
        for n, c in ch:
            vals = [None] + list(range(0, n + 1))
            for s in small_slices(tier, vals, [None, -3, -2, -1, 1, 2, 3]):
                yield {"dim_shape": n, "lengths": c, "index": s}


# ---- loop invariants of _slice_1d[slice] (symbolic only) ---------------------
def _exact(v, d):
    """the partition fact for the ghost block j / offset q against map d."""
    L, j, q = v.lengths, v.j, v.q
    return S.Implies(
        S.And(0 <= q, q < S.at(L, j)),
        S.Iff(selected(v.index, v.dim_shape, S.prefix(L, j) + q),
              S.And(S.mhas(d, j), selected(S.mget(d, j), S.at(L, j), q))))


def _piece_dir(v, d):
    j = v.j
    p = S.mget(d, j)
    return S.Implies(S.mhas(d, j), S.And(S.step_ok(p), S.Implies(S.nsel(p, S.at(v.lengths, j)) >= 1,
                                                                  same_direction(v.index, p))))


def _keys_between(d, lo, hi):
    import z3
    k = z3.Int("k!kb")
    return z3.ForAll([k], z3.Implies(z3.Select(d.has, k), z3.And(lo <= k, k < hi)), patterns=[z3.Select(d.has, k)])


def _inv_pos(v, v0):
    L = v.lengths
    i = v0.istart + v.it
    Pi, Pis = S.prefix(L, i), S.prefix(L, v0.istart)
    live = v.stop > 0
    return {
        "range": S.And(0 <= v0.istart, i <= S.slen(L)),
        "stop": v.stop + (Pi - Pis) == v0.stop,
        "start": S.Implies(live, v.start >= 0),
        "lattice": S.Implies(live, S.And(v.M >= 0, v.start + (Pi - Pis) == v0.start + v.M * v.step,
                                         S.Or(v.start < v.step, v.M == 0))),
        "exact": S.Implies(S.And(v0.istart <= v.j, v.j < i), _exact(v, v.d)),
        "dir": S.Implies(S.And(v0.istart <= v.j, v.j < i), _piece_dir(v, v.d)),
        "count": S.Implies(S.And(v0.istart <= v.j, v.j < i, S.mhas(v.d, v.j)), piece_count(S.mget(v.d, v.j), S.at(L, v.j))),
        "ordered-until-first-hit": S.Implies(S.And(live, v.M == 0), v.stop >= v.start),
        "keys": _keys_between(v.d, v0.istart, i),
    }


def _upd_pos(h, e):
    take = S.And(h.start < e.length, h.stop > 0)
    return {"M": S.If(take, h.M - S.div(h.start - e.length, h.step), h.M)}


def _count_hints(piece, n, c):
    """the length formula against the characterised count: cnt == k by product monotonicity on (cnt - k)"""
    a, b, _ = S.parts(piece)
    k = S.ceildiv(S.val(b) - S.val(a), c)
    cnt = S.nsel(piece, n)
    t = cnt - k
    return {
        "count-mono-up": S.Implies(S.And(t >= 1, c > 0), t * c >= c),
        "count-mono-down": S.Implies(S.And(t <= -1, c > 0), t * c <= -c),
        "count-mono-up-neg": S.Implies(S.And(t >= 1, c < 0), t * c <= c),
        "count-mono-down-neg": S.Implies(S.And(t <= -1, c < 0), t * c >= -c),
    }


def _hints_pos(h, e):
    y = h.q - h.start
    out = {
        "mod-shift": ("lemma", "mod_shift", y, h.M, h.step),
        "mod-small": ("lemma", "mod_small", y, h.step),
    }
    piece = S.mkslice(h.start, S.min_(h.stop, e.length), h.step)
    out.update(_count_hints(piece, e.length, h.step))
    return out


slice_1d__slice.merge = False
slice_1d__slice.loops = {
    "for#1": Loop(invariant=_inv_pos, ghosts={"M": "int"}, ghost_init=lambda v: {"M": 0}, ghost_update=_upd_pos,
                  hints=_hints_pos),
    "for#2": None,
    "for#3": None,
}


def _inv_neg(v, v0):
    L = v.lengths
    i = v0.istart - v.it
    lo, hi, st = S.idx3(v.index, v.dim_shape)
    Pnext = S.prefix(L, i + 1)
    return {
        "range": S.And(-1 <= i, i <= v0.istart, v0.istart <= S.slen(L) - 1, v0.istop >= -1),
        "lattice": S.And(v.M >= 0, v.rstart == lo + v.M * st),
        "largest": S.Or(v.M == 0, v.rstart - st >= Pnext),
        "below": S.Implies(v.rstart > hi, v.rstart < Pnext),
        "exact": S.Implies(S.And(i < v.j, v.j <= v0.istart), _exact(v, v.d)),
        "dir": S.Implies(S.And(i < v.j, v.j <= v0.istart), _piece_dir(v, v.d)),
        "count": S.Implies(S.And(i < v.j, v.j <= v0.istart, S.mhas(v.d, v.j)), piece_count(S.mget(v.d, v.j), S.at(L, v.j))),
        "keys": _keys_between(v.d, i + 1, v0.istart + 1),
    }


def _upd_neg(h, e):
    take = S.And(e.chunk_start <= h.rstart, h.rstart < e.chunk_stop, h.rstart > h.stop)
    return {"M": S.If(take, h.M - S.div(h.rstart - (e.chunk_start - 1), h.step), h.M)}


def _hints_neg(h, e):
    y = (h.rstart - S.prefix(h.lengths, h.i)) - h.q
    out = {
        "mod-shift": ("lemma", "mod_shift", y, h.M, -h.step),
        "mod-small": ("lemma", "mod_small", y, -h.step),
    }
    piece = S.mkslice(h.rstart - e.chunk_stop, S.max_(e.chunk_start - e.chunk_stop - 1, h.stop - e.chunk_stop), h.step)
    out.update(_count_hints(piece, e.chunk_stop - e.chunk_start, h.step))
    return out


def _inv_final(v, v0):
    import z3
    k = z3.Int("k!fin")
    L = v.lengths
    inr = S.And(0 <= v.j, v.j < S.slen(L))
    return {
        "same-keys": z3.ForAll([k], z3.Select(v.d.has, k) == z3.Select(v0.d.has, k), patterns=[z3.Select(v.d.has, k)]),
        "exact": S.Implies(inr, _exact(v, v.d)),
        "dir": S.Implies(inr, _piece_dir(v, v.d)),
        "count": S.Implies(S.And(inr, S.mhas(v.d, v.j)), piece_count(S.mget(v.d, v.j), S.at(L, v.j))),
    }


slice_1d__slice.loops["for#2"] = Loop(invariant=_inv_neg, ghosts={"M": "int"}, ghost_init=lambda v: {"M": 0},
                                      ghost_update=_upd_neg, hints=_hints_neg)
slice_1d__slice.loops["for#3"] = Loop(invariant=_inv_final)
slice_1d__slice._contract.loops = slice_1d__slice.loops


# ---- unknown (NaN) axis lengths: indices are left untouched, never "normalised" against a guess (C28) ----
@contract(f"{UTILS}::normalize_slice", spec="nan", props=["C28"])
class normalize_slice__nan:
    params = {"idx": "slice", "dim": "nan"}
    result = "slice"

    def requires(idx, dim):
        return True

    def ensures(result, idx, dim):
        return {"untouched": S.slice_eq(result, idx)}

    def domain(tier, rng):
        import math
        for s in small_slices(tier):
            yield {"idx": s, "dim": math.nan}


@contract(f"{UTILS}::posify_index", spec="nan", props=["C28"])
class posify_index__nan:
    params = {"shape": "nan", "ind": "int"}
    result = "int"

    def requires(shape, ind):
        return True

    def ensures(result, shape, ind):
        return {"untouched": result == ind}

    def domain(tier, rng):
        import math
        for i in range(-5, 6):
            yield {"shape": math.nan, "ind": i}


@contract(f"{UTILS}::check_index", spec="nan", props=["C28"])
class check_index__nan:
    """an unknown axis length cannot be bounds-checked: no exception, nothing assumed"""
    params = {"axis": "int", "ind": "int", "dimension": "nan"}
    result = "none"

    def requires(axis, ind, dimension):
        return True

    def ensures(result, axis, ind, dimension):
        return {"returns": True}

    def domain(tier, rng):
        import math
        for i in range(-5, 6):
            yield {"axis": 0, "ind": i, "dimension": math.nan}


# ---------------------------------------------------------------------------
# parse_assignment_indices: the slice branch of its loop body, as a verified *fragment*
# (the rest of the function - tuple walk, arrays, NotImplemented cases - is outside this unit)
# ---------------------------------------------------------------------------
@contract(f"{UTILS}::parse_assignment_indices", spec="slice-branch", props=["C11", "C12"])
class parse_assignment_slice_branch:
    """a normalised slice index of an assignment is recast as an increasing slice that selects the same set of
    positions; the implied extent is the number of selected positions; reversed axes are recorded"""
    fragment = {"first": "start, stop, step = index.indices(size)", "last": "if stop <= start:"}
    params = {"index": "slice", "size": "int", "i": "int", "implied_shape": "lseq", "implied_shape_positions": "lseq",
              "reverse": "lseq"}
    ghosts = {"p": "int"}

    def requires(index, size, i, implied_shape, implied_shape_positions, reverse):
        return S.And(size >= 0, norm_bounds(index, size), i >= 0)

    def ensures(result, index, size, i, implied_shape, implied_shape_positions, reverse, p):
        new = result.index
        lo, hi, st = S.idx3(new, size)
        n = S.nsel(index, size)
        return {
            "increasing": st > 0,
            "same-positions": S.Implies(S.And(0 <= p, p < size), S.Iff(selected(new, size, p), selected(index, size, p))),
            "implied-extent": S.And(S.slen(result.implied_shape) == S.slen(implied_shape) + 1,
                                    S.lazy_implies(S.slen(result.implied_shape) == S.slen(implied_shape) + 1,
                                                   lambda: S.at(result.implied_shape, S.slen(implied_shape)) == n)),
            "reverse-recorded": S.Iff(S.slen(result.reverse) == S.slen(reverse) + 1, S.And(S.Not(S.is_none(S.parts(index)[2])),
                                                                                       S.val(S.parts(index)[2], 1) < 0)),
        }

    def post_hints(result, index, size, i, implied_shape, implied_shape_positions, reverse, p):
        # proof script for the reversed case: with s = -step, div = (lo-hi-1)//s and y = lo - p,
        # the recast slice starts at lo - div*s; membership turns on y % s and on y <= div*s
        lo, hi, st = S.idx3(index, size)
        s_ = -st
        y = lo - p
        div = S.div(lo - hi - 1, s_)
        m = S.div(y, s_)
        return {
            "neg": ("lemma", "mod_neg_zero", y, s_),
            "shift": ("lemma", "mod_shift", -y, div, s_),
            "mono-m": S.Implies(S.And(st < 0, m >= div + 1), m * s_ >= (div + 1) * s_),
            "mono-m2": S.Implies(S.And(st < 0, m <= div), m * s_ <= div * s_),
        }

    def ghost_domain(index, size, i, implied_shape, implied_shape_positions, reverse):
        return {"p": range(0, size)}

    def domain(tier, rng):
        from dask_array.slicing._utils import normalize_slice
        seen = set()
        for size in range(0, 7 if tier == "quick" else 10):
            for s in small_slices(tier):
                ns = normalize_slice(s, size)
                key = (size, ns.start, ns.stop, ns.step)
                if key in seen:
                    continue
                seen.add(key)
                yield {"index": ns, "size": size, "i": 0, "implied_shape": [], "implied_shape_positions": [], "reverse": []}


# ---- chunk sizes of a contiguous range [start, start+length) of an axis: two near-identical loops ----
def _range_chunks_contract(target, key_props, tail_zero):
    @contract(target, props=key_props)
    class slice_chunks:
        """the chunks advertised for a contiguous range of an axis: positive sizes that add up to the range length
        (or the single chunk (0,) for an empty range)"""
        params = {"self": "obj:Any", "chunks": "seq", "start": "int", "length": "int"}
        result = "seq"
        fields = {"Any": {}}

        def requires(self, chunks, start, length):
            return S.And(S.chunking(chunks), 0 <= start, 0 <= length, start + length <= S.ssum(chunks))

        def facts(self, chunks, start, length):
            return [("prefix_nonneg", chunks)]

        def ensures(result, self, chunks, start, length):
            return {
                "sum": S.ssum(result) == length,
                "nonneg": S.forall_idx(result, lambda j: S.at(result, j) >= 0),
                "positive-unless-empty": S.Implies(length > 0, S.forall_idx(result, lambda j: S.at(result, j) >= 1)),
                "nonempty": S.slen(result) >= 1,
            }

        loops = {
            "for#1": Loop(invariant=lambda v, v0: {
                "pos": (v.cumsum if tail_zero else v.pos) == S.prefix(v.chunks, v.it),
                "sum": S.ssum(v.result) == S.max_(0, S.min_((v.cumsum if tail_zero else v.pos), v.start + v.length) - v.start),
                "positive": S.forall_idx(v.result, lambda j: S.at(v.result, j) >= 1),
            }),
        }

        def call(fn, self, chunks, start, length):
            return fn(None, chunks, start, length)

        def domain(tier, rng):
            for n, c in chunkings(6 if tier == "quick" else 8):
                for start in range(0, n + 1):
                    for length in range(0, n - start + 1):
                        yield {"self": None, "chunks": c, "start": start, "length": length}

    return slice_chunks


SSI_slice_chunks = _range_chunks_contract(f"{BASIC}::SliceSlicesIntegers._slice_chunks", ["C02", "C03"], True)
BT_slice_chunks = _range_chunks_contract("dask_array/_broadcast_to.py::BroadcastTo._slice_chunks", ["C02", "C03"], False)


def _slice_1d_call_patterns(result, dim_shape, lengths, index, j, q):
    import z3
    sel = z3.Select(result.has, j)
    return {"keys-are-blocks": [sel], "piece-count": [sel], "direction": [sel]}


def _slice_1d_int_call_patterns(result, dim_shape, lengths, index, j):
    import z3
    return {"key-is-containing-block": [z3.Select(result.has, j)]}


slice_1d__int.call_patterns = staticmethod(_slice_1d_int_call_patterns)
slice_1d__int._contract.call_patterns = _slice_1d_int_call_patterns
slice_1d__slice.call_patterns = staticmethod(_slice_1d_call_patterns)
slice_1d__slice._contract.call_patterns = _slice_1d_call_patterns


@contract(f"{UTILS}::new_blockdim", spec="slice-proof", props=["C12", "C13", "C03"])
class new_blockdim__proof:
    """the chunk sizes after slicing are, in output order, the numbers of positions the per-block pieces select:
    entry t is nsel(piece of the t-th key) - keys ascending for a positive step, descending for a negative one"""
    params = {"dim_shape": "int", "lengths": "seq", "index": "slice"}
    ghosts = {"t": "int"}
    result = "lseq"

    def requires(dim_shape, lengths, index):
        return S.And(S.slen(lengths) >= 1, S.chunking(lengths, dim_shape), norm_bounds(index, dim_shape))

    def ensures(result, dim_shape, lengths, index, t, env=None, calls=None):
        import z3
        if env is None or not calls:
            return {}
        if not hasattr(env, "pairs"):
            # the full-slice shortcut returns the input chunks unchanged
            return {"full-slice-keeps-chunks": S.seq_equal(result, lengths)}
        pairs = env.pairs          # SortedItemsV: increasing key sequence of the plan
        d = calls[-1][2]           # the plan returned by _slice_1d (a callee under contract)
        n = pairs.n
        c = S.parts(index)[2]
        neg = S.And(S.Not(S.is_none(c)), S.val(c, 1) < 0)
        kt = S.If(neg, S.f_at(pairs.keys, n - 1 - t), S.f_at(pairs.keys, t))
        piece = d.get(kt)
        return {
            "one-entry-per-key": S.slen(result) == n,
            "entry-is-piece-length": S.Implies(S.And(0 <= t, t < n), S.at(result, t) == S.nsel(piece, S.at(lengths, kt))),
        }


@contract(f"{BASIC}::_tight_stop", props=["C13", "C02"])
class tight_stop:
    """the stop of a normalised slice moved to just past its last selected position: the same positions in the same order,
    still canonical, never a later stop, and -- for a step above 1 on a non-empty selection -- exactly last + 1 (so that
    the slice does not reach into a block it selects nothing from)"""
    params = {"idx": "slice", "dim": "int"}
    ghosts = {"k": "int"}
    result = "slice"

    def requires(idx, dim):
        return S.And(dim >= 0, norm_bounds(idx, dim))

    def ensures(result, idx, dim, k):
        r = same_selection(result, dim, idx, dim, k)
        r["step-ok"] = S.step_ok(result)
        r["canonical"] = norm_bounds(result, dim)
        a, b, c = S.parts(idx)
        ra, rb, rc = S.parts(result)
        n = S.nsel(idx, dim)
        moved = S.And(S.Not(S.is_none(c)), S.val(c, 1) > 1, S.Not(S.is_none(a)), S.Not(S.is_none(b)), n > 0)
        r["stop-is-last-plus-one"] = S.Implies(moved, S.And(S.Not(S.is_none(rb)), S.val(rb) == S.sel(idx, dim, n - 1) + 1))
        r["stop-not-later"] = S.Implies(moved, S.val(rb) <= S.val(b))
        r["untouched-otherwise"] = S.Implies(S.Not(moved), S.And(S.opt_eq(ra, a), S.opt_eq(rb, b), S.opt_eq(rc, c)))
        return r

    def ghost_domain(idx, dim):
        return {"k": range(0, dim + 1)}

    def domain(tier, rng):
        from dask_array.slicing._utils import normalize_slice
        for dim in range(0, 8 if tier == "quick" else 13):
            for s in small_slices(tier):
                try:
                    yield {"idx": normalize_slice(s, dim), "dim": dim}
                except Exception:
                    pass
