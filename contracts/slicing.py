"""Contracts for dask_array/slicing/_utils.py and slicing/_basic.py helpers."""
from pyvc.contract import contract, Loop
from pyvc import spec as S

UTILS = "dask_array/slicing/_utils.py"
BASIC = "dask_array/slicing/_basic.py"


def same_selection(out, n_out, ref, n_ref, k):
    """`out` applied to an axis of length n_out selects, in order, exactly the
    positions `ref` selects on an axis of length n_ref (k: ghost position)."""
    return {
        "count": S.nsel(out, n_out) == S.nsel(ref, n_ref),
        "positions": S.Implies(S.And(0 <= k, k < S.nsel(ref, n_ref)),
                               S.sel(out, n_out, k) == S.sel(ref, n_ref, k)),
    }


@contract(f"{UTILS}::normalize_slice", spec="slice", props=["C12", "C13"])
class normalize_slice__slice:
    params = {"idx": "slice", "dim": "int"}
    ghosts = {"k": "int"}
    result = "slice"

    def requires(idx, dim):
        return S.And(dim >= 0, S.step_ok(idx))

    def ensures(result, idx, dim, k):
        r = same_selection(result, dim, idx, dim, k)
        r["step-ok"] = S.step_ok(result)
        return r

    def ghost_domain(idx, dim):
        return {"k": range(0, dim + 1)}


@contract(f"{UTILS}::posify_index", spec="int", props=["C12", "C13"])
class posify_index__int:
    params = {"shape": "int", "ind": "int"}
    result = "int"

    def requires(shape, ind):
        return shape >= 0

    def ensures(result, shape, ind):
        return {
            "value": result == S.If(ind < 0, ind + shape, ind),
            "in-range": S.Implies(S.And(-shape <= ind, ind < shape), S.And(0 <= result, result < shape)),
        }

    def domain(tier, rng):
        r = range(-12, 13)
        for shape in range(0, 9):
            for ind in r:
                yield {"shape": shape, "ind": ind}


@contract(f"{UTILS}::check_index", spec="int", props=["C12"])
class check_index__int:
    """out-of-bounds integers are refused (IndexError), never wrapped."""
    params = {"axis": "int", "ind": "int", "dimension": "int"}
    result = "none"

    def requires(axis, ind, dimension):
        return dimension >= 0

    raises = {"IndexError": lambda axis, ind, dimension: S.Or(ind >= dimension, ind < -dimension)}

    def ensures(result, axis, ind, dimension):
        return {"in-bounds": S.And(-dimension <= ind, ind < dimension)}

    def domain(tier, rng):
        for dimension in range(0, 7):
            for ind in range(-9, 10):
                yield {"axis": 0, "ind": ind, "dimension": dimension}


def nonneg_slice(s):
    a, b, c = S.parts(s)
    return S.And(
        S.Or(S.is_none(a), S.val(a) >= 0),
        S.Or(S.is_none(b), S.val(b) >= 0),
        S.Or(S.is_none(c), S.val(c, 1) > 0),
    )


@contract(f"{UTILS}::_normalize_slice_for_fusion", props=["C13"])
class normalize_slice_for_fusion:
    params = {"s": "slice"}
    ghosts = {"n": "int", "k": "int"}
    result = "slice"

    def requires(s):
        return S.step_ok(s)

    raises = {"NotImplementedError": lambda s: S.Not(nonneg_slice(s))}

    def ensures(result, s, n, k):
        a, b, c = S.parts(result)
        r = {
            "start-int": S.And(S.Not(S.is_none(a)), S.val(a) >= 0),
            "step-int": S.And(S.Not(S.is_none(c)), S.val(c, 1) > 0),
            "stop": S.Or(S.is_none(b), S.val(b) >= 0),
            "accepted": nonneg_slice(s),
        }
        sa, sb, sc = S.parts(s)
        # structural description (what callers reason with)
        r["start-val"] = S.val(a) == S.If(S.is_none(sa), 0, S.val(sa))
        r["stop-same"] = S.opt_eq(b, sb)
        r["step-val"] = S.val(c) == S.If(S.is_none(sc), 1, S.val(sc))
        sel = same_selection(result, n, s, n, k)
        r["count"] = S.Implies(n >= 0, sel["count"])
        r["positions"] = S.Implies(n >= 0, sel["positions"])
        return r

    def ghost_domain(s):
        return {"n": range(0, 8), "k": range(0, 8)}

    def call_patterns(result, s, n, k):
        return {}

    def domain(tier, rng):
        for s in small_slices(tier):
            yield {"s": s}


def small_slices(tier, vals=None, steps=None):
    vals = vals if vals is not None else [None, -9, -4, -2, -1, 0, 1, 2, 3, 5, 9]
    steps = steps if steps is not None else [None, -3, -2, -1, 1, 2, 3]
    for a in vals:
        for b in vals:
            for c in steps:
                yield slice(a, b, c)


def composed(result, a, b, n, k):
    """`result` on an axis of length n selects what `b` selects from what `a`
    selects from that axis, in order."""
    na = S.nsel(a, n)
    cnt = S.nsel(b, na)
    return {
        "count": S.Implies(n >= 0, S.nsel(result, n) == cnt),
        "positions": S.Implies(S.And(n >= 0, 0 <= k, k < cnt),
                               S.sel(result, n, k) == S.sel(a, n, S.sel(b, na, k))),
    }


@contract(f"{UTILS}::fuse_slice", spec="slice,slice", props=["C13", "C02"])
class fuse_slice__slice_slice:
    params = {"a": "slice", "b": "slice"}
    ghosts = {"n": "int", "k": "int"}
    result = "slice"

    def requires(a, b):
        return S.And(S.step_ok(a), S.step_ok(b))

    raises = {"NotImplementedError": lambda a, b: S.Or(S.Not(nonneg_slice(a)), S.Not(nonneg_slice(b)))}

    def ensures(result, a, b, n, k):
        r = composed(result, a, b, n, k)
        r["step-ok"] = S.step_ok(result)
        return r

    def ghost_domain(a, b):
        return {"n": range(0, 9), "k": range(0, 9)}

    def domain(tier, rng):
        vals = [None, -2, 0, 1, 2, 3, 5, 9]
        steps = [None, -1, 1, 2, 3]
        for a in small_slices(tier, vals, steps):
            for b in small_slices(tier, vals, steps):
                yield {"a": a, "b": b}


@contract(f"{UTILS}::fuse_slice", spec="slice,int", props=["C13", "C02"])
class fuse_slice__slice_int:
    params = {"a": "slice", "b": "int"}
    ghosts = {"n": "int"}
    result = "int"

    def requires(a, b):
        return S.step_ok(a)

    raises = {"NotImplementedError": lambda a, b: S.Or(S.Not(nonneg_slice(a)), b < 0)}

    def ensures(result, a, b, n):
        return {"position": S.Implies(S.And(n >= 0, 0 <= b, b < S.nsel(a, n)), result == S.sel(a, n, b))}

    def ghost_domain(a, b):
        return {"n": range(0, 9)}

    def domain(tier, rng):
        for a in small_slices(tier):
            for b in range(-2, 9):
                yield {"a": a, "b": b}


@contract(f"{BASIC}::_compose_slices", props=["C13", "C24", "C02"])
class compose_slices:
    params = {"outer_slice": "slice", "inner_slice": "slice", "dim_size": "int"}
    ghosts = {"k": "int"}
    result = "slice"

    def requires(outer_slice, inner_slice, dim_size):
        return S.And(dim_size >= 0, S.step_ok(outer_slice), S.step_ok(inner_slice))

    def ensures(result, outer_slice, inner_slice, dim_size, k):
        r = composed(result, outer_slice, inner_slice, dim_size, k)
        r["step-ok"] = S.step_ok(result)
        return r

    def ghost_domain(outer_slice, inner_slice, dim_size):
        return {"k": range(0, dim_size + 1)}

    def domain(tier, rng):
        vals = [None, -9, -2, -1, 0, 1, 2, 3, 5, 9]
        steps = [None, -2, -1, 1, 2, 3]
        for n in range(0, 7):
            for a in small_slices(tier, vals, steps):
                for b in small_slices(tier, vals, steps):
                    yield {"outer_slice": a, "inner_slice": b, "dim_size": n}


def chunkings(maxlen, zero=True, maxparts=None):
    """all tuples of positive ints (and, optionally, with one zero entry
    inserted) summing to each n <= maxlen."""
    out = []

    def comps(n):
        if n == 0:
            yield ()
            return
        for first in range(1, n + 1):
            for rest in comps(n - first):
                yield (first,) + rest

    for n in range(0, maxlen + 1):
        for c in comps(n):
            if maxparts and len(c) > maxparts:
                continue
            if c:
                out.append((n, c))
            if zero:
                for pos in range(len(c) + 1):
                    z = c[:pos] + (0,) + c[pos:]
                    if not maxparts or len(z) <= maxparts:
                        out.append((n, z))
    return out


@contract(f"{BASIC}::_compute_sliced_chunks", props=["C13", "C24", "C03", "C02"])
class compute_sliced_chunks:
    """chunk sizes advertised for a sliced source region: a chunking of exactly
    the selected length."""
    params = {"chunks": "seq", "slc": "slice", "dim_size": "int"}
    result = "seq"

    def requires(chunks, slc, dim_size):
        return S.And(dim_size >= 0, S.slen(chunks) >= 1, S.chunking(chunks, dim_size), S.step_ok(slc))

    def ensures(result, chunks, slc, dim_size):
        return {
            "sum": S.ssum(result) == S.nsel(slc, dim_size),
            "nonneg": S.forall_idx(result, lambda j: S.at(result, j) >= 0),
            "nonempty": S.slen(result) >= 1,
        }

    loops = {
        "for#1": Loop(
            invariant=lambda v, v0: {
                "pos": v.pos == S.prefix(v.chunks, v.it),
                "sum": S.ssum(v.result) == S.max_(0, S.min_(v.pos, v.stop) - v.start),
                "nonneg": S.forall_idx(v.result, lambda j: S.at(v.result, j) >= 0),
            },
        )
    }

    def domain(tier, rng):
        ch = chunkings(6 if tier == "quick" else 8)
        vals = [None, -9, -3, -1, 0, 1, 2, 4, 9]
        steps = [None, -2, -1, 1, 2]
        for n, c in ch:
            for s in small_slices(tier, vals, steps):
                yield {"chunks": c, "slc": s, "dim_size": n}
