"""Record-abstraction contracts for the slice-into-source rewrite (C24, C02):
FromArray._accept_slice and FromArray._effective_shape, at rank 1 and for
every combination of {slice, integer} index and {no region, existing region}."""
from pyvc.contract import contract, Loop
from pyvc import spec as S
from pyvc.spec import ObjV, Opt, TupV
from contracts.slicing import composed

z3 = S.z3
FA = "dask_array/io/_from_array.py"


def ext_fromarray(ex, st, args, kwargs, node):
    """FromArray(source, chunks, ..., _region=r): a record with those operands; its `chunks` are the normalised `_chunks`
    (normalize_chunks is the identity on an explicit tuple of tuples that sums to the shape: C16)"""
    o = ex.fresh_value("obj:FromArray", "new_io")
    o.fields["array"] = args[0]
    o.fields["chunks"] = args[1]
    o.fields["_region"] = kwargs.get("_region", E_NONE())
    # the keyword operands that decide HOW the source is read (a custom getitem, the lock, asarray / fancy, the meta) and
    # how the node is inlined: recorded as passed, so that a rewrite's contract can demand they are carried over
    o.fields["__passed__"] = {k: v for k, v in kwargs.items() if k in READ_OPERANDS}
    # the token handed to the constructor (None: the node falls back to the bare (type, exact name) token)
    o.fields["__determ__"] = kwargs.get("_determ_token")
    return o


def ext_derived_token(ex, st, args, kwargs, node):
    """self._derived_token(name): a token that chains the source node's own token (the real method is three lines; what the
    rewrites have to do is USE it, which the clause derived-node-carries-the-source-token checks)"""
    v = ex.fresh_value("obj:DerivedToken", "derived_token")
    v.fields["of"] = args[0]
    return v


def carries_source_token(new_io, old):
    """the rebuilt node was given a token made by the OLD node's _derived_token (and not left to the (type, name) default,
    which does not tell two sources of the same user-supplied name apart)"""
    d = new_io.fields.get("__determ__")
    return isinstance(d, ObjV) and d.cls == "DerivedToken" and d.fields.get("of") is old


READ_OPERANDS = ("lock", "getitem", "inline_array", "meta", "asarray", "fancy")


def carried_over(new_io, old):
    """every read-behaviour operand of the rebuilt node is the old node's (same symbolic value)"""
    import z3
    passed = new_io.fields.get("__passed__", {})
    out = {}
    for k in READ_OPERANDS:
        if k not in passed:
            out[f"operand-{k}-carried-over"] = False  # left to the constructor's default: the old node's value is lost
            continue
        a, b = passed[k], old.get(k)
        ta = a if z3.is_expr(a) else getattr(a, "t", None)
        tb = b if z3.is_expr(b) else getattr(b, "t", None)
        import os
        if os.environ.get("VERIF_DEBUG_CARRY"):
            print("CARRY", k, type(a).__name__, type(b).__name__, ta, tb)
        out[f"operand-{k}-carried-over"] = (ta is not None and tb is not None and ta.eq(tb)) or (a is b)
    return out


def E_NONE():
    return Opt(True, 0)


def ext_ssi(ex, st, args, kwargs, node):
    """SliceSlicesIntegers(array, index, allow): a record with those operands"""
    o = ex.fresh_value("obj:SliceSlicesIntegers", "extract")
    o.fields["array"] = args[0]
    o.fields["index"] = args[1]
    return o


def ext_tokenize(ex, st, args, kwargs, node):
    """tokenize(...): some string"""
    return ex.fresh_value("str", "token")


def ext_source_getitem(ex, st, args, kwargs, node):
    """source[region] of an in-memory NumPy source (basic slices only, rank 1): an array whose shape is what the region
    selects from the source; the ghost field `__origin__` remembers the region (and `__origin_of__` the source's shape)
    so that the postcondition can say WHICH elements were copied"""
    base, key = args
    if not (isinstance(key, TupV) and len(key.items) == 1 and isinstance(key.items[0], S.SliceV)):
        from pyvc.engine import Unsupported
        raise Unsupported(f"source[...] with a non-slice index at line {node.lineno}")
    r = key.items[0]
    n = S.item(base.get("shape"), 0)
    ex.oblige(st, "safe", "slice-step-nonzero", S.step_ok(r), node.lineno, note="a zero-step slice raises ValueError")
    o = ex.fresh_value("obj:Source", "sliced_source")
    o.fields["shape"] = TupV([S.Opt(False, S.nsel(r, n))])
    o.fields["dtype"] = base.get("dtype")
    o.fields["__origin__"] = r
    return o


def ext_source_copy(ex, st, args, kwargs, node):
    """ndarray.copy(): the same elements in fresh memory"""
    return args[0]


def unit_step(s):
    c = S.parts(s)[2]
    return S.Or(S.is_none(c), S.val(c, 1) == 1)


def region_inv(self_, rank=1):
    """class invariant of a FromArray with a region: unit steps, the effective shape is what the region selects, and the
    chunks are a chunking of the effective shape (established by _accept_slice's own postcondition and by _effective_shape)"""
    reg = self_.get("_region")
    shape = self_.get("array").get("shape")
    eff = self_.get("_effective_shape")
    chunks = self_.get("chunks")
    out = []
    for d in range(rank):
        n = S.item(shape, d)
        out.append(n >= 0)
        out.append(S.slen(S.item(chunks, d)) >= 1)
        out.append(S.chunking(S.item(chunks, d), S.item(eff, d)))
        if isinstance(reg, TupV):
            r = reg.items[d]
            out.append(S.step_ok(r))
            out.append(unit_step(r))
            out.append(S.item(eff, d) == S.nsel(r, n))
        else:
            out.append(S.item(eff, d) == n)
    return S.And(out)


def make(spec, index_ty, region_ty):
    @contract(f"{FA}::FromArray._accept_slice", spec=spec, props=["C24", "C02"])
    class accept_slice:
        __doc__ = ("slice pushed into a source read: the new region has unit steps (what _layer's offset reads require), selects "
                   "exactly the composition of the old region and the index, and the new chunks add up to the selected length; "
                   "or the rewrite declines")
        params = {"self": "obj:FromArray", "slice_expr": "obj:SliceExpr"}
        ghosts = {"k": "int"}
        result = "obj:FromArray"
        fields = {
            "FromArray": {"array": "obj:Source", "chunks": "tup:seq", "_region": region_ty, "_effective_shape": "tup:int",
                          "_name": "str", "inline_array": "bool", "lock": "abs:Any", "getitem": "abs:Any", "meta": "abs:Any",
                          "asarray": "abs:Any", "fancy": "abs:Any", "_name_is_exact": "bool"},
            "Source": {"ndim": "const", "shape": "tup:int", "dtype": "obj:DType"},
            "DType": {"itemsize": "int"},
            "SliceExpr": {"index": index_ty},
            "SliceSlicesIntegers": {},
            "DerivedToken": {},
        }
        consts = {"self.array.ndim": 1}
        externals = {"FromArray": ext_fromarray, "SliceSlicesIntegers": ext_ssi, "tokenize": ext_tokenize,
                     "Source.__getitem__": ext_source_getitem, "Source.copy": ext_source_copy,
                     "FromArray._derived_token": ext_derived_token}
        havoc = {
            "type(source) in (np.ndarray, np.ma.core.MaskedArray)": "bool",
            "int(np.prod(region_shape, dtype=object)) * source.dtype.itemsize": "int",
            "'-'.join((f'i{idx}' if isinstance(idx, Integral) else 's' for idx in extract_index))": "str",
            "f'{extract_token}-{tokenize(new_io.deterministic_token)}'": "str",
        }

        def requires(self, slice_expr):
            idx = slice_expr.get("index")
            pre = [region_inv(self)]
            n = S.item(self.get("_effective_shape"), 0)
            it = idx.items[0]
            if isinstance(it, S.SliceV):
                pre.append(S.step_ok(it))
            else:
                # integer indices reach here normalised (posified and bounds-checked by normalize_index: C12)
                pre.append(S.And(0 <= S.val(it), S.val(it) < n))
            return S.And(pre)

        def ensures(result, self, slice_expr, k):
            if isinstance(result, Opt):
                return {"declined": True}
            io = result if result.cls == "FromArray" else result.get("array")
            new_region = io.fields["_region"]
            old_region = self.get("_region")
            n = S.item(self.get("array").get("shape"), 0)
            idx = slice_expr.get("index").items[0]
            if not isinstance(idx, S.SliceV):
                idx = S.SliceV(idx, Opt(False, S.val(idx) + 1), Opt(True, 0))
            out = {}
            eff = S.item(self.get("_effective_shape"), 0)
            ch = S.item(io.fields["chunks"], 0)
            out.update(carried_over(io, self))
            out["derived-node-carries-the-source-token"] = carries_source_token(io, self)
            out["chunks-add-up-to-selection"] = S.ssum(ch) == S.nsel(idx, eff)
            out["chunks-nonneg"] = S.chunking(ch)
            out["chunks-nonempty"] = S.slen(ch) >= 1
            if isinstance(new_region, TupV):
                r = new_region.items[0]
                out["region-unit-step"] = S.And(S.step_ok(r), unit_step(r))
                old = old_region.items[0] if isinstance(old_region, TupV) else S.SliceV(Opt(True, 0), Opt(True, 0), Opt(True, 0))
                comp = composed(r, old, idx, n, k)
                out["region-count"] = comp["count"]
                out["region-positions"] = comp["positions"]
            else:
                # region dropped: only on the NumPy paths.  Either the source itself was replaced by a copy of the selected
                # data (the ghost origin of the new source is then the region that was copied), or the same source is
                # kept and the selection is the whole of it; in both cases the elements read are exactly the composition
                # of the old region and the index, and the new node's chunks tile the new source
                new_src = io.fields["array"]
                old = old_region.items[0] if isinstance(old_region, TupV) else S.SliceV(Opt(True, 0), Opt(True, 0), Opt(True, 0))
                r = new_src.fields.get("__origin__", S.SliceV(Opt(True, 0), Opt(True, 0), Opt(True, 0)))
                comp = composed(r, old, idx, n, k)
                out["copied-count"] = comp["count"]
                out["copied-positions"] = comp["positions"]
                out["copied-unit-step"] = S.And(S.step_ok(r), unit_step(r))
                out["chunks-tile-the-new-source"] = S.ssum(ch) == S.item(new_src.get("shape"), 0)
            return out

    accept_slice.__name__ = f"accept_slice__{spec}"
    return accept_slice


@contract(f"{FA}::FromArray._with_chunks", props=["C24", "C14"])
class with_chunks:
    """a rechunk absorbed into a source read rebuilds the read with the new chunks and NOTHING else changed: the same source,
    the same deferred region, and every operand that decides how the source is read (getitem, lock, asarray, fancy, meta,
    inline_array) carried over -- a custom getitem that decodes or bounds-checks keeps being used"""
    params = {"self": "obj:FromArray", "chunks": "tup:seq"}
    result = "obj:FromArray"
    fields = {"FromArray": {"array": "obj:Source", "chunks": "tup:seq", "_region": "tup:slice", "_name": "str", "inline_array": "bool",
                            "lock": "abs:Any", "getitem": "abs:Any", "meta": "abs:Any", "asarray": "abs:Any", "fancy": "abs:Any"},
              "Source": {"shape": "tup:int"}, "DerivedToken": {}}
    externals = {"FromArray": ext_fromarray, "tokenize": ext_tokenize, "FromArray._derived_token": ext_derived_token}

    def requires(self, chunks):
        return True

    def ensures(result, self, chunks):
        out = {"same-source": result.fields["array"] is self.get("array"),
               "requested-chunks": S.seq_equal(S.item(result.fields["chunks"], 0), S.item(chunks, 0)),
               "same-region": result.fields["_region"] is self.get("_region") or S.slice_eq(
                   result.fields["_region"].items[0], self.get("_region").items[0])}
        out.update(carried_over(result, self))
        out["derived-node-carries-the-source-token"] = carries_source_token(result, self)
        return out


A1 = make("r1-slice", "tup:slice", "none")
A2 = make("r1-slice-region", "tup:slice", "tup:slice")
A3 = make("r1-int", "tup:int", "none")
A4 = make("r1-int-region", "tup:int", "tup:slice")


# ---------------------------------------------------------------------------
# The reads themselves: slices_from_chunks tiles the (effective) axis, and _layer offsets every block's slice by the
# start of the deferred region.  Together with the region invariant kept by _accept_slice above this gives, for all
# inputs at rank 1: every request is an in-bounds unit-step basic slice selecting exactly the block's elements.
# ---------------------------------------------------------------------------
CU = "dask_array/_core_utils.py"


@contract(f"{CU}::slices_from_chunks", spec="rank1", props=["C24", "C03"])
class slices_from_chunks_r1:
    """one 1-tuple per block, in block order; block k's slice is [c_0+..+c_{k-1}, c_0+..+c_k) with step None"""
    params = {"chunks": "tup:seq"}
    ghosts = {"k": "int"}
    result = "tupseq:slice"

    def call_patterns(result, chunks, k):
        # the quantified postcondition is instantiated wherever the caller reads the k-th slice's start
        return {"tiles": [z3.Select(result.comps[0].a["v0"], k)]}

    def requires(chunks):
        return S.chunking(S.item(chunks, 0))

    def ensures(result, chunks, k):
        c = S.item(chunks, 0)
        return {
            "count": S.slen(result) == S.slen(c),
            "tiles": S.lazy_implies(S.And(0 <= k, k < S.slen(c), S.slen(result) == S.slen(c)), lambda: S.slice_eq(
                S.item(S.elem(result, k), 0), S.mkslice(S.prefix(c, k), S.prefix(c, k) + S.at(c, k), None))),
        }

    def ghost_domain(chunks):
        return {"k": range(0, len(chunks[0]))}

    def domain(tier, rng):
        from contracts.slicing import chunkings
        for n, c in chunkings(7 if tier == "quick" else 10):
            yield {"chunks": (c,)}


@contract(f"{FA}::FromArray._layer", spec="region-offsets-r1", props=["C24"])
class layer_region_offsets:
    """the read slices of a FromArray with a deferred unit-step region: block k reads
    [region.start + c_0+..+c_{k-1}, region.start + c_0+..+c_k), a basic in-bounds slice of the source"""
    fragment = {"first": "slices = slices_from_chunks(self.chunks)", "last": "if region is not None:"}
    params = {"self": "obj:FromArray", "region": "tup:slice"}
    ghosts = {"k": "int"}
    fields = {"FromArray": {"array": "obj:Source", "chunks": "tup:seq"}, "Source": {"shape": "tup:int"}}

    def requires(self, region):
        c = S.item(self.get("chunks"), 0)
        n = S.item(self.get("array").get("shape"), 0)
        r = S.item(region, 0)
        # the class invariant established by _accept_slice (unit-step region; chunks add up to what it selects)
        return S.And(n >= 0, S.chunking(c), S.step_ok(r), unit_step(r), S.ssum(c) == S.nsel(r, n))

    def facts(self, region):
        c = S.item(self.get("chunks"), 0)
        return [("prefix_nonneg", c), ("mono_prefix", c)]

    def ensures(result, self, region, k):
        c = S.item(self.get("chunks"), 0)
        n = S.item(self.get("array").get("shape"), 0)
        rs = S.idx3(S.item(region, 0), n)[0]
        inr = S.And(0 <= k, k < S.slen(c), S.slen(result.slices) == S.slen(c))

        def sl():
            return S.parts(S.item(S.elem(result.slices, k), 0))

        return {
            "count": S.slen(result.slices) == S.slen(c),
            "offset": S.lazy_implies(inr, lambda: S.And(
                S.Not(S.is_none(sl()[0])), S.Not(S.is_none(sl()[1])), S.is_none(sl()[2]),
                S.val(sl()[0], 0) == rs + S.prefix(c, k), S.val(sl()[1], 0) == rs + S.prefix(c, k) + S.at(c, k))),
            "in-bounds": S.lazy_implies(inr, lambda: S.And(0 <= S.val(sl()[0], 0), S.val(sl()[0], 0) <= S.val(sl()[1], 0),
                                                          S.val(sl()[1], 0) <= n)),
        }

    def ghost_domain(self, region):
        return {"k": range(0, len(self.chunks[0]))}

    def domain(tier, rng):
        from pyvc.concrete import Rec
        from contracts.slicing import chunkings
        top = 6 if tier == "quick" else 8
        for n in range(0, top + 1):
            for a in [None] + list(range(-n - 1, n + 2)):
                for b in [None] + list(range(-n - 1, n + 2)):
                    for st in (None, 1):
                        r = slice(a, b, st)
                        m = len(range(*r.indices(n)))
                        for tot, c in chunkings(m):
                            if tot == m and len(c) <= 4:
                                yield {"self": Rec(chunks=(c,), array=Rec(shape=(n,))), "region": (r,)}


@contract(f"{FA}::FromArray._layer", spec="no-region-r1", props=["C24"])
class layer_no_region:
    """without a deferred region the read slices are the tiling of the source axis itself"""
    fragment = {"first": "slices = slices_from_chunks(self.chunks)", "last": "if region is not None:"}
    params = {"self": "obj:FromArray", "region": "none"}
    ghosts = {"k": "int"}
    fields = {"FromArray": {"array": "obj:Source", "chunks": "tup:seq"}, "Source": {"shape": "tup:int"}}

    def requires(self, region):
        c = S.item(self.get("chunks"), 0)
        n = S.item(self.get("array").get("shape"), 0)
        return S.And(n >= 0, S.chunking(c), S.ssum(c) == n)

    def facts(self, region):
        c = S.item(self.get("chunks"), 0)
        return [("prefix_nonneg", c), ("mono_prefix", c)]

    def ensures(result, self, region, k):
        c = S.item(self.get("chunks"), 0)
        n = S.item(self.get("array").get("shape"), 0)
        inr = S.And(0 <= k, k < S.slen(c), S.slen(result.slices) == S.slen(c))

        def sl():
            return S.parts(S.item(S.elem(result.slices, k), 0))

        return {
            "count": S.slen(result.slices) == S.slen(c),
            "tiles": S.lazy_implies(inr, lambda: S.And(
                S.Not(S.is_none(sl()[0])), S.Not(S.is_none(sl()[1])), S.is_none(sl()[2]),
                S.val(sl()[0], 0) == S.prefix(c, k), S.val(sl()[1], 0) == S.prefix(c, k) + S.at(c, k))),
            "in-bounds": S.lazy_implies(inr, lambda: S.And(0 <= S.val(sl()[0], 0), S.val(sl()[0], 0) <= S.val(sl()[1], 0),
                                                          S.val(sl()[1], 0) <= n)),
        }

    def ghost_domain(self, region):
        return {"k": range(0, len(self.chunks[0]))}

    def domain(tier, rng):
        from pyvc.concrete import Rec
        from contracts.slicing import chunkings
        for tot, c in chunkings(7 if tier == "quick" else 9):
            yield {"self": Rec(chunks=(c,), array=Rec(shape=(tot,))), "region": None}


def _effective_shape_contract(spec, region_ty):
    @contract(f"{FA}::FromArray._effective_shape", spec=spec, props=["C24", "C03"])
    class effective_shape:
        """the advertised shape of a source read: the source's shape, or the number of positions the deferred region
        selects on each axis (the `eff == nsel(region, n)` part of the region invariant used by _accept_slice and _layer)"""
        params = {"self": "obj:FromArray"}
        result = "tup:int"
        fields = {"FromArray": {"array": "obj:Source", "_region": region_ty}, "Source": {"shape": "tup:int"}}

        def requires(self):
            n = S.item(self.get("array").get("shape"), 0)
            reg = self.get("_region")
            pre = [n >= 0]
            if isinstance(reg, TupV):
                pre.append(S.step_ok(reg.items[0]))
            return S.And(pre)

        def ensures(result, self):
            n = S.item(self.get("array").get("shape"), 0)
            reg = self.get("_region")
            if isinstance(reg, TupV):
                return {"selected-length": S.item(result, 0) == S.nsel(reg.items[0], n)}
            return {"source-shape": S.item(result, 0) == n}

    effective_shape.__name__ = f"effective_shape__{spec}"
    return effective_shape


ES1 = _effective_shape_contract("r1-region", "tup:slice")
ES2 = _effective_shape_contract("r1-none", "none")
