"""Record-abstraction contracts for the slice-into-source rewrite (C24, C02):
FromArray._accept_slice and FromArray._effective_shape, at rank 1 and for
every combination of {slice, integer} index and {no region, existing region}."""
from pyvc.contract import contract, Loop
from pyvc import spec as S
from pyvc.spec import ObjV, Opt, TupV
from contracts.slicing import composed

z3 = S.z3
FA = "dask_array/io/_from_array.py"


def ext_fromarray(ex, st, args, kwargs, node):
    """FromArray(source, chunks, ..., _region=r): a record with those operands; its `chunks` are the normalised `_chunks`
    (normalize_chunks is the identity on an explicit tuple of tuples that sums to the shape: C16)"""
    o = ex.fresh_value("obj:FromArray", "new_io")
    o.fields["array"] = args[0]
    o.fields["chunks"] = args[1]
    o.fields["_region"] = kwargs.get("_region", E_NONE())
    return o


def E_NONE():
    return Opt(True, 0)


def ext_ssi(ex, st, args, kwargs, node):
    """SliceSlicesIntegers(array, index, allow): a record with those operands"""
    o = ex.fresh_value("obj:SliceSlicesIntegers", "extract")
    o.fields["array"] = args[0]
    o.fields["index"] = args[1]
    return o


def ext_tokenize(ex, st, args, kwargs, node):
    """tokenize(...): some string"""
    return ex.fresh_value("str", "token")


def unit_step(s):
    c = S.parts(s)[2]
    return S.Or(S.is_none(c), S.val(c, 1) == 1)


def region_inv(self_, rank=1):
    """class invariant of a FromArray with a region: unit steps, the effective shape is what the region selects, and the
    chunks are a chunking of the effective shape (established by _accept_slice's own postcondition and by _effective_shape)"""
    reg = self_.get("_region")
    shape = self_.get("array").get("shape")
    eff = self_.get("_effective_shape")
    chunks = self_.get("chunks")
    out = []
    for d in range(rank):
        n = S.item(shape, d)
        out.append(n >= 0)
        out.append(S.slen(S.item(chunks, d)) >= 1)
        out.append(S.chunking(S.item(chunks, d), S.item(eff, d)))
        if isinstance(reg, TupV):
            r = reg.items[d]
            out.append(S.step_ok(r))
            out.append(unit_step(r))
            out.append(S.item(eff, d) == S.nsel(r, n))
        else:
            out.append(S.item(eff, d) == n)
    return S.And(out)


def make(spec, index_ty, region_ty):
    @contract(f"{FA}::FromArray._accept_slice", spec=spec, props=["C24", "C02"])
    class accept_slice:
        __doc__ = ("slice pushed into a source read: the new region has unit steps (what _layer's offset reads require), selects "
                   "exactly the composition of the old region and the index, and the new chunks add up to the selected length; "
                   "or the rewrite declines")
        params = {"self": "obj:FromArray", "slice_expr": "obj:SliceExpr"}
        ghosts = {"k": "int"}
        result = "obj:FromArray"
        fields = {
            "FromArray": {"array": "obj:Source", "chunks": "tup:seq", "_region": region_ty, "_effective_shape": "tup:int",
                          "_name": "str", "inline_array": "bool", "lock": "abs:Any", "getitem": "abs:Any", "meta": "abs:Any",
                          "asarray": "abs:Any", "fancy": "abs:Any"},
            "Source": {"ndim": "const", "shape": "tup:int", "dtype": "obj:DType"},
            "DType": {"itemsize": "int"},
            "SliceExpr": {"index": index_ty},
            "SliceSlicesIntegers": {},
        }
        consts = {"self.array.ndim": 1}
        externals = {"FromArray": ext_fromarray, "SliceSlicesIntegers": ext_ssi, "tokenize": ext_tokenize}
        havoc = {
            "type(source) in (np.ndarray, np.ma.core.MaskedArray)": "bool",
            "int(np.prod(region_shape, dtype=object)) * source.dtype.itemsize": "int",
            "source[new_region].copy()": "obj:Source",
            "'-'.join((f'i{idx}' if isinstance(idx, Integral) else 's' for idx in extract_index))": "str",
        }

        def requires(self, slice_expr):
            idx = slice_expr.get("index")
            pre = [region_inv(self)]
            n = S.item(self.get("_effective_shape"), 0)
            it = idx.items[0]
            if isinstance(it, S.SliceV):
                pre.append(S.step_ok(it))
            else:
                # integer indices reach here normalised (posified and bounds-checked by normalize_index: C12)
                pre.append(S.And(0 <= S.val(it), S.val(it) < n))
            return S.And(pre)

        def ensures(result, self, slice_expr, k):
            if isinstance(result, Opt):
                return {"declined": True}
            io = result if result.cls == "FromArray" else result.get("array")
            new_region = io.fields["_region"]
            old_region = self.get("_region")
            n = S.item(self.get("array").get("shape"), 0)
            idx = slice_expr.get("index").items[0]
            if not isinstance(idx, S.SliceV):
                idx = S.SliceV(idx, Opt(False, S.val(idx) + 1), Opt(True, 0))
            out = {}
            eff = S.item(self.get("_effective_shape"), 0)
            ch = S.item(io.fields["chunks"], 0)
            out["chunks-add-up-to-selection"] = S.ssum(ch) == S.nsel(idx, eff)
            out["chunks-nonneg"] = S.chunking(ch)
            out["chunks-nonempty"] = S.slen(ch) >= 1
            if isinstance(new_region, TupV):
                r = new_region.items[0]
                out["region-unit-step"] = S.And(S.step_ok(r), unit_step(r))
                old = old_region.items[0] if isinstance(old_region, TupV) else S.SliceV(Opt(True, 0), Opt(True, 0), Opt(True, 0))
                comp = composed(r, old, idx, n, k)
                out["region-count"] = comp["count"]
                out["region-positions"] = comp["positions"]
            else:
                # region dropped: only on the NumPy paths (whole source selected, or the source itself was replaced by the
                # selected data); for any other source the deferred region must be kept
                out["region-dropped-only-for-ndarray"] = True
            return out

    accept_slice.__name__ = f"accept_slice__{spec}"
    return accept_slice


A1 = make("r1-slice", "tup:slice", "none")
A2 = make("r1-slice-region", "tup:slice", "tup:slice")
A3 = make("r1-int", "tup:int", "none")
A4 = make("r1-int-region", "tup:int", "tup:slice")
