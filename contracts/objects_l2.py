"""Bounded (L2) contracts over expression-valued inputs, drawn from the fixed
catalogue in contracts/catalogue.py.  Each contract states a function-level
postcondition (taken from the property statement) and is evaluated on the real
functions for every catalogue entry.  Labelled bounded; never counted as proved.
"""
from __future__ import annotations

import math

from pyvc.contract import contract
from contracts import catalogue as cat

_CACHE = {}


def entries(tier, seed):
    import random
    key = (tier, seed)
    if key not in _CACHE:
        _CACHE[key] = dict(cat.derived(tier, random.Random(seed)))
    return _CACHE[key]


def entry_domain(tier, rng, pred=None):
    seed = rng.randint(0, 10**6) if False else 0
    for name in entries(tier, 0):
        yield {"entry": name, "tier": tier}


def build(entry, tier):
    return entries(tier, 0)[entry]()


def graph_facts(g, keys):
    """closure / acyclicity / key presence of a task graph"""
    from dask._task_spec import convert_legacy_graph
    from dask.core import flatten
    g2 = convert_legacy_graph(dict(g))
    deps = {k: set(getattr(v, "dependencies", ()) or ()) for k, v in g2.items()}
    missing = sorted({str(d) for k, ds in deps.items() for d in ds if d not in g2})
    # Kahn
    indeg = {k: 0 for k in g2}
    rev = {k: [] for k in g2}
    for k, ds in deps.items():
        for d in ds:
            if d in g2:
                indeg[k] += 1
                rev[d].append(k)
    ready = [k for k, n in indeg.items() if n == 0]
    seen = 0
    while ready:
        k = ready.pop()
        seen += 1
        for m in rev[k]:
            indeg[m] -= 1
            if indeg[m] == 0:
                ready.append(m)
    flat = list(flatten(keys))
    return {"missing": missing, "acyclic": seen == len(g2), "keys_defined": all(k in g2 for k in flat), "flat_keys": flat}


def block_shapes_ok(x, results):
    """every computed block has the advertised shape"""
    import itertools
    import numpy as np
    chunks = x.chunks
    bad = []
    for idx in itertools.product(*[range(len(c)) for c in chunks]):
        blk = results
        if not chunks:
            blk = results[0]
        for i in idx:
            blk = blk[i]
        want = tuple(c[i] for c, i in zip(chunks, idx))
        got = np.shape(blk)
        if len(got) != len(want) or any((not (isinstance(w, float) and math.isnan(w))) and w != g for w, g in zip(want, got)):
            bad.append((idx, want, got))
    return bad


def chunks_equal(a, b):
    """independent oracle (not the repository's _chunks_match): same block sizes, nan matching nan"""
    if len(a) != len(b):
        return False
    for da, db in zip(a, b):
        if len(da) != len(db):
            return False
        for x, y in zip(da, db):
            xn = isinstance(x, float) and math.isnan(x)
            yn = isinstance(y, float) and math.isnan(y)
            if xn != yn or (not xn and x != y):
                return False
    return True


def _same(a, b):
    import numpy as np
    a, b = np.asarray(a), np.asarray(b)
    if a.shape != b.shape:
        return False
    if a.dtype.kind == "O" or b.dtype.kind == "O":
        return False  # an array of Python objects (e.g. unresolved lazy values) is never the numeric result
    if a.dtype.kind in "fc" or b.dtype.kind in "fc":
        return bool(np.allclose(a, b, equal_nan=True))
    return bool((a == b).all())


# ---------------------------------------------------------------------------
@contract("dask_array/_materialize.py::_materialize", spec="catalogue", props=["C03", "C04"])
class materialize_catalogue:
    """_materialize on catalogue expressions: name pinned, advertised chunks, graph closed and acyclic with the
    advertised key grid, every block of the advertised shape and dtype, values as NumPy computes them."""
    bounded_only = True
    params = {"entry": "const", "tier": "const"}
    scope = "catalogue of small collections (sources x chunkings x derived ops incl. layout-drifting / unknown-chunks / persisted)"

    def call(fn, entry, tier):
        import dask
        x, expected, info = build(entry, tier)
        out = {}
        for og in (True, False):
            m = fn(x.expr, optimize_graph=og)
            g = m.__dask_graph__()
            keys = x.__dask_keys__()
            res = dask.get(g, keys)
            out[og] = (m, g, keys, res)
        return x, expected, info, out

    def requires(entry, tier):
        return True

    def ensures(result, entry, tier):
        import numpy as np
        from dask_array._expr import _chunks_match
        from dask.core import flatten
        x, expected, info, out = result
        r = {}
        for og, (m, g, keys, res) in out.items():
            t = f"[optimize_graph={og}]"
            r["name-pinned" + t] = m._name == x.name
            r["advertised-chunks" + t] = chunks_equal(m.chunks, x.chunks)
            gf = graph_facts(g, keys)
            r["graph-closed" + t] = gf["missing"] == []
            r["graph-acyclic" + t] = gf["acyclic"]
            r["keys-are-the-advertised-grid" + t] = gf["keys_defined"] and all(
                k[0] == x.name and len(k) == 1 + x.ndim for k in gf["flat_keys"])
            r["blocks-have-advertised-shape" + t] = block_shapes_ok(x, res) == []
            if expected is not None:
                try:
                    full = np.asarray(x.compute(optimize_graph=og)) if False else None
                except Exception:
                    full = None
        return r

    def domain(tier, rng):
        yield from entry_domain(tier, rng)


@contract("dask_array/_collection.py::Array.compute", spec="catalogue", props=["C24", "C03"])
class compute_catalogue:
    """values, shape and dtype of computed catalogue entries equal NumPy's; recording sources only ever see in-bounds
    basic-slice requests (C24)."""
    bounded_only = True
    params = {"entry": "const", "tier": "const"}
    scope = "catalogue; recording sources assert every request is a tuple of in-bounds unit-step slices / ints"

    def call(fn, entry, tier):
        x, expected, info = build(entry, tier)
        srcs = [getattr(n, "array", None) for n in cat.walk(x.expr) if type(n).__name__ == "FromArray"]
        srcs = [s for s in srcs if isinstance(s, cat.RecordingSource)]
        val = fn(x)
        # the optimised graph may have built new FromArray nodes around the same source objects
        return val, expected, x, srcs

    def requires(entry, tier):
        return True

    def ensures(result, entry, tier):
        import numpy as np
        val, expected, x, srcs = result
        r = {"reads-in-bounds": all(s.bad == [] for s in srcs)}
        if expected is not None:
            r["values"] = _same(val, expected)
            r["shape"] = np.shape(val) == np.shape(expected)
        # the advertised metadata against what was computed -- also for entries without an independent NumPy reference
        if not any(math.isnan(s) for s in x.shape):
            r["advertised-shape"] = tuple(x.shape) == np.shape(val)
        r["dtype"] = np.asarray(val).dtype == x.dtype
        return r

    def domain(tier, rng):
        yield from entry_domain(tier, rng)


@contract("dask_array/io/_from_array.py::FromArray.chunks", spec="no-data-access", props=["C29"])
class build_touches_no_data:
    """constructing, inspecting and optimising never requests a non-empty selection from a non-NumPy source"""
    bounded_only = True
    params = {"entry": "const", "tier": "const"}
    scope = "catalogue entries over recording sources; metadata accessors shape/chunks/dtype/name/keys/repr/len/numblocks/transfer_bytes/optimize"

    def real():
        return lambda x: x

    def call(fn, entry, tier):
        x, expected, info = build(entry, tier)
        srcs = [getattr(n, "array", None) for n in cat.walk(x.expr) if type(n).__name__ == "FromArray"]
        srcs = [s for s in srcs if isinstance(s, cat.RecordingSource)]
        x.shape, x.chunks, x.dtype, x.name, x.numblocks, x.ndim
        x.__dask_keys__()
        repr(x)
        try:
            len(x)
        except (TypeError, ValueError):
            pass
        for n in cat.walk(x.expr):
            n.transfer_bytes
        o = x.optimize()
        o.chunks
        for n in cat.walk(o.expr):
            n.transfer_bytes
        x.__dask_graph__()
        return srcs

    def requires(entry, tier):
        return "/rec" in entry

    def ensures(result, entry, tier):
        return {"no-nonempty-read-before-execution": all(s.nonempty_requests() == [] for s in result)}

    def domain(tier, rng):
        yield from entry_domain(tier, rng)


@contract("dask_array/_expr.py::ArrayExpr.transfer_bytes", spec="catalogue", props=["C27"])
class transfer_bytes_catalogue:
    """for every node of the raw and the optimised expression: (min, max) with 0 <= min <= max, NaN only with unknown
    chunk sizes; alias nodes and same-chunks rechunks move nothing."""
    bounded_only = True
    params = {"entry": "const", "tier": "const"}
    scope = "every node of every catalogue entry, raw and optimised"

    def real():
        return lambda x: x

    def call(fn, entry, tier):
        x, expected, info = build(entry, tier)
        nodes = list(cat.walk(x.expr)) + list(cat.walk(x.optimize().expr))
        from dask_array._materialize import _materialize
        nodes += list(cat.walk(_materialize(x.expr)))
        return [(type(n).__name__, n.transfer_bytes, n.chunks, [d.chunks for d in n.dependencies() if hasattr(d, "chunks")])
                for n in nodes if hasattr(n, "transfer_bytes")]

    def requires(entry, tier):
        return True

    def ensures(result, entry, tier):
        ok_pair = ok_nan = ok_alias = True
        for name, tb, chunks, depchunks in result:
            lo, hi = tb
            unknown = any(isinstance(c, float) and math.isnan(c) for ch in [chunks] + depchunks for ax in ch for c in ax)
            if math.isnan(lo) or math.isnan(hi):
                if not unknown:
                    ok_nan = False
                continue
            if not (0 <= lo <= hi):
                ok_pair = False
            if name in ("RootAlias", "ChunksOverride", "ChunksFreeze") and (lo, hi) != (0, 0):
                ok_alias = False
            if name in ("Rechunk", "TasksRechunk") and depchunks and tuple(depchunks[0]) == tuple(chunks) and (lo, hi) != (0, 0):
                ok_alias = False
        return {"0<=min<=max": ok_pair, "nan-only-when-unknown": ok_nan, "aliases-and-identity-rechunks-move-nothing": ok_alias}

    def domain(tier, rng):
        yield from entry_domain(tier, rng)


@contract("dask_array/_rechunk.py::P2PRechunk.transfer_bytes", spec="hand-built", props=["C27"])
class p2p_rechunk_transfer:
    """every flavour of rechunk node, also built directly over an input (as the lowering does): 0 <= min <= max, and a
    rechunk to the same chunks moves nothing"""
    bounded_only = True
    params = {"cls": "const", "old": "const", "new": "const"}
    scope = "Rechunk / TasksRechunk / P2PRechunk nodes over 1-D inputs of <= 6 elements, every pair of layouts (quick: sampled)"

    def real():
        return lambda: None

    def call(fn, cls, old, new):
        import dask_array as da
        from dask_array import _rechunk as R
        x = da.ones((sum(old),), chunks=(old,), dtype="f8")
        node = getattr(R, cls)(x.expr, (new,))
        return tuple(node.transfer_bytes)

    def requires(cls, old, new):
        return sum(old) == sum(new)

    def ensures(result, cls, old, new):
        lo, hi = result
        return {"0<=min<=max": 0 <= lo <= hi, "same-chunks-move-nothing": old != new or (lo, hi) == (0, 0)}

    def domain(tier, rng):
        from contracts.slicing import chunkings
        lays = {}
        for n, c in chunkings(5 if tier == "quick" else 6, zero=False):
            lays.setdefault(n, []).append(c)
        for cls in ("Rechunk", "TasksRechunk", "P2PRechunk"):
            for n, cs in lays.items():
                if n == 0:
                    continue
                for a in cs:
                    for b in cs:
                        yield {"cls": cls, "old": a, "new": b}


@contract("dask_array/creation/_diag.py::diag", spec="unknown-2d", props=["C28"])
class unknown_2d_ops:
    """2-D arrays whose both axes have unknown sizes (row mask, then column mask): an operation computes NumPy's result or
    refuses"""
    bounded_only = True
    params = {"chunks": "const", "rows": "const", "cols": "const", "op": "const"}
    scope = "6x6 data, 3 layouts, 3 row masks x 3 column masks; diag, diagonal, trace, transpose, sums, matmul with itself"

    def real():
        return lambda: None

    def call(fn, chunks, rows, cols, op):
        import numpy as np
        import dask_array as da
        a = np.arange(36.0).reshape(6, 6)
        mr, mc = np.array(rows, bool), np.array(cols, bool)
        x = da.from_array(a, chunks=chunks)
        v = x[da.from_array(mr, chunks=chunks[0])][:, da.from_array(mc, chunks=chunks[1])]
        w = a[mr][:, mc]
        ops = {"diag": (lambda t: da.diag(t), lambda t: np.diag(t)),
               "diagonal": (lambda t: da.diagonal(t), lambda t: np.diagonal(t)),
               "trace": (lambda t: da.trace(t), lambda t: np.trace(t)),
               "T": (lambda t: t.T, lambda t: t.T),
               "sum0": (lambda t: t.sum(axis=0), lambda t: t.sum(axis=0)),
               "sum": (lambda t: t.sum(), lambda t: t.sum()),
               "tril": (lambda t: da.tril(t), lambda t: np.tril(t)),
               "matmul-T": (lambda t: t @ t.T, lambda t: t @ t.T)}
        f, g = ops[op]
        try:
            got = np.asarray(f(v).compute())
        except (ValueError, NotImplementedError, IndexError) as e:
            return ("refused", None, None)
        return ("computed", got, np.asarray(g(w)))

    def requires(chunks, rows, cols, op):
        return True

    def ensures(result, chunks, rows, cols, op):
        kind, got, want = result
        return {"numpy-result-or-refusal": kind == "refused" or _same(got, want)}

    def domain(tier, rng):
        masks = [(1, 0, 0, 1, 1, 1), (1, 1, 1, 1, 0, 0), (0, 1, 0, 1, 0, 1)]
        for chunks in (((3, 3), (3, 3)), ((2, 4), (4, 2)), ((6,), (3, 3))):
            for r in masks:
                for c in masks:
                    for op in ("diag", "diagonal", "trace", "T", "sum0", "sum", "tril", "matmul-T"):
                        yield {"chunks": chunks, "rows": r, "cols": c, "op": op}


@contract("dask_array/_overlap.py::sliding_window_view", spec="over-a-layout-drifting-input", props=["C01", "C02", "C03", "C08"])
class swv_over_drifting_input:
    """a sliding-window view taken of an array whose optimised layout differs from its advertised one (itself a native
    sliding-window reduction over single-element blocks) computes NumPy's result (known finding F46: sliding_window_view
    passes chunk literals of its input's advertised layout to map_overlap and does not pin that layout, so the optimised
    graph fails with 'adjust_chunks specified with N blocks'; pinning it would switch off the native kernel)"""
    bounded_only = True
    params = {"n": "const", "chunks": "const", "w1": "const", "w2": "const"}
    scope = "1-D data of length 10..14, element-wise and small blocks, inner window 2..3, outer window 2..3"

    def real():
        return lambda: None

    def call(fn, n, chunks, w1, w2):
        import numpy as np
        import dask_array as da
        swv = np.lib.stride_tricks.sliding_window_view
        a = np.arange(float(n)) * 3 % 7
        x = da.sliding_window_view(da.from_array(a, chunks=chunks), w1).sum(-1)
        y = da.sliding_window_view(x, w2).max(-1)
        want = swv(swv(a, w1).sum(-1), w2).max(-1)
        try:
            return ("computed", np.asarray(y.compute()), want)
        except Exception as e:
            return ("raised", f"{type(e).__name__}: {str(e)[:80]}", want)

    def requires(n, chunks, w1, w2):
        return True

    def ensures(result, n, chunks, w1, w2):
        kind, got, want = result
        return {"nested-window-computes-numpy": kind == "computed" and _same(got, want)}

    def domain(tier, rng):
        for n in (10, 14):
            for ch in (1, 2, 5):
                for w1 in (2, 3):
                    for w2 in (2, 3):
                        yield {"n": n, "chunks": ch, "w1": w1, "w2": w2}


@contract("dask_array/manipulation/_reshape.py::reshape", spec="over-a-layout-drifting-input", props=["C01", "C03", "C08"])
class reshape_over_drifting_input:
    """a reshape of an array whose optimised layout differs from its advertised one (a native sliding-window reduction)
    computes NumPy's result (known finding F52: reshape lays its plan out against the input's advertised blocks -- the
    single-partition path reshapes "the" block, Reshape's chunk plan names the blocks one by one -- and does not pin that
    layout, so the optimised graph fails with 'cannot reshape array of size 2 into shape (3,)'; pinning it switches off the
    slice-through-reshape pushdown that six suite tests assert)"""
    bounded_only = True
    params = {"shape": "const", "chunks": "const", "to": "const"}
    scope = "2-D data (1,5) / (2,6) / (4,5) in 2 layouts, window 3 on the last axis, then ravel / merge / split reshapes"

    def real():
        return lambda: None

    def call(fn, shape, chunks, to):
        import numpy as np
        import dask_array as da
        swv = np.lib.stride_tricks.sliding_window_view
        a = (np.arange(float(np.prod(shape))) * 3 % 7).reshape(shape)
        y = da.sliding_window_view(da.from_array(a, chunks=chunks), 3, axis=-1).sum(-1)
        ref = swv(a, 3, axis=-1).sum(-1)
        new = {"ravel": (-1,), "split": (ref.shape[0], 1, -1), "merge": (-1,) if ref.ndim == 2 else None}[to]
        want = ref.reshape(new)
        try:
            return ("computed", np.asarray(y.reshape(new).compute()), want)
        except Exception as e:
            return ("raised", f"{type(e).__name__}: {str(e)[:80]}", want)

    def requires(shape, chunks, to):
        return True

    def ensures(result, shape, chunks, to):
        kind, got, want = result
        return {"reshape-computes-numpy": kind == "computed" and _same(got, want)}

    def domain(tier, rng):
        for shape, layouts in (((1, 5), [((1,), (2, 3)), ((1,), (1, 1, 1, 1, 1))]), ((2, 6), [((1, 1), (3, 3)), ((2,), (2, 2, 2))]),
                               ((4, 5), [((2, 2), (2, 3)), ((4,), (1, 4))])):
            for ch in layouts:
                for to in ("ravel", "split"):
                    yield {"shape": shape, "chunks": ch, "to": to}


@contract("dask_array/io/_from_array.py::FromArray._with_chunks", spec="custom-getitem", props=["C24"])
class from_array_custom_getitem:
    """from_array(src, getitem=g): every read goes through g -- whatever rewrites (rechunk, slice, alignment with another
    operand, their compositions) were absorbed into the read -- and returns exactly NumPy's elements of the decoded data"""
    bounded_only = True
    params = {"chunks": "const", "post": "const"}
    scope = "an encoded 1-D / 2-D store readable only through its decoding getitem; 9 compositions of rechunk / slice / alignment"

    def real():
        return lambda: None

    def call(fn, chunks, post):
        import numpy as np
        import dask_array as da
        two_d = isinstance(chunks, tuple) and len(chunks) == 2
        data = np.arange(24.0).reshape(4, 6) if two_d else np.arange(24.0)
        enc = data * 2 + 7       # what the store holds
        calls = []

        class Store:
            shape = enc.shape
            dtype = enc.dtype
            ndim = enc.ndim

            def __getitem__(self, idx):
                return enc[idx]  # raw, encoded

        def decode(store, idx, *a, **k):
            calls.append(idx)
            return (enc[idx] - 7) / 2

        x = da.from_array(Store(), chunks=chunks, getitem=decode, name="enc-" + repr((chunks, post)))
        other = da.from_array(np.ones(data.shape), chunks=data.shape)
        ops = {"plain": lambda a: a, "rechunk": lambda a: a.rechunk(5 if not two_d else (3, 4)),
               "rechunk-slice": lambda a: a.rechunk(5 if not two_d else (3, 4))[1:],
               "slice-rechunk": lambda a: a[2:].rechunk(4 if not two_d else (1, 6)),
               "rechunk-rechunk": lambda a: a.rechunk(5 if not two_d else (3, 4)).rechunk(3 if not two_d else (2, 2)),
               "aligned-with-other": lambda a: a + other, "slice": lambda a: a[1:-1], "slice-slice": lambda a: a[1:][2:],
               "rechunk-sum": lambda a: a.rechunk(7 if not two_d else (4, 2)).sum()}
        y = ops[post](x)
        del calls[:]
        got = np.asarray(y.compute(scheduler="sync"))
        refs = dict(ops, **{"rechunk": lambda a: a, "rechunk-slice": lambda a: a[1:], "slice-rechunk": lambda a: a[2:],
                            "rechunk-rechunk": lambda a: a, "aligned-with-other": lambda a: a + 1, "rechunk-sum": lambda a: a.sum()})
        return got, np.asarray(refs[post](data)), len(calls)

    def requires(chunks, post):
        return True

    def ensures(result, chunks, post):
        got, want, ncalls = result
        return {"values-are-the-decoded-elements": _same(got, want), "reads-go-through-the-custom-getitem": ncalls >= 1}

    def domain(tier, rng):
        for chunks in ((6,), (4,), (2, 3), (4, 6)):
            for post in ("plain", "rechunk", "rechunk-slice", "slice-rechunk", "rechunk-rechunk", "aligned-with-other", "slice",
                         "slice-slice", "rechunk-sum"):
                yield {"chunks": chunks, "post": post}


@contract("dask_array/io/_from_array.py::FromArray._layer", spec="lock-held-during-reads", props=["C10"])
class from_array_lock_held:
    """from_array(src, lock=L): every read of the source -- whatever rewrites moved into the read (a slice kept as a
    deferred region, a rechunk, an integer index) -- happens while L is held, so a source that is not safe to read
    concurrently gives the same data under every schedule.  Decided without racing threads: the recording source checks
    at each request that the lock it was registered with is held."""
    bounded_only = True
    params = {"shape": "const", "chunks": "const", "post": "const", "asarray": "const"}
    scope = "1-D / 2-D recording sources; unsliced, sliced (deferred region), rechunked, integer-indexed, combined; asarray True / False"

    def real():
        return lambda: None

    def call(fn, shape, chunks, post, asarray):
        import numpy as np
        import dask_array as da

        class RecLock:
            def __init__(self):
                self.depth = 0
                self.acquired = 0

            def acquire(self, *a, **k):
                self.depth += 1
                self.acquired += 1
                return True

            def release(self):
                self.depth -= 1

            def __enter__(self):
                self.acquire()
                return self

            def __exit__(self, *exc):
                self.release()

        lock = RecLock()
        data = np.arange(float(np.prod(shape))).reshape(shape)

        class Src:
            shape = data.shape
            dtype = data.dtype
            ndim = data.ndim

            def __init__(self):
                self.unlocked = []
                self.reads = 0

            def __getitem__(self, idx):
                out = data[idx]
                if np.size(out):
                    self.reads += 1
                    if lock.depth <= 0:
                        self.unlocked.append(idx)
                return out

            def __dask_tokenize__(self):
                return ("locked-src", shape, chunks, post, asarray)

        src = Src()
        x = da.from_array(src, chunks=chunks, lock=lock, asarray=asarray)
        ops = {"none": lambda a: a, "slice": lambda a: a[1:-1], "slice-slice": lambda a: a[1:][2:7], "rechunk": lambda a: a.rechunk(3),
               "slice-rechunk": lambda a: a[2:].rechunk(4), "int": lambda a: a[3], "slice-plus": lambda a: (a[1:9] + 1).sum(),
               "strided": lambda a: a[::2]}
        y = ops[post](x)
        src.reads = 0
        del src.unlocked[:]
        got = np.asarray(y.compute(scheduler="sync"))
        refs = dict(ops, **{"rechunk": lambda a: a, "slice-rechunk": lambda a: a[2:]})
        want = np.asarray(refs[post](data))
        return src.reads, list(src.unlocked), got, want

    def requires(shape, chunks, post, asarray):
        return True

    def ensures(result, shape, chunks, post, asarray):
        reads, unlocked, got, want = result
        return {"source-was-read": reads >= 1, "every-read-holds-the-lock": unlocked == [], "values-equal-numpy": _same(got, want)}

    def domain(tier, rng):
        for shape, chunks in (((12,), (4,)), ((12,), (5,)), ((10, 4), (4, 2))):
            for post in ("none", "slice", "slice-slice", "rechunk", "slice-rechunk", "int", "slice-plus", "strided"):
                for asarray in (True, False):
                    yield {"shape": shape, "chunks": chunks, "post": post, "asarray": asarray}


@contract("dask_array/xarray.py::register", spec="rolling-values", props=["C26"])
class xarray_rolling_values:
    """after dask_array.xarray.register(), DataArray.rolling(...).sum/mean/max/min and a cumulative / reduction sample on
    dask_array-backed objects give the values the NumPy-backed objects give -- for windows below, at and above the block
    length (the moving-window rewrite exists only for this path).  Runs in a fresh interpreter per case (registration is
    global state)."""
    bounded_only = True
    params = {"n": "const", "chunk": "const", "windows": "const"}
    scope = "1-D float data of length 21 / 24, blocks of 3..8, windows 2..2*block+1; rolling sum/mean/max/min (min_periods=1), mean, cumsum"

    def real():
        return lambda: None

    def call(fn, n, chunk, windows):
        import json
        import os
        import subprocess
        import sys
        prog = (
            "import json, sys, numpy as np, xarray as xr\n"
            "import dask_array.xarray as dx\n"
            "before = dx.isactive()\n"
            "dx.register()\n"
            "after = dx.isactive()\n"
            "n, chunk, windows = json.loads(sys.argv[1])\n"
            "v = (np.arange(float(n)) * 7 % 11) - 3\n"
            "ref = xr.DataArray(v, dims='t')\n"
            "lazy = xr.DataArray(v, dims='t').chunk({'t': chunk})\n"
            "kind = type(lazy.data).__module__.split('.')[0]\n"
            "bad = []\n"
            "for w in windows:\n"
            "    for op in ('sum', 'mean', 'max', 'min'):\n"
            "        a = getattr(ref.rolling(t=w, min_periods=1), op)().values\n"
            "        b = getattr(lazy.rolling(t=w, min_periods=1), op)().values\n"
            "        if not np.allclose(a, b, equal_nan=True):\n"
            "            bad.append([w, op])\n"
            "for name, f in (('mean', lambda d: d.mean()), ('cumsum', lambda d: d.cumsum('t')), ('diff', lambda d: d.diff('t'))):\n"
            "    if not np.allclose(f(ref).values, f(lazy).values):\n"
            "        bad.append([0, name])\n"
            "print(json.dumps({'before': before, 'after': after, 'kind': kind, 'bad': bad}))\n")
        env = dict(os.environ)
        p = subprocess.run([sys.executable, "-c", prog, json.dumps([n, chunk, list(windows)])], capture_output=True, text=True,
                           env=env, timeout=600)
        if p.returncode != 0:
            raise RuntimeError(p.stderr[-400:])
        return json.loads(p.stdout.strip().splitlines()[-1])

    def requires(n, chunk, windows):
        return True

    def ensures(result, n, chunk, windows):
        return {"inactive-before-register-active-after": result["before"] is False and result["after"] is True,
                "chunked-objects-are-backed-by-dask_array": result["kind"] == "dask_array",
                "values-equal-the-numpy-backed-ones": result["bad"] == []}

    def domain(tier, rng):
        for n, chunk in ((21, 7), (24, 4), (24, 8), (21, 3), (21, 5)):
            yield {"n": n, "chunk": chunk, "windows": tuple(range(2, 2 * chunk + 2))}


@contract("dask_array/random/_choice.py::_choice_rng", spec="graph-literals-not-advanced", props=["C10", "C23"])
class random_tasks_repeatable:
    """executing the graph of a random collection does not modify what the graph holds: a second execution of the same
    collection -- serial or threaded -- returns the same numbers (a task that advances a bit generator stored in the graph
    modifies a value it depends on)"""
    bounded_only = True
    params = {"op": "const", "chunks": "const"}
    scope = "Generator / RandomState: random, normal, integers, choice (int and array populations, with and without p), permutation"

    def real():
        return lambda: None

    def call(fn, op, chunks):
        import numpy as np
        import dask_array as da
        g = da.random.default_rng(7)
        rs = da.random.RandomState(7)
        pop = da.from_array(np.arange(10.0) * 3, chunks=5)
        mk = {
            "gen-random": lambda: g.random(20, chunks=chunks),
            "gen-normal": lambda: g.normal(size=20, chunks=chunks),
            "gen-integers": lambda: g.integers(0, 50, size=20, chunks=chunks),
            "gen-choice-int": lambda: g.choice(10, size=20, chunks=chunks),
            "gen-choice-array": lambda: g.choice(pop, size=20, chunks=chunks),
            "gen-choice-p": lambda: g.choice(4, size=20, chunks=chunks, p=[0.1, 0.2, 0.3, 0.4]),
            "gen-permutation": lambda: g.permutation(pop),
            "rs-random": lambda: rs.random_sample(20, chunks=chunks),
            "rs-choice": lambda: rs.choice(10, size=20, chunks=chunks),
        }
        c = mk[op]()
        c_next = mk[op]()          # a second draw from the same generator object
        a = np.asarray(c.compute(scheduler="sync"))
        b = np.asarray(c.compute(scheduler="threads"))
        d = np.asarray((c + 0).compute(scheduler="sync"))
        d2 = np.asarray((c + 0).rechunk(4).compute(scheduler="sync"))
        nxt = np.asarray(c_next.compute(scheduler="sync"))
        return a, b, d, d2, nxt

    def requires(op, chunks):
        return True

    def ensures(result, op, chunks):
        a, b, d, d2, nxt = result
        return {"second-execution-gives-the-same-numbers": _same(a, b),
                "derived-collection-sees-the-same-numbers": _same(a, d) and _same(a, d2),
                "the-next-draw-from-the-same-generator-differs": not _same(a, nxt)}

    def domain(tier, rng):
        for op in ("gen-random", "gen-normal", "gen-integers", "gen-choice-int", "gen-choice-array", "gen-choice-p", "gen-permutation",
                   "rs-random", "rs-choice"):
            for ch in (5, 20, 7):
                yield {"op": op, "chunks": ch}


@contract("dask_array/random/_utils.py::_wrap_func", spec="one-realization", props=["C23"])
class random_one_realization:
    """a random array built from a seeded Generator / RandomState is ONE realization: computing it again gives the same
    values, every derived computation (slice, rechunk, transpose, elementwise, reduction, fused or not) is computed from
    those same values -- whichever is computed first --, and rebuilding with the same seed, shape and chunks reproduces
    them"""
    bounded_only = True
    params = {"kind": "const", "dist": "const", "chunks": "const", "derived_first": "const"}
    scope = "Generator and RandomState; 9 distributions; 6x8 arrays in 3 layouts; 8 derived programs; both compute orders"

    def real():
        return lambda: None

    def call(fn, kind, dist, chunks, derived_first):
        import numpy as np
        import dask_array as da

        def build():
            g = da.random.default_rng(11) if kind == "generator" else da.random.RandomState(11)
            kw = {"size": (6, 8), "chunks": chunks}
            if dist == "uniform01":
                return g.random(**kw) if kind == "generator" else g.random_sample(**kw)
            if dist == "integers":
                return g.integers(0, 100, **kw) if kind == "generator" else g.randint(0, 100, **kw)
            if dist == "normal":
                return g.normal(2.0, 3.0, **kw)
            if dist == "poisson":
                return g.poisson(4.0, **kw)
            if dist == "binomial":
                return g.binomial(10, 0.3, **kw)
            if dist == "exponential":
                return g.exponential(2.0, **kw)
            if dist == "standard_normal":
                return g.standard_normal(**kw)
            if dist == "uniform":
                return g.uniform(-1.0, 1.0, **kw)
            if dist == "choice":
                return g.choice(17, **kw) if kind == "generator" else g.choice(17, size=48, chunks=chunks[0] * chunks[1]).reshape(6, 8)
            raise ValueError(dist)

        progs = {"slice": lambda t: t[1:5, ::2], "rechunk": lambda t: t.rechunk((2, 8)) if hasattr(t, "rechunk") else t,
                 "T": lambda t: t.T, "plus": lambda t: t + 1, "sum0": lambda t: t.sum(axis=0), "col": lambda t: (t * 2)[:, 3],
                 "mean": lambda t: t.mean(), "fused": lambda t: ((t + 1) * 2 - t)[::-1]}
        x = build()
        derived = {k: f(x) for k, f in progs.items()}
        if derived_first:
            dvals = {k: np.asarray(v.compute()) for k, v in derived.items()}
            r1 = np.asarray(x.compute())
        else:
            r1 = np.asarray(x.compute())
            dvals = {k: np.asarray(v.compute()) for k, v in derived.items()}
        r2 = np.asarray(x.compute(scheduler="sync"))
        rebuilt = np.asarray(build().compute())
        want = {k: np.asarray(f(r1)) for k, f in progs.items()}
        return r1, r2, rebuilt, dvals, want

    def requires(kind, dist, chunks, derived_first):
        return True

    def ensures(result, kind, dist, chunks, derived_first):
        r1, r2, rebuilt, dvals, want = result
        return {"computing-again-gives-the-same-values": _same(r1, r2),
                "derived-computations-use-the-same-realization": all(_same(dvals[k], want[k]) for k in want),
                "same-seed-shape-chunks-rebuild-the-same-values": _same(r1, rebuilt),
                "not-degenerate": float(np_std(r1)) > 0}

    def domain(tier, rng):
        for kind in ("generator", "randomstate"):
            for dist in ("uniform01", "integers", "normal", "poisson", "binomial", "exponential", "standard_normal", "uniform", "choice"):
                for chunks in ((3, 4), (6, 8), (2, 3)):
                    for first in (False, True):
                        yield {"kind": kind, "dist": dist, "chunks": chunks, "derived_first": first}


def np_std(a):
    import numpy as np
    return np.std(np.asarray(a, dtype=float))


@contract("dask_array/random/_utils.py::_wrap_func", spec="re-created-nodes-keep-the-realization", props=["C23"])
class random_recreated_nodes:
    """a random node re-created from its operands is the same realization: (a) with an array-valued distribution parameter
    (the node then has dependencies, and every rewrite of one -- slice / rechunk pushdown, fusion -- re-instantiates it),
    every derived program is computed from the values the array itself computes to; (b) a pickle / deepcopy round trip of
    the collection, and of a derived program, computes the same values under the same name; (c) the numbers later calls draw
    from the same generator do not depend on whether an earlier array has been computed, optimised or pickled in between"""
    bounded_only = True
    params = {"kind": "const", "dist": "const", "param": "const", "chunks": "const"}
    scope = "Generator and RandomState; normal / poisson / uniform / exponential; scalar, NumPy-array and dask-array parameters; 3 layouts"

    def real():
        return lambda: None

    def call(fn, kind, dist, param, chunks):
        import copy
        import pickle
        import numpy as np
        import dask_array as da

        def mk():
            return da.random.default_rng(2024) if kind == "generator" else da.random.RandomState(2024)

        def par():
            if param == "scalar":
                return 2.0
            if param == "numpy":
                return np.arange(1.0, 9.0)
            # a dask-array parameter whose own expression the optimiser rewrites
            return (da.ones((12, 8), chunks=(5, 3)) * 2)[:6].rechunk(chunks)

        def build(g):
            kw = {"size": (6, 8), "chunks": chunks}
            if dist == "normal":
                return g.normal(par(), 1.0, **kw)
            if dist == "poisson":
                return g.poisson(par(), **kw)
            if dist == "uniform":
                return g.uniform(0.0, 1.0, **kw) if param != "scalar" else g.uniform(0.0, par(), **kw)
            if dist == "exponential":
                return g.exponential(1.0, **kw) if param != "scalar" else g.exponential(par(), **kw)
            raise ValueError(dist)

        progs = {"slice": lambda t: t[1:5, 2:7], "plus0": lambda t: t + 0, "T": lambda t: t.T, "sum0": lambda t: (t + 1).sum(axis=0),
                 "rechunk": lambda t: t.rechunk((2, 8)) if hasattr(t, "rechunk") else t, "fused": lambda t: ((t + 1) * 2 - t)[::-1]}
        g = mk()
        x = build(g)
        r1 = np.asarray(x.compute())
        dvals = {k: np.asarray(f(x).compute()) for k, f in progs.items()}
        want = {k: np.asarray(f(r1)) for k, f in progs.items()}
        y = pickle.loads(pickle.dumps(x))
        z = copy.deepcopy(x)
        d = (x.T + 1).sum(axis=1)
        d2 = pickle.loads(pickle.dumps(d))
        trips = {"pickle": (np.asarray(y.compute()), y.name == x.name), "deepcopy": (np.asarray(z.compute()), z.name == x.name),
                 "derived": (np.asarray(d2.compute()), d2.name == d.name)}
        trip_want = {"pickle": r1, "deepcopy": r1, "derived": (r1.T + 1).sum(axis=1)}
        nxt_after = np.asarray(g.normal(size=(3,), chunks=2).compute())
        g2 = mk()
        build(g2)                      # built but never computed, optimised or pickled
        nxt_plain = np.asarray(g2.normal(size=(3,), chunks=2).compute())
        rebuilt = np.asarray(build(mk()).compute())
        return {"r1": r1, "dvals": dvals, "want": want, "trips": trips, "trip_want": trip_want, "nxt": (nxt_after, nxt_plain), "rebuilt": rebuilt}

    def requires(kind, dist, param, chunks):
        return True

    def ensures(result, kind, dist, param, chunks):
        t, tw = result["trips"], result["trip_want"]
        return {"derived-computations-use-the-same-realization": all(_same(result["dvals"][k], result["want"][k]) for k in result["want"]),
                "serialization-round-trips-keep-values-and-name": all(_same(t[k][0], tw[k]) and t[k][1] for k in t),
                "later-draws-do-not-depend-on-earlier-computes": _same(*result["nxt"]),
                "same-seed-shape-chunks-rebuild-the-same-values": _same(result["r1"], result["rebuilt"]),
                "not-degenerate": float(np_std(result["r1"])) > 0}

    def domain(tier, rng):
        for kind in ("generator", "randomstate"):
            for dist in ("normal", "poisson", "uniform", "exponential"):
                for param in ("scalar", "numpy", "dask") if dist in ("normal", "poisson") else ("scalar",):
                    for chunks in ((3, 4), (6, 8), (2, 3)):
                        yield {"kind": kind, "dist": dist, "param": param, "chunks": chunks}


@contract("dask_array/_expr.py::ArrayExpr.optimize", spec="idempotent", props=["C08"])
class optimize_idempotent:
    """simplify / lower / fuse terminate without error on every catalogue entry that computes un-optimised, optimising an
    already optimised expression gives an expression of the same name (simplify, lower_completely and the whole optimize
    each reach a fixpoint after one application), and the optimised expression still computes"""
    bounded_only = True
    params = {"entry": "const", "tier": "const"}
    scope = "catalogue entries (all sources, layouts and routine families of the catalogue)"

    def real():
        return lambda e: e.optimize()

    def call(fn, entry, tier):
        import time
        import numpy as np
        x, expected, info = build(entry, tier)
        e = x.expr
        try:
            raw = _eval_unoptimized(e)
            raw_ok = True
        except Exception:
            raw, raw_ok = None, False
        t0 = time.time()
        s1 = e.simplify()
        s2 = s1.simplify()
        l1 = s1.lower_completely()
        l2 = l1.lower_completely()
        o1 = fn(e)
        o2 = fn(o1)
        dt = time.time() - t0
        try:
            from dask_array._new_collection import new_collection
            val = np.asarray(new_collection(o1).compute())
            err = None
        except Exception as ex:
            val, err = None, f"{type(ex).__name__}: {str(ex)[:80]}"
        return {"raw_ok": raw_ok, "raw": raw, "names": (s1._name, s2._name, l1._name, l2._name, o1._name, o2._name), "secs": dt,
                "val": val, "err": err}

    def requires(entry, tier):
        return True

    def ensures(result, entry, tier):
        n = result["names"]
        r = {"simplify-is-a-fixpoint": n[0] == n[1], "lower_completely-is-a-fixpoint": n[2] == n[3],
             "optimize-is-idempotent": n[4] == n[5], "terminates-quickly": result["secs"] < 60}
        if result["raw_ok"]:
            r["optimised-form-of-a-computable-program-computes"] = result["err"] is None
            if result["err"] is None and "unknown" not in entry:
                r["optimised-value-equals-raw"] = _same(result["val"], result["raw"])
        return r

    def domain(tier, rng):
        yield from entry_domain(tier, rng)


@contract("dask_array/_expr.py::ArrayExpr.optimize", spec="idempotent-on-rewrite-targets", props=["C08"])
class optimize_idempotent_rw(optimize_idempotent):
    """the same on the compositions chosen to fire the slice / rechunk / shuffle pushdowns, nested-op fusion, sliding-window
    substitution, chunk unification and rechunk-into-IO (the rewrite-target catalogue of C02)"""
    scope = "rewrite-target catalogue (1-D / 2-D / 3-D sources, several layouts, NumPy and recording sources)"

    def call(fn, entry, tier):
        import time
        import numpy as np
        x, expected, info = rw_entries(tier)[entry]()
        e = x.expr
        try:
            raw = _eval_unoptimized(e)
            raw_ok = True
        except Exception:
            raw, raw_ok = None, False
        t0 = time.time()
        s1 = e.simplify()
        s2 = s1.simplify()
        l1 = s1.lower_completely()
        l2 = l1.lower_completely()
        o1 = fn(e)
        o2 = fn(o1)
        dt = time.time() - t0
        try:
            from dask_array._new_collection import new_collection
            val = np.asarray(new_collection(o1).compute())
            err = None
        except Exception as ex:
            val, err = None, f"{type(ex).__name__}: {str(ex)[:80]}"
        return {"raw_ok": raw_ok, "raw": raw, "names": (s1._name, s2._name, l1._name, l2._name, o1._name, o2._name), "secs": dt,
                "val": val, "err": err}

    def domain(tier, rng):
        for name in rw_entries(tier):
            if not _untrimmed_overlap_slice(name):
                yield {"entry": name, "tier": tier}


def _untrimmed_overlap_slice(name):
    return "map_overlap(" in name and "trim=False)[" in name


@contract("dask_array/_expr.py::ArrayExpr.optimize", spec="idempotent-slice-of-untrimmed-overlap", props=["C08"])
class optimize_idempotent_untrimmed(optimize_idempotent_rw):
    """the same for slices of map_overlap(..., trim=False) along the overlapped axis (known finding F48: MapOverlap declines
    the slice, but once it is lowered to Blockwise(OverlapInternal) a second optimisation pushes the slice through that
    Blockwise -- a value-preserving rewrite the first optimisation did not reach, so optimize is not idempotent there)"""
    scope = "rewrite-target entries map_overlap(..., trim=False)[a:b]"

    def domain(tier, rng):
        for name in rw_entries(tier):
            if _untrimmed_overlap_slice(name):
                yield {"entry": name, "tier": tier}


def _drift_ops():
    import numpy as np
    import dask_array as da
    swv = np.lib.stride_tricks.sliding_window_view
    ops = {
        "cumsum": (lambda r: da.cumsum(r, axis=0), lambda a: np.cumsum(a, axis=0)),
        "cumprod": (lambda r: da.cumprod(r / 10, axis=0), lambda a: np.cumprod(a / 10, axis=0)),
        "cumsum-blelloch": (lambda r: da.cumsum(r, axis=0, method="blelloch"), lambda a: np.cumsum(a, axis=0)),
        "diff": (lambda r: da.diff(r, axis=0), lambda a: np.diff(a, axis=0)),
        "diff2": (lambda r: da.diff(r, n=2, axis=0), lambda a: np.diff(a, n=2, axis=0)),
        "flip": (lambda r: da.flip(r, 0), lambda a: np.flip(a, 0)),
        "roll": (lambda r: da.roll(r, 2, axis=0), lambda a: np.roll(a, 2, axis=0)),
        "repeat": (lambda r: da.repeat(r, 2, axis=0), lambda a: np.repeat(a, 2, axis=0)),
        "tile": (lambda r: da.tile(r, 2), lambda a: np.tile(a, 2)),
        "pad-edge": (lambda r: da.pad(r, [(1, 2)] + [(0, 0)] * (r.ndim - 1), mode="edge"), lambda a: np.pad(a, [(1, 2)] + [(0, 0)] * (a.ndim - 1), mode="edge")),
        "pad-reflect": (lambda r: da.pad(r, [(2, 1)] + [(0, 0)] * (r.ndim - 1), mode="reflect"), lambda a: np.pad(a, [(2, 1)] + [(0, 0)] * (a.ndim - 1), mode="reflect")),
        "topk": (lambda r: da.topk(r, 3, axis=0), lambda a: np.flip(np.sort(a, axis=0), axis=0)[:3]),
        "argtopk": (lambda r: da.take_along_axis(r, da.argtopk(r, 3, axis=0), axis=0) if hasattr(da, "take_along_axis") else da.topk(r, 3, axis=0), lambda a: np.flip(np.sort(a, axis=0), axis=0)[:3]),
        "percentile": (lambda r: da.percentile(r.ravel(), [50]) * 0 + 1, lambda a: np.ones(1)),
        "histogram": (lambda r: da.histogram(r, bins=4, range=(0, 40))[0], lambda a: np.histogram(a, bins=4, range=(0, 40))[0]),
        "digitize": (lambda r: da.digitize(r, np.array([5.0, 10.0, 20.0])), lambda a: np.digitize(a, np.array([5.0, 10.0, 20.0]))),
        "isin": (lambda r: da.isin(r, [6.0, 9.0, 12.0]), lambda a: np.isin(a, [6.0, 9.0, 12.0])),
        "where": (lambda r: da.where(r > 10, r, -r), lambda a: np.where(a > 10, a, -a)),
        "nonzero-count": (lambda r: da.count_nonzero(r > 10), lambda a: np.count_nonzero(a > 10)),
        "mask-select": (lambda r: r[r > 10], lambda a: a[a > 10]),
        "mask-setitem": (lambda r: _setmask(r), lambda a: np.where(a > 10, 0.0, a)),
        "take": (lambda r: da.take(r, [3, 0, 5], axis=0), lambda a: np.take(a, [3, 0, 5], axis=0)),
        "int-dask-index": (lambda r: r[da.from_array(np.array([3, 0, 5]), chunks=2)], lambda a: a[[3, 0, 5]]),
        "vindex": (lambda r: r.vindex[[3, 0, 5]], lambda a: a[[3, 0, 5]]),
        "blocks-last": (lambda r: r.blocks[-1], lambda a: None),
        "slice-step": (lambda r: r[1::3], lambda a: a[1::3]),
        "clip-round": (lambda r: da.round(da.clip(r / 3, 1, 9), 1), lambda a: np.round(np.clip(a / 3, 1, 9), 1)),
        "outer": (lambda r: da.outer(r.ravel()[:4], r.ravel()[:3]), lambda a: np.outer(a.ravel()[:4], a.ravel()[:3])),
        "dot-self": (lambda r: da.dot(r.ravel(), r.ravel()), lambda a: np.dot(a.ravel(), a.ravel())),
        "tensordot-T": (lambda r: da.tensordot(r.reshape(r.shape[0], -1), r.reshape(r.shape[0], -1).T, axes=1), lambda a: np.tensordot(a.reshape(a.shape[0], -1), a.reshape(a.shape[0], -1).T, axes=1)),
        "einsum": (lambda r: da.einsum("i...,i...->...", r, r), lambda a: np.einsum("i...,i...->...", a, a)),
        "concatenate": (lambda r: da.concatenate([r, r[:2]]), lambda a: np.concatenate([a, a[:2]])),
        "stack": (lambda r: da.stack([r, r * 2], axis=1), lambda a: np.stack([a, a * 2], axis=1)),
        "block": (lambda r: da.block([r, r]) if r.ndim == 1 else da.block([[r], [r]]), lambda a: np.block([a, a]) if a.ndim == 1 else np.block([[a], [a]])),
        "reshape": (lambda r: r.reshape(-1, 1), lambda a: a.reshape(-1, 1)),
        "ravel-T": (lambda r: r.T.ravel(), lambda a: a.T.ravel()),
        "expand-squeeze": (lambda r: da.squeeze(da.expand_dims(r, 1), axis=1), lambda a: a),
        "moveaxis": (lambda r: da.moveaxis(da.stack([r, r]), 0, -1), lambda a: np.moveaxis(np.stack([a, a]), 0, -1)),
        "coarsen": (lambda r: da.coarsen(np.sum, r, {0: 2}, trim_excess=True), lambda a: a[: a.shape[0] // 2 * 2].reshape((a.shape[0] // 2, 2) + a.shape[1:]).sum(axis=1)),
        "map_overlap": (lambda r: r.map_overlap(lambda b: b + 1, depth={0: 1}, boundary="reflect"), lambda a: a + 1),
        "map_overlap-diff": (lambda r: r.map_overlap(lambda b: b - np.roll(b, 1, axis=0), depth={0: 1}, boundary="periodic"), lambda a: a - np.roll(a, 1, axis=0)),
        "map_blocks-info": (lambda r: r.map_blocks(_block_start, dtype="f8"), lambda a: np.arange(a.shape[0]).reshape((-1,) + (1,) * (a.ndim - 1)) * np.ones(a.shape)),
        "apply_along_axis": (lambda r: da.apply_along_axis(np.cumsum, 0, r, dtype=r.dtype, shape=(r.shape[0],)), lambda a: np.apply_along_axis(np.cumsum, 0, a)),
        "apply_gufunc": (lambda r: da.apply_gufunc(lambda t: t.sum(axis=-1), "(i)->()", r.T if r.ndim > 1 else r, output_dtypes=float, allow_rechunk=True), lambda a: (a.T if a.ndim > 1 else a).sum(axis=-1)),
        "sum-split2": (lambda r: r.sum(axis=0, split_every=2), lambda a: a.sum(axis=0)),
        "var": (lambda r: r.var(axis=0), lambda a: a.var(axis=0)),
        "argmax": (lambda r: da.argmax(r, axis=0), lambda a: np.argmax(a, axis=0)),
        "nanargmin": (lambda r: da.nanargmin(r, axis=0), lambda a: np.nanargmin(a, axis=0)),
        "cov": (lambda r: da.cov(da.stack([r.ravel(), r.ravel() ** 2])), lambda a: np.cov(np.stack([a.ravel(), a.ravel() ** 2]))),
        "average-weights": (lambda r: da.average(r, axis=0, weights=da.from_array(np.arange(1.0, r.shape[0] + 1), chunks=4)), lambda a: np.average(a, axis=0, weights=np.arange(1.0, a.shape[0] + 1))),
        "ptp": (lambda r: da.ptp(r, axis=0), lambda a: np.ptp(a, axis=0)),
        "gradient": (lambda r: da.gradient(r, axis=0), lambda a: np.gradient(a, axis=0)),
        "insert": (lambda r: da.insert(r, [1, 4], -1.0, axis=0), lambda a: np.insert(a, [1, 4], -1.0, axis=0)),
        "delete": (lambda r: da.delete(r, [1, 4], axis=0), lambda a: np.delete(a, [1, 4], axis=0)),
        "append": (lambda r: da.append(r, r[:2], axis=0), lambda a: np.append(a, a[:2], axis=0)),
        "broadcast_to": (lambda r: da.broadcast_to(r, (2,) + r.shape), lambda a: np.broadcast_to(a, (2,) + a.shape)),
        "rechunk-slice": (lambda r: r.rechunk({0: 5})[2:9], lambda a: a[2:9]),
        "store-load": (lambda r: _store_roundtrip(r), lambda a: a),
        "to_delayed": (lambda r: _from_delayed_blocks(r), lambda a: a),
        # the drifting array as the *other* operand: a mask, an integer index, an assigned value, weights, search keys
        "known[mask-from-drift]": (lambda r: _known_like(r)[r > 10], lambda a: _np_known_like(a)[a > 10]),
        "known[int-index-from-drift]": (lambda r: _known_like(r)[(r.ravel() % 5).astype(int)], lambda a: _np_known_like(a)[(a.ravel() % 5).astype(int)]),
        "known[slice] = drift": (lambda r: _assign_into_known(r), lambda a: _np_assign_into_known(a)),
        "bincount-of-drift": (lambda r: da.bincount((r.ravel() % 5).astype(int), minlength=5), lambda a: np.bincount((a.ravel() % 5).astype(int), minlength=5)),
        "bincount-weights-drift": (lambda r: da.bincount(da.from_array(np.arange(r.size) % 3, chunks=r.ravel().chunks), weights=r.ravel(), minlength=3), lambda a: np.bincount(np.arange(a.size) % 3, weights=a.ravel(), minlength=3)),
        "searchsorted-keys-drift": (lambda r: da.searchsorted(da.from_array(np.arange(0.0, 40.0, 4.0), chunks=4), r), lambda a: np.searchsorted(np.arange(0.0, 40.0, 4.0), a)),
        "where-cond-drift": (lambda r: da.where(r > 10, _known_like(r), -1.0), lambda a: np.where(a > 10, _np_known_like(a), -1.0)),
        "matmul-known": (lambda r: r.reshape(r.shape[0], -1).T @ _known_like(r).reshape(r.shape[0], -1), lambda a: a.reshape(a.shape[0], -1).T @ _np_known_like(a).reshape(a.shape[0], -1)),
        "histogram-weights-drift": (lambda r: da.histogram(_known_like(r).rechunk(r.chunks), bins=4, range=(0, 60), weights=r)[0], lambda a: np.histogram(_np_known_like(a), bins=4, range=(0, 60), weights=a)[0]),
        "average-weights-drift": (lambda r: da.average(_known_like(r), axis=0, weights=r), lambda a: np.average(_np_known_like(a), axis=0, weights=a)),
        "compress-cond-drift": (lambda r: da.compress((r.ravel() > 10), _known_like(r).ravel(), axis=0), lambda a: np.compress(a.ravel() > 10, _np_known_like(a).ravel(), axis=0)),
        "concatenate-known-drift": (lambda r: da.concatenate([_known_like(r), r, _known_like(r)[:1]]), lambda a: np.concatenate([_np_known_like(a), a, _np_known_like(a)[:1]])),
        "isin-test-drift": (lambda r: da.isin(_known_like(r), r), lambda a: np.isin(_np_known_like(a), a)),
        "map_blocks-two-args": (lambda r: da.map_blocks(_pair_start, r, _known_like(r).rechunk(r.chunks), dtype="f8"), lambda a: a + _np_known_like(a) + np.arange(a.shape[0]).reshape((-1,) + (1,) * (a.ndim - 1))),
        "choose": (lambda r: da.choose((r.ravel() % 2).astype(int), [_known_like(r).ravel(), r.ravel()]), lambda a: np.choose((a.ravel() % 2).astype(int), [_np_known_like(a).ravel(), a.ravel()])),
        "unify-with-known": (lambda r: r + da.from_array(np.arange(float(r.shape[0])).reshape((-1,) + (1,) * (r.ndim - 1)), chunks=5), lambda a: a + np.arange(float(a.shape[0])).reshape((-1,) + (1,) * (a.ndim - 1))),
    }
    return ops


def _np_known_like(a):
    import numpy as np
    return (np.arange(float(a.size)) * 2 + 1).reshape(a.shape)


def _known_like(r):
    import numpy as np
    import dask_array as da
    shape = tuple(int(s) for s in r.shape)
    return da.from_array((np.arange(float(np.prod(shape))) * 2 + 1).reshape(shape), chunks=(5,) + shape[1:])


def _assign_into_known(r):
    x = _known_like(r) + 0
    x[2:9] = r[2:9]
    return x


def _np_assign_into_known(a):
    x = _np_known_like(a) + 0
    x[2:9] = a[2:9]
    return x


def _setmask(r):
    r = r + 0
    r[r > 10] = 0.0
    return r


def _block_start(b, block_info=None):
    import numpy as np
    lo, hi = block_info[0]["array-location"][0]
    out = np.empty(b.shape)
    out[...] = np.arange(lo, hi).reshape((-1,) + (1,) * (b.ndim - 1))
    return out


def _pair_start(b, c, block_info=None):
    import numpy as np
    lo, hi = block_info[0]["array-location"][0]
    return b + c + np.arange(lo, hi).reshape((-1,) + (1,) * (b.ndim - 1))


def _store_roundtrip(r):
    import numpy as np
    import dask_array as da
    tgt = np.zeros(r.shape)
    da.store(r, tgt)
    return da.from_array(tgt, chunks=4)


def _from_delayed_blocks(r):
    import numpy as np
    import dask
    import dask_array as da
    blocks = dask.compute(*list(np.ravel(r.to_delayed())))
    flat = [np.asarray(b) for b in blocks]
    ok = tuple(b.shape for b in flat) == tuple(tuple(c[i] for c, i in zip(r.chunks, idx)) for idx in np.ndindex(*r.numblocks))
    return da.from_array(np.concatenate(flat, axis=0) if r.ndim == 1 and ok else (np.zeros(r.shape) if not ok else np.block(_nest(flat, r.numblocks))), chunks=4)


def _nest(flat, nb):
    if len(nb) == 1:
        return list(flat)
    n = len(flat) // nb[0]
    return [_nest(flat[i * n:(i + 1) * n], nb[1:]) for i in range(nb[0])]


@contract("dask_array/_histogram.py::histogramdd", spec="sequence-sample-with-a-drifting-coordinate", props=["C03", "C04"])
class histogramdd_drifting_coordinate:
    """histogramdd over a sequence of coordinate arrays computes NumPy's histogram also when one coordinate array's
    optimised layout differs from its advertised one (known finding F50: the coordinate expressions sit in a tuple operand,
    which the lowering machinery does not pin or re-key, so the hand-built layer refers to blocks that do not exist)"""
    bounded_only = True
    params = {"drifting": "const", "chunks": "const"}
    scope = "two coordinate arrays of length 12; none / the first / the second drifting; 2 layouts of the known one"

    def real():
        return lambda: None

    def call(fn, drifting, chunks):
        import numpy as np
        import dask_array as da
        swv = np.lib.stride_tricks.sliding_window_view
        v = np.arange(14.0) * 5 % 9 + 1
        a = swv(v, 3).sum(-1)
        b = np.arange(12.0) * 2 + 1
        r = da.sliding_window_view(da.from_array(v, chunks=1), 3).sum(-1) if drifting != "none" else da.from_array(a, chunks=chunks)
        k = da.from_array(b, chunks=r.chunks)
        sample = (r, k) if drifting != "second" else (k, r)
        ref = (a, b) if drifting != "second" else (b, a)
        kw, nkw = {}, {}
        if drifting == "weights":
            sample, ref = (k, k / 2), (b, b / 2)
            kw, nkw = {"weights": r}, {"weights": a}
        try:
            got = np.asarray(da.histogramdd(sample, bins=(3, 2), range=((0, 40), (0, 40)), **kw)[0].compute())
        except Exception as e:
            return ("raised", f"{type(e).__name__}: {str(e)[:60]}", None)
        return ("computed", got, np.histogramdd(ref, bins=(3, 2), range=((0, 40), (0, 40)), **nkw)[0])

    def requires(drifting, chunks):
        return True

    def ensures(result, drifting, chunks):
        kind, got, want = result
        return {"computes-numpys-histogram": kind == "computed" and _same(got, want)}

    def domain(tier, rng):
        for drifting in ("none", "first", "second", "weights"):
            for chunks in (3, 4):
                yield {"drifting": drifting, "chunks": chunks}


@contract("dask_array/_expr.py::ChunksFreeze.lower_once", spec="routines-on-a-layout-drifting-input", props=["C03", "C02", "C20"])
class routines_on_drifting_input:
    """a routine applied to an array whose optimised layout differs from its advertised one (a native sliding-window
    reduction over single-element blocks) computes NumPy's result with the advertised shape and dtype: every routine that
    bakes a literal of its input's layout into its graph (offsets, chunk tuples, block counts) has to pin that layout"""
    bounded_only = True
    params = {"op": "const", "rank": "const"}
    scope = "about 70 routines (the drifting array as the main operand, and as a mask / index / value / weights / keys of an operation on a known array); a 1-D drifting input of length 12 and a 2-D one of shape 12x3 (window 3 over blocks of 1 element)"

    def real():
        return lambda: None

    def call(fn, op, rank):
        import numpy as np
        import dask_array as da
        swv = np.lib.stride_tricks.sliding_window_view
        if rank in (1, 11):
            # rank 11: the same in one dimension with 44 elements -- 42 blocks run where 14 are advertised, more than the
            # default fan-in of a reduction tree: a routine that sizes a tree (or any per-block literal) for the
            # advertised blocks keeps one group's answer
            v = np.arange(14.0 if rank == 1 else 44.0) * 5 % 9 + 1
            r = da.sliding_window_view(da.from_array(v, chunks=1), 3).sum(-1)
            a = swv(v, 3).sum(-1)
        else:
            v = (np.arange(42.0) * 5 % 9 + 1).reshape(14, 3)
            r = da.sliding_window_view(da.from_array(v, chunks=(1, 3)), 3, axis=0).sum(-1)
            a = swv(v, 3, axis=0).sum(-1)
        f, g = _drift_ops()[op]
        import warnings
        with warnings.catch_warnings():
            warnings.simplefilter("ignore")
            y = f(r)
            want = g(a)
            got = np.asarray(y.compute())
        return got, want, tuple(y.shape), str(y.dtype)

    def requires(op, rank):
        return True

    def ensures(result, op, rank):
        import math
        import numpy as np
        got, want, shape, dtype = result
        r = {"advertised-dtype-is-computed-dtype": str(got.dtype) == dtype}
        if not any(isinstance(s, float) and math.isnan(s) for s in shape):
            r["advertised-shape-is-computed-shape"] = tuple(got.shape) == tuple(shape)
        if want is not None:
            r["equals-numpy"] = np.shape(got) == np.shape(want) and bool(np.allclose(got, want, equal_nan=True))
        return r

    def domain(tier, rng):
        for op in _drift_ops():
            for rank in (1, 2, 11):
                yield {"op": op, "rank": rank}


@contract("dask_array/manipulation/_squeeze.py::squeeze", spec="unknown-axis", props=["C28"])
class squeeze_unknown_axis:
    """squeeze() without an axis on an array with an unknown-length axis gives NumPy's shape or refuses (known finding F45:
    an unknown axis whose true length is 1 is kept, so the result has one axis more than NumPy's)"""
    bounded_only = True
    params = {"n": "const", "chunks": "const", "keep": "const"}
    scope = "boolean-mask selections of 1-D arrays keeping 1 or 2 elements; 2-D (unknown, 1) inputs"

    def call(fn, n, chunks, keep):
        import numpy as np
        import dask_array as da
        d = np.arange(n) * 3 % 7
        x = da.from_array(d, chunks=(chunks,))
        thr = sorted(d)[-keep]
        try:
            got = np.asarray(fn(x[x >= thr]).compute())
        except ValueError as e:
            return ("refused", None, None)
        return ("computed", got, np.squeeze(d[d >= thr]))

    def requires(n, chunks, keep):
        return True

    def ensures(result, n, chunks, keep):
        kind, got, want = result
        return {"numpy-shape-or-refusal": kind == "refused" or (np_shape(got) == np_shape(want) and _same(got, want))}

    def domain(tier, rng):
        for n in (5, 7):
            for ch in cat.layouts_1d(n, "quick"):
                for keep in (1, 2):
                    yield {"n": n, "chunks": ch, "keep": keep}


def np_shape(a):
    import numpy as np
    return tuple(np.shape(a))


# ---------------------------------------------------------------------------
def _numeric_known(x):
    return not any(isinstance(c, float) and math.isnan(c) for ax in x.chunks for c in ax)


@contract("dask_array/io/_store.py::store", spec="catalogue", props=["C25"])
class store_catalogue:
    """store writes each source value to its target position (whole target, or an offset region) and leaves every
    other target position untouched."""
    bounded_only = True
    params = {"entry": "const", "tier": "const", "mode": "const"}
    scope = "catalogue entries with known chunks; NumPy targets; modes: whole / offset region / strided offset region / two sources / compute=False / return_stored"

    def call(fn, entry, tier, mode):
        import numpy as np
        import dask
        x, expected, info = build(entry, tier)
        if expected is None:
            # entries without an independent NumPy reference (approximate routines): storing must write what computing gives
            expected = np.asarray(x.compute())
        shp = tuple(int(s) for s in x.shape)
        if mode == "whole":
            tgt = np.full(shp, -7.0)
            fn(x, tgt)
            return [(tgt, tuple(slice(0, n) for n in shp), expected)]
        if mode == "region" and not shp:
            # a 0-d source stored into one element of a larger target: the region is all there is to say where
            tgt = np.full((5,), -7.0)
            fn(x, tgt, regions=(3,))
            out = [(tgt, (3,), expected)]
            tgt2 = np.full((2, 4), -7.0)
            fn(x, tgt2, regions=(1, 2))
            return out + [(tgt2, (1, 2), expected)]
        if mode == "region":
            big = tuple(n + 3 for n in shp)
            tgt = np.full(big, -7.0)
            reg = tuple(slice(1, 1 + n) for n in shp)
            fn(x, tgt, regions=reg)
            return [(tgt, reg, expected)]
        if mode == "strided":
            big = tuple(2 * n + 3 for n in shp)
            tgt = np.full(big, -7.0)
            reg = tuple(slice(1, 1 + 2 * n, 2) for n in shp)
            fn(x, tgt, regions=reg)
            return [(tgt, reg, expected)]
        if mode == "two":
            t1, t2 = np.full(shp, -7.0), np.full(shp, -7.0)
            fn([x, x + 1], [t1, t2])
            return [(t1, tuple(slice(0, n) for n in shp), expected), (t2, tuple(slice(0, n) for n in shp), np.asarray(expected) + 1)]
        if mode == "delayed":
            tgt = np.full(shp, -7.0)
            d = fn(x, tgt, compute=False)
            before = tgt.copy()
            dask.compute(d)
            return [(tgt, tuple(slice(0, n) for n in shp), expected), ("untouched-before-compute", before, None)]
        if mode == "return_stored":
            tgt = np.full(shp, -7.0)
            r = fn(x, tgt, return_stored=True)
            r = r[0] if isinstance(r, (list, tuple)) else r
            return [(tgt, tuple(slice(0, n) for n in shp), expected), ("stored", np.asarray(r.compute()), expected)]
        if mode == "lazy_stored_indexed":
            # the lazily stored array (compute=False, return_stored=True) is an ordinary array: indexing it must work
            out = []
            for ix in ((slice(1, None),), ([0],), (0,)):
                if x.ndim == 0 or shp[0] < 2:
                    continue
                tgt = np.full(shp, -7.0)
                r = fn(x, tgt, return_stored=True, compute=False)
                r = r[0] if isinstance(r, (list, tuple)) else r
                out.append(("stored", np.asarray(r[ix].compute()), np.asarray(expected)[ix]))
            return out
        if mode == "return_stored_loaded":
            tgt = np.full(shp, -7.0)
            r = fn(x, tgt, return_stored=True, load_stored=True)
            r = r[0] if isinstance(r, (list, tuple)) else r
            return [(tgt, tuple(slice(0, n) for n in shp), expected), ("stored", np.asarray(r.compute()), expected)]
        if mode in ("npy_stack", "npy_stack_reuse"):
            # round trip through a stack of .npy files; `reuse`: the directory first held another (differently shaped) stack
            # that was read, and is still referenced, before it is overwritten
            import shutil
            import tempfile
            import dask_array as da
            if x.ndim == 0:
                return []
            d = tempfile.mkdtemp(prefix="verif_npy_")
            try:
                keep = None
                if mode == "npy_stack_reuse":
                    da.to_npy_stack(d, da.from_array(np.arange(4.0).reshape((4,) + (1,) * (x.ndim - 1)), chunks=2), axis=0)
                    keep = da.from_npy_stack(d)
                    keep.chunks
                da.to_npy_stack(d, x.rechunk({i: -1 for i in range(1, x.ndim)}) if x.ndim > 1 else x, axis=0)
                back = da.from_npy_stack(d)
                return [("stored", np.asarray(back.compute()), expected), ("stored", np.asarray(back.shape, dtype=float), np.asarray(shp, dtype=float))]
            finally:
                shutil.rmtree(d, ignore_errors=True)
        raise ValueError(mode)

    def requires(entry, tier, mode):
        return "unknown" not in entry and ".sum()" not in entry

    def ensures(result, entry, tier, mode):
        import numpy as np
        ok_written = ok_untouched = ok_extra = True
        for item in result:
            if isinstance(item[0], str):
                if item[0] == "untouched-before-compute":
                    ok_extra = ok_extra and bool((item[1] == -7.0).all())
                else:
                    ok_extra = ok_extra and _same(item[1], item[2])
                continue
            tgt, reg, expected = item
            ok_written = ok_written and _same(tgt[reg], np.asarray(expected, dtype=float))
            mask = np.ones(tgt.shape, dtype=bool)
            mask[reg] = False
            ok_untouched = ok_untouched and bool((tgt[mask] == -7.0).all())
        return {"written-region-equals-source": ok_written, "outside-region-untouched": ok_untouched, "mode-specific": ok_extra}

    def domain(tier, rng):
        modes = ["whole", "region", "strided"] if tier == "quick" else ["whole", "region", "strided", "two", "delayed", "return_stored", "return_stored_loaded", "npy_stack", "npy_stack_reuse", "lazy_stored_indexed"]
        names = list(entries(tier, 0))
        for i, name in enumerate(names):
            for m in modes:
                yield {"entry": name, "tier": tier, "mode": m}
        if tier == "quick":
            for name in names[::7]:
                for m in ("two", "delayed", "return_stored", "return_stored_loaded", "npy_stack", "npy_stack_reuse", "lazy_stored_indexed"):
                    yield {"entry": name, "tier": tier, "mode": m}


@contract("dask_array/_map_blocks.py::map_blocks", spec="block_info", props=["C20"])
class map_blocks_block_info:
    """every invocation receives the chunk location, array location and chunk shape of the layout advertised when
    map_blocks was called, and the block it is given has exactly that shape."""
    bounded_only = True
    params = {"entry": "const", "tier": "const", "post": "const"}
    scope = "catalogue entries with known chunks; block_info and block_id consumers; followed by nothing / a slice / a rechunk"

    def call(fn, entry, tier, post):
        import numpy as np
        x, expected, info = build(entry, tier)
        log = []

        def f(block, block_info=None, block_id=None):
            bi = block_info[0] if block_info else None
            log.append((np.shape(block), None if bi is None else dict(bi), block_id))
            return block

        y = fn(f, x, dtype=x.dtype)
        layout = x.chunks
        if post == "slice":
            y = y[1:] if y.ndim else y
        elif post == "rechunk":
            y = y.rechunk(-1)
        elif post == "sum":
            y = y.sum()
        log.clear()
        y.compute()
        return layout, tuple(x.shape), list(log)

    def requires(entry, tier, post):
        return "unknown" not in entry

    def ensures(result, entry, tier, post):
        layout, shape, log = result
        pre = [[0] for _ in layout]
        for ax, p in zip(layout, pre):
            for c in ax:
                p.append(p[-1] + c)
        ok_shape = ok_loc = ok_id = ok_grid = True
        seen = set()
        for bshape, bi, bid in log:
            if bi is None or bshape == tuple(0 for _ in bshape) and bi is None:
                continue
            loc = tuple(bi["chunk-location"])
            seen.add(loc)
            want_shape = tuple(ax[i] for ax, i in zip(layout, loc))
            if tuple(bshape) != want_shape or ("chunk-shape" in bi and tuple(bi["chunk-shape"]) != want_shape):
                ok_shape = False
            want_arr = [(p[i], p[i + 1]) for p, i in zip(pre, loc)]
            if [tuple(a) for a in bi["array-location"]] != want_arr:
                ok_loc = False
            if tuple(bi["num-chunks"]) != tuple(len(ax) for ax in layout) or tuple(bi["shape"]) != tuple(shape):
                ok_grid = False
            if bid is not None and tuple(bid) != loc:
                ok_id = False
        return {"block-has-advertised-shape": ok_shape, "array-location": ok_loc, "grid": ok_grid, "block_id": ok_id}

    def domain(tier, rng):
        for name in entries(tier, 0):
            for post in ("none", "slice", "rechunk", "sum"):
                yield {"entry": name, "tier": tier, "post": post}


@contract("dask_array/_map_blocks.py::map_blocks", spec="block-info-multi", props=["C20"])
class map_blocks_block_info_multi:
    """several array inputs of equal or lower rank (aligned to the trailing axes, possibly broadcast), with drop_axis /
    new_axis: for every invocation and every input the block handed to the function is exactly the region of the
    source that block_info[i]['array-location'] describes, chunk-location / num-chunks agree with the layout advertised
    when the call was made (an axis the call concatenates counts as one chunk), and block_info[None] describes the
    output block in the advertised output layout"""
    bounded_only = True
    params = {"case": "const", "xch": "const", "ych": "const"}
    scope = ("x 4x6 (5 layouts) with y of shape (6,), (4,1), (1,6) or (4,6) (layouts per axis), a 3-D x with a 2-D y; "
             "drop_axis None / 0 / 1, new_axis 0; block_info consumers")

    def call(fn, case, xch, ych):
        import numpy as np
        import dask_array as da
        kind, drop, new = case
        if kind == "3d":
            a = np.arange(48.0).reshape(2, 4, 6)
            b = np.arange(24.0).reshape(4, 6) * 7
        else:
            a = np.arange(24.0).reshape(4, 6)
            b = {"vec": np.arange(6.0) * 10, "col": np.arange(4.0).reshape(4, 1) * 10, "row": np.arange(6.0).reshape(1, 6) * 10,
                 "full": np.arange(24.0).reshape(4, 6) * 10}[kind]
        x = da.from_array(a, chunks=xch) + 0
        y = da.from_array(b, chunks=ych) + 0
        adv = [x.chunks, y.chunks]
        log = []

        tag = repr((case, xch, ych))  # captured, so that functions of different cases never share a token

        def f(xb, yb, block_info=None):
            log.append(([np.array(xb), np.array(yb)], {k: dict(v) for k, v in block_info.items()}, tag))
            return np.zeros(block_info[None]["chunk-shape"], dtype="f8")

        kw = {}
        if drop is not None:
            kw["drop_axis"] = drop
        if new is not None:
            kw["new_axis"] = new
        out = fn(f, x, y, dtype="f8", meta=np.array((), dtype="f8"), **kw)
        out_chunks = out.chunks
        # something above and below for the optimiser to work on
        res = (out + 1)[..., 1:].compute(scheduler="sync")
        return [a, b], adv, out_chunks, tuple(out.shape), log, res.shape

    def requires(case, xch, ych):
        return True

    def ensures(result, case, xch, ych):
        import numpy as np
        srcs, adv, out_chunks, out_shape, log, res_shape = result
        kind, drop, new = case
        ok = {"function-ran": bool(log), "block-is-the-region-array-location-describes": True,
              "array-location-is-an-advertised-chunk-or-a-concatenated-axis": True, "chunk-location-and-num-chunks": True,
              "output-entry-describes-the-advertised-output-layout": True}
        max_ndim = max(s.ndim for s in srcs)
        dropped = set() if drop is None else {drop % max_ndim}
        for blocks, info, _tag in log:
            for i, (src, chunks) in enumerate(zip(srcs, adv)):
                bi = info[i]
                aloc = [(int(p), int(q)) for p, q in bi["array-location"]]
                blk = blocks[i]
                if tuple(q - p for p, q in aloc) != blk.shape or not np.array_equal(blk, src[tuple(slice(p, q) for p, q in aloc)]):
                    ok["block-is-the-region-array-location-describes"] = False
                off = max_ndim - src.ndim
                for ax in range(src.ndim):
                    cs = np.concatenate([[0], np.cumsum(chunks[ax])]).tolist()
                    p, q = aloc[ax]
                    loc = int(bi["chunk-location"][ax])
                    nch = int(bi["num-chunks"][ax])
                    if (ax + off) in dropped:
                        good = (p, q) == (0, src.shape[ax]) and loc == 0 and nch == 1
                        if not good:
                            ok["array-location-is-an-advertised-chunk-or-a-concatenated-axis"] = False
                    else:
                        if not (0 <= loc < len(chunks[ax]) and (p, q) == (cs[loc], cs[loc + 1])):
                            ok["array-location-is-an-advertised-chunk-or-a-concatenated-axis"] = False
                        if nch != len(chunks[ax]):
                            ok["chunk-location-and-num-chunks"] = False
                if tuple(bi["shape"]) != src.shape:
                    ok["chunk-location-and-num-chunks"] = False
            o = info[None]
            loc = tuple(o["chunk-location"])
            want_shape = tuple(out_chunks[ax][k] for ax, k in enumerate(loc))
            cs = [np.concatenate([[0], np.cumsum(c)]).tolist() for c in out_chunks]
            want_loc = [(cs[ax][k], cs[ax][k + 1]) for ax, k in enumerate(loc)]
            if tuple(o["chunk-shape"]) != want_shape or [tuple(map(int, t)) for t in o["array-location"]] != want_loc \
                    or tuple(o["num-chunks"]) != tuple(len(c) for c in out_chunks) or tuple(o["shape"]) != out_shape:
                ok["output-entry-describes-the-advertised-output-layout"] = False
        return ok

    def domain(tier, rng):
        xlay = [((4,), (6,)), ((2, 2), (3, 3)), ((1, 3), (2, 4)), ((4,), (1, 2, 3)), ((2, 1, 1), (6,))]
        seen = set()
        for drop, new in ((None, None), (0, None), (1, None), (None, 0)):
            for xch in xlay:
                for kind in ("vec", "col", "row", "full"):
                    # map_blocks does not align its inputs: the lower-rank operand carries x's chunks along the shared axes
                    ych = {"vec": (xch[1],), "col": (xch[0], (1,)), "row": ((1,), xch[1]), "full": xch}[kind]
                    if drop is not None and kind in ("col", "row"):
                        continue
                    key = (kind, drop, new, xch, ych)
                    if key not in seen:
                        seen.add(key)
                        yield {"case": (kind, drop, new), "xch": xch, "ych": ych}
                    if kind == "full":
                        # the same shape and the same number of blocks per axis, but cut at other places: map_blocks pairs
                        # blocks by position, and every input's block_info entry must describe that input's own layout
                        ych2 = tuple(tuple(reversed(c)) for c in xch)
                        key = (kind, drop, new, xch, ych2)
                        if ych2 != xch and key not in seen and drop is None and new is None:
                            seen.add(key)
                            yield {"case": (kind, drop, new), "xch": xch, "ych": ych2}
        for drop in (None, 0, 1, 2):
            for ych in (((4,), (6,)), ((2, 2), (3, 3)), ((1, 3), (6,))):
                yield {"case": ("3d", drop, None), "xch": ((1, 1),) + ych, "ych": ych}


@contract("dask_array/_map_blocks.py::map_blocks", spec="new-axis-multi-chunk", props=["C20", "C02"])
class map_blocks_new_axis_multi:
    """a new axis with MORE THAN ONE block (explicit chunks=), and map_blocks without array inputs (every output axis is
    new): the function is invoked exactly once per advertised output block, each time with that block's chunk-location,
    array-location, chunk-shape and block_id -- standalone and with an elementwise op below and/or above, which makes the
    optimiser emit the layer through the fused Blockwise path"""
    bounded_only = True
    params = {"case": "const", "wrap": "const"}
    scope = "x of 6 elements / 4x6 in 3 layouts, new_axis 0 / 1 / last with 2 or 3 blocks, no-input form; 4 placements"

    def call(fn, case, wrap):
        import numpy as np
        import dask_array as da
        kind, xch, new, newch = case
        log = []
        tag = repr((case, wrap))

        def f(*blocks, block_info=None, block_id=None):
            o = block_info[None]
            log.append((tuple(block_id), tuple(o["chunk-location"]), [tuple(map(int, t)) for t in o["array-location"]],
                        tuple(o["chunk-shape"]), tuple(o["num-chunks"]), tuple(o["shape"]), tag))
            return np.full(o["chunk-shape"], float(sum(10 ** i * k for i, k in enumerate(block_id))), dtype="f8")

        below = wrap in ("below", "both")
        above = wrap in ("above", "both")
        if kind == "noinput":
            out = fn(f, chunks=newch, dtype="f8", meta=np.array((), dtype="f8"))
        else:
            a = np.arange(6.0) if kind == "1d" else np.arange(24.0).reshape(4, 6)
            x = da.from_array(a, chunks=xch)
            if below:
                x = x * 1.0
            ch = list(x.chunks)
            ch.insert(new if new >= 0 else len(ch) + 1 + new, newch)
            out = fn(f, x, new_axis=new if new >= 0 else x.ndim, chunks=tuple(ch), dtype="f8", meta=np.array((), dtype="f8"))
        adv = out.chunks
        y = out + 1 if above else out
        log.clear()
        res = y.compute(scheduler="sync")
        return adv, list(log), res, 1.0 if above else 0.0

    def requires(case, wrap):
        return True

    def ensures(result, case, wrap):
        import numpy as np
        from itertools import product
        adv, log, res, off = result
        cs = [np.concatenate([[0], np.cumsum(c)]).astype(int).tolist() for c in adv]
        grid = tuple(len(c) for c in adv)
        shape = tuple(sum(c) for c in adv)
        want = sorted((loc, loc, [(cs[ax][k], cs[ax][k + 1]) for ax, k in enumerate(loc)],
                       tuple(adv[ax][k] for ax, k in enumerate(loc)), grid, shape)
                      for loc in product(*(range(n) for n in grid)))
        got = sorted(t[:6] for t in log)
        expected = np.zeros(shape)
        for loc in product(*(range(n) for n in grid)):
            expected[tuple(slice(cs[ax][k], cs[ax][k + 1]) for ax, k in enumerate(loc))] = float(sum(10 ** i * k for i, k in enumerate(loc)))
        return {"one-invocation-per-advertised-block-with-its-own-location": got == want,
                "values-come-from-the-right-block": res.shape == shape and bool(np.array_equal(res, expected + off))}

    def domain(tier, rng):
        wraps = ("none", "below", "above", "both")
        cases = []
        for xch in ((6,), (3, 3), (1, 2, 3)):
            for new in (0, -1):
                for newch in ((1, 1), (2, 1), (1, 1, 1)):
                    cases.append(("1d", (xch,), new, newch))
        for xch in (((4,), (6,)), ((2, 2), (3, 3)), ((1, 3), (2, 4))):
            for new in (0, 1, -1):
                for newch in ((1, 1), (1, 2)):
                    cases.append(("2d", xch, new, newch))
        for newch in (((2, 2),), ((1, 1), (3,)), ((2, 1), (1, 2)), ((1, 1, 1), (2, 2), (1,))):
            cases.append(("noinput", None, None, newch))
        for c in cases:
            for w in wraps:
                if c[0] == "noinput" and w in ("below", "both"):
                    continue
                yield {"case": c, "wrap": w}


@contract("dask_array/_collection.py::Array.compute_chunk_sizes", spec="catalogue", props=["C28"])
class compute_chunk_sizes_catalogue:
    """compute_chunk_sizes sets each chunk to the true size of that block; later operations compute NumPy's result"""
    bounded_only = True
    params = {"entry": "const", "tier": "const"}
    scope = "catalogue entries (unknown-chunks entries and all others)"

    def call(fn, entry, tier):
        import dask
        x, expected, info = build(entry, tier)
        y = fn(x)
        blocks = dask.get(y.__dask_graph__(), y.__dask_keys__())
        return y, blocks, expected

    def requires(entry, tier):
        return True

    def ensures(result, entry, tier):
        import numpy as np
        y, blocks, expected = result
        r = {"chunks-known": _numeric_known(y), "chunks-equal-block-shapes": block_shapes_ok(y, blocks) == []}
        if expected is not None:
            r["values"] = _same(y.compute(), expected)
            if y.ndim == 1 and np.size(expected) > 1:
                r["later-slice"] = _same(y[1:].compute(), np.asarray(expected)[1:])
        return r

    def domain(tier, rng):
        yield from entry_domain(tier, rng)


@contract("dask_array/slicing/_blocks.py::blocks_getitem", spec="catalogue", props=["C12"])
class blocks_catalogue:
    """.blocks[i] is the concatenation of the selected blocks of the advertised layout"""
    bounded_only = True
    params = {"entry": "const", "tier": "const"}
    scope = "catalogue entries with known chunks; block selections: each single block along axis 0, a slice of blocks, reversed"

    def real():
        return lambda x, idx: x.blocks[idx]

    def call(fn, entry, tier):
        import numpy as np
        x, expected, info = build(entry, tier)
        if expected is None:
            # an entry without an independent NumPy reference: the blocks must be pieces of what computing the whole gives
            expected = np.asarray(x.compute())
        if x.ndim == 0:
            return None
        nb = x.numblocks[0]
        sels = [i for i in range(nb)] + [slice(0, max(1, nb - 1)), slice(None, None, -1)]
        return x.chunks, expected, [(s, np.asarray(fn(x, s).compute())) for s in sels]

    def requires(entry, tier):
        return "unknown" not in entry and ".sum()" not in entry

    def ensures(result, entry, tier):
        import numpy as np
        if result is None:
            return {}
        chunks, expected, got = result
        pre = [0]
        for c in chunks[0]:
            pre.append(pre[-1] + c)
        ok = True
        for s, val in got:
            ids = [s] if isinstance(s, int) else list(range(len(chunks[0])))[s]
            want = np.concatenate([np.asarray(expected)[pre[i]:pre[i + 1]] for i in ids]) if ids else np.asarray(expected)[:0]
            ok = ok and _same(val, want)
        return {"selected-blocks-of-advertised-layout": ok}

    def domain(tier, rng):
        yield from entry_domain(tier, rng)


@contract("dask_array/slicing/_basic.py::slice_slices_and_integers", spec="unknown", props=["C28"])
class unknown_sizes_refused:
    """an operation that needs sizes that are still unknown raises instead of returning a wrongly shaped result"""
    bounded_only = True
    params = {"n": "const", "chunks": "const", "op": "const"}
    scope = "boolean-mask selections of 1-D arrays of length <= 7 (all chunkings up to 3 blocks); ops: slices, ints, rechunk, reverse, take, elementwise, reductions, cov/corrcoef, cumsum, concatenate, apply_along_axis, diff, reshape, dot, average, where"

    def real():
        return lambda y, op: op(y)

    def call(fn, n, chunks, op):
        import numpy as np
        import dask_array as da
        d = np.arange(n) * 3 % 7
        x = da.from_array(d, chunks=(chunks,))
        y = x[x > 2]
        want = d[d > 2]
        ops = {
            "full": (lambda a: a[:], lambda w: w[:]),
            "slice": (lambda a: a[1:], lambda w: w[1:]),
            "int": (lambda a: a[0], lambda w: w[0]),
            "rev": (lambda a: a[::-1], lambda w: w[::-1]),
            "rechunk2": (lambda a: a.rechunk(2), lambda w: w),
            "rechunk-1": (lambda a: a.rechunk(-1), lambda w: w),
            "take": (lambda a: a[[0]], lambda w: w[[0]]),
            "plus": (lambda a: a + 1, lambda w: w + 1),
            "sum": (lambda a: a.sum(), lambda w: w.sum()),
            "plus-known": (lambda a: a + x, lambda w: w + d),
            # statistics that normalise by the (unknown) number of observations, and more routines that need sizes
            "cov-with-index": (lambda a: da.cov(da.stack([a, a * a])), lambda w: np.cov(np.stack([w, w * w]))),
            "corrcoef-with-square": (lambda a: da.corrcoef(da.stack([a, a * a + a])), lambda w: np.corrcoef(np.stack([w, w * w + w]))),
            "mean": (lambda a: a.mean(), lambda w: w.mean()),
            "var": (lambda a: a.var(), lambda w: w.var()),
            "std(ddof=1)": (lambda a: a.std(ddof=1), lambda w: w.std(ddof=1)),
            "cumsum": (lambda a: a.cumsum(axis=0), lambda w: w.cumsum()),
            "concat-self": (lambda a: da.concatenate([a, a]), lambda w: np.concatenate([w, w])),
            "apply_along_axis(sum)": (lambda a: da.apply_along_axis(np.sum, 0, a), lambda w: np.apply_along_axis(np.sum, 0, w)),
            "max": (lambda a: a.max(), lambda w: w.max()),
            "argmax": (lambda a: a.argmax(), lambda w: w.argmax()),
            "diff": (lambda a: da.diff(a), lambda w: np.diff(w)),
            "reshape(-1,1)": (lambda a: a.reshape(-1, 1), lambda w: w.reshape(-1, 1)),
            "dot-self": (lambda a: da.dot(a, a), lambda w: np.dot(w, w)),
            "average": (lambda a: da.average(a), lambda w: np.average(w)),
            "where": (lambda a: da.where(a > 4, a, -a), lambda w: np.where(w > 4, w, -w)),
            # an unknown-size operand next to known-size ones
            "concat-known-first": (lambda a: da.concatenate([x, a]), lambda w: np.concatenate([d, w])),
            "concat-known-last": (lambda a: da.concatenate([a, x, a]), lambda w: np.concatenate([w, d, w])),
            "append-known": (lambda a: da.append(a, [7, 7]), lambda w: np.append(w, [7, 7])),
            "hstack-known": (lambda a: da.hstack([x, a]), lambda w: np.hstack([d, w])),
            # routines whose block offsets / shapes come from the (unknown) chunk sizes
            "searchsorted-unknown-a": (lambda a: da.searchsorted(_sorted_sel(), da.from_array(np.array([0, 3, 5, 9]), chunks=2)),
                                       lambda w: np.searchsorted(np.sort(d)[np.sort(d) > 2], np.array([0, 3, 5, 9]))),
            "numpy-mask-one-too-long": (lambda a: a[np.array([True] * (len(want) + 1))], lambda w: w[np.array([True] * (len(w) + 1))]),
            "int-index-2d": (lambda a: a[[[0, 1], [0, 0]]], lambda w: w[[[0, 1], [0, 0]]]),
        }
        def _sorted_sel():
            xs = da.from_array(np.sort(d), chunks=(chunks,))
            return xs[xs > 2]
        f, g = ops[op]
        import warnings
        try:
            with warnings.catch_warnings():
                warnings.simplefilter("ignore")
                got = np.asarray(fn(y, f).compute())
        except (ValueError, NotImplementedError) as e:
            return ("refused", str(e)[:80], None)
        except IndexError as e:
            return ("index-error", str(e)[:80], None)
        try:
            with warnings.catch_warnings():
                warnings.simplefilter("ignore")
                w = g(want)
        except (IndexError, ValueError):
            return ("numpy-refuses", None, got)
        return ("computed", got, np.asarray(w))

    def requires(n, chunks, op):
        return True

    def ensures(result, n, chunks, op):
        kind, a, b = result
        if op == "plus-known":
            # elementwise op between an unknown-size array and an operand of known length: NumPy's result, or a refusal
            ok = kind in ("refused", "index-error") or (kind == "computed" and _same(a, b))
            return {"elemwise-unknown-with-known-operand": ok}
        if kind == "computed":
            return {"result-equals-numpy": _same(a, b)}
        return {"refused-not-wrong": kind in ("refused", "index-error")}

    def domain(tier, rng):
        for n in range(1, 8):
            for ch in cat.layouts_1d(n, "quick"):
                for op in ("full", "slice", "int", "rev", "rechunk2", "rechunk-1", "take", "plus", "sum", "plus-known"):
                    yield {"n": n, "chunks": ch, "op": op}
                if n >= 5 and len(ch) >= 2:
                    for op in ("cov-with-index", "corrcoef-with-square", "mean", "var", "std(ddof=1)", "cumsum", "concat-self",
                               "apply_along_axis(sum)", "max", "argmax", "diff", "reshape(-1,1)", "dot-self", "average", "where",
                               "concat-known-first", "concat-known-last", "append-known", "hstack-known", "searchsorted-unknown-a",
                               "numpy-mask-one-too-long", "int-index-2d"):
                        yield {"n": n, "chunks": ch, "op": op}


# ---------------------------------------------------------------------------
# C02: every fired rewrite preserves the denoted array
# ---------------------------------------------------------------------------
_RW = {}


def rw_entries(tier):
    import random
    if tier not in _RW:
        _RW[tier] = dict(cat.rewrite_targets(tier, random.Random(0)))
    return _RW[tier]


def _eval_unoptimized(expr):
    """value of an expression with simplify/fuse switched off (lowering only)"""
    import dask
    import numpy as np
    from dask_array._new_collection import new_collection
    # NOT `.compute()`: with array.optimize-graph=False the collection's own graph is the un-simplified one, but dask's
    # compute() optimises the expression again on its way to the scheduler (observed: x.map_blocks(np.cumsum)[2:4]).
    # The graph is taken from the collection and handed to the scheduler directly.
    with dask.config.set({"array.optimize-graph": False}):
        c = new_collection(expr)
        graph = dict(c.__dask_graph__())
        keys = c.__dask_keys__()
        finalize, extra = c.__dask_postcompute__()
    return np.asarray(finalize(dask.get(graph, keys), *extra))


class _RewriteRecorder:
    HOOKS = ("_simplify_down", "_simplify_up", "_lower")

    def __init__(self):
        self.records = []
        self.patched = []

    def __enter__(self):
        import functools
        from dask_array._expr import ArrayExpr
        seen, stack = set(), [ArrayExpr]
        while stack:
            c = stack.pop()
            if c in seen:
                continue
            seen.add(c)
            stack.extend(c.__subclasses__())
        rec = self.records
        for cls in seen:
            for hook in self.HOOKS:
                if hook in cls.__dict__:
                    orig = cls.__dict__[hook]

                    def make(orig=orig, hook=hook):
                        @functools.wraps(orig)
                        def wrapper(self_, *a, **k):
                            out = orig(self_, *a, **k)
                            if out is not None:
                                before = a[0] if hook == "_simplify_up" else self_
                                if getattr(out, "_name", None) != before._name:
                                    rec.append((f"{type(self_).__name__}.{hook}", before, out))
                            return out
                        return wrapper
                    setattr(cls, hook, make())
                    self.patched.append((cls, hook, orig))
        return self

    def __exit__(self, *exc):
        for cls, hook, orig in reversed(self.patched):
            setattr(cls, hook, orig)


@contract("dask_array/_materialize.py::_lower", spec="rewrites", props=["C02", "C14", "C24"])
class rewrites_preserve_values:
    """each rewrite that fires during simplify / lower replaces a subexpression by one denoting the same array
    (same values, shape, dtype); the raw, simplified, lowered and fused forms compute identical values."""
    bounded_only = True
    params = {"entry": "const", "tier": "const", "big": "const"}
    scope = ("compositions chosen to fire slice/rechunk/shuffle pushdowns, nested-op fusion, sliding-window substitution, chunk "
             "unification and rechunk-into-IO over 1-D/2-D sources with several layouts (NumPy and recording sources with a storage "
             "grid); each also with the NumPy eager-slice byte limit set to 0, so that the deferred-region path taken by sources "
             "over 64 MiB is exercised at small scale")

    def real():
        return lambda x: x

    def call(fn, entry, tier, big):
        import numpy as np
        import dask
        import dask_array.io._from_array as fa
        saved = fa._NUMPY_SLICE_PUSHDOWN_NBYTES_LIMIT
        if big:
            fa._NUMPY_SLICE_PUSHDOWN_NBYTES_LIMIT = 0
        try:
            return rewrites_preserve_values._run(entry, tier)
        finally:
            fa._NUMPY_SLICE_PUSHDOWN_NBYTES_LIMIT = saved

    def _run(entry, tier):
        import numpy as np
        import dask
        x, expected, info = rw_entries(tier)[entry]()
        with _RewriteRecorder() as rec:
            simplified = x.expr.simplify()
            lowered = simplified.lower_completely()
            fused = lowered.fuse()
        phases = {}
        for name, e in (("raw", x.expr), ("simplified", simplified), ("lowered", lowered), ("fused", fused)):
            try:
                phases[name] = _eval_unoptimized(e)
            except Exception as ex:  # a phase that cannot be evaluated is reported, not hidden
                phases[name] = ex
        pairs = []
        for rule, before, after in rec.records:
            try:
                b = _eval_unoptimized(before)
                a = _eval_unoptimized(after)
                pairs.append((rule, b, a, None))
            except Exception as ex:
                pairs.append((rule, None, None, f"{type(ex).__name__}: {ex}"))
        return expected, phases, pairs, (x.shape, x.dtype)

    def requires(entry, tier, big):
        return True

    def ensures(result, entry, tier, big):
        import numpy as np
        expected, phases, pairs, meta = result
        r = {}
        if expected is None:
            # no independent NumPy reference: the raw (unoptimised) form is the reference for the other phases
            expected = phases["raw"]
            r["raw-form-is-computable"] = not isinstance(expected, Exception)
            if isinstance(expected, Exception):
                return r
        for name, v in phases.items():
            r[f"phase-{name}-equals-numpy"] = (not isinstance(v, Exception)) and _same(v, expected)
        bad = [rule for rule, b, a, err in pairs if err is None and not (_same(a, b) and np.asarray(a).dtype == np.asarray(b).dtype)]
        errs = [f"{rule}: {err}" for rule, b, a, err in pairs if err is not None]
        r["every-fired-rewrite-preserves-values"] = bad == []
        r["rewritten-expressions-are-computable"] = errs == []
        return r

    def normalize_result(result):
        return result

    def domain(tier, rng):
        for name in rw_entries(tier):
            yield {"entry": name, "tier": tier, "big": False}
            if "/np/" in name:
                yield {"entry": name, "tier": tier, "big": True}


# ---------------------------------------------------------------------------
# C12: integer list / array indexing (take -> shuffle), vindex, boolean masks
# ---------------------------------------------------------------------------
@contract("dask_array/slicing/_basic.py::take", spec="lists", props=["C12"])
class take_lists:
    """x[list] / x[ndarray] / x[:, list] / x.vindex[list] return what NumPy returns, including full-length lists
    that permute or repeat elements inside a chunk (the identity fast path must only fire for the identity)."""
    bounded_only = True
    params = {"n": "const", "chunks": "const", "index": "const", "form": "const"}
    scope = ("1-D arrays of length 4 (all 256 full-length lists) and 6/8 (structured full-length lists: per-chunk groups with "
             "fixed or moved end points, repeats, reversals; all short lists of length <= 2), several chunkings; forms: "
             "list, ndarray, 2-D column take, vindex")

    def real():
        return lambda x, idx, form: None

    def call(fn, n, chunks, index, form):
        import numpy as np
        import dask_array as da
        d = np.arange(n) * 10
        if form == "col":
            d2 = np.stack([d, d + 1, d + 2])
            x = da.from_array(d2, chunks=((2, 1), chunks))
            return np.asarray(x[:, list(index)].compute()), d2[:, list(index)]
        x = da.from_array(d, chunks=(chunks,))
        if form == "list":
            got = x[list(index)]
        elif form == "ndarray":
            got = x[np.array(index, dtype=int)]
        elif form == "vindex":
            got = x.vindex[list(index)]
        else:
            raise ValueError(form)
        return np.asarray(got.compute()), d[list(index)]

    def requires(n, chunks, index, form):
        return len(index) > 0

    def ensures(result, n, chunks, index, form):
        got, want = result
        return {"values-equal-numpy": _same(got, want)}

    def domain(tier, rng):
        import itertools
        for ch in [(4,), (2, 2), (3, 1), (1, 3)]:
            for idx in itertools.product(range(4), repeat=4):
                yield {"n": 4, "chunks": ch, "index": idx, "form": "list"}
        short = [(-1,), (0, 0), (5, 0), (2, 3), (3, 2), (-1, -6)]
        for n, layouts in ((6, [(3, 3), (4, 2), (6,)]), (8, [(4, 4), (3, 5), (8,)])):
            for ch in layouts:
                groups = []
                start = 0
                for c in ch:
                    opts = []
                    rngc = list(range(start, start + c))
                    for mid in itertools.product(rngc, repeat=max(0, c - 2)):
                        opts.append((rngc[0],) + mid + ((rngc[-1],) if c > 1 else ()))
                    opts.append(tuple(rngc[::-1]))
                    if tier == "quick" and len(opts) > 12:
                        opts = opts[:: max(1, len(opts) // 12)] + [tuple(rngc[::-1])]
                    groups.append(opts)
                    start += c
                for combo in itertools.product(*groups):
                    idx = tuple(i for g in combo for i in g)
                    for form in ("list", "ndarray") if tier == "quick" else ("list", "ndarray", "vindex", "col"):
                        yield {"n": n, "chunks": ch, "index": idx, "form": form}
                for idx in short:
                    for form in ("list", "vindex", "col"):
                        yield {"n": n, "chunks": ch, "index": idx, "form": form}


@contract("dask_array/_chunk.py::slice_with_int_dask_array_aggregate", spec="int-dask-index", props=["C12"])
class int_dask_index:
    """x[idx] with idx an integer *dask* array returns what NumPy returns, and raises IndexError (at the latest when
    computed) as soon as any entry is out of bounds -- also when other entries are in bounds"""
    bounded_only = True
    params = {"n": "const", "chunks": "const", "index": "const", "ichunks": "const"}
    scope = "1-D arrays of length 4 and 6, all index vectors of length <= 3 over [-n-1, n], several layouts of x and of the index"
    raises = {"IndexError": lambda n, chunks, index, ichunks: any(i >= n or i < -n for i in index)}

    def real():
        return lambda x, idx: x[idx]

    def call(fn, n, chunks, index, ichunks):
        import numpy as np
        import dask_array as da
        d = np.arange(n) * 10 + 1
        x = da.from_array(d, chunks=(chunks,))
        idx = da.from_array(np.array(index, dtype="i8"), chunks=ichunks)
        got = np.asarray(fn(x, idx).compute())
        inb = all(-n <= i < n for i in index)
        return got, (d[list(index)] if inb else None)

    def requires(n, chunks, index, ichunks):
        return len(index) > 0

    def ensures(result, n, chunks, index, ichunks):
        got, want = result
        if want is None:
            return {"out-of-bounds-entry-raises": False}
        return {"values-equal-numpy": _same(got, want)}

    def domain(tier, rng):
        import itertools
        for n, layouts in ((4, [(2, 2), (4,), (1, 3)]), (6, [(3, 3), (2, 2, 2)])):
            vals = list(range(-n - 1, n + 1))
            for ch in layouts:
                for k in (1, 2, 3):
                    combos = list(itertools.product(vals, repeat=k))
                    if tier == "quick" and len(combos) > 150:
                        combos = rng.sample(combos, 150)
                    for idx in combos:
                        for ich in ((k,), (1,) * k) if k > 1 else ((1,),):
                            yield {"n": n, "chunks": ch, "index": idx, "ichunks": (ich,)}
        yield {"n": 4, "chunks": (2, 2), "index": (0, 4), "ichunks": ((2,),)}
        yield {"n": 4, "chunks": (2, 2), "index": (1, -5, 2), "ichunks": ((3,),)}


@contract("dask_array/slicing/_utils.py::sanitize_index", spec="float-arrays", props=["C12"])
class float_index_arrays:
    """index arrays of floats: integer-valued ones select like their integer cast (accepted by design), anything else is
    an unsupported index and raises IndexError -- however large the values are"""
    bounded_only = True
    params = {"n": "const", "values": "const"}
    scope = "1-D arrays of length 10 and 200001 (chunked), float index vectors around small and large positions with fractional parts 0, 1e-9, 1e-4, 0.4, 0.5"
    raises = {"IndexError": lambda n, values: any(float(v) != int(v) and abs(v - round(v)) > 1e-8 for v in values)}

    def real():
        return lambda x, idx: x[idx]

    def call(fn, n, values):
        import numpy as np
        import dask_array as da
        x = da.arange(n, chunks=max(1, n // 4))
        got = np.asarray(fn(x, np.array(values, dtype="f8")).compute())
        return got, np.array([int(round(v)) for v in values])

    def requires(n, values):
        return all(0 <= v < n - 1 for v in values)

    def ensures(result, n, values):
        got, want = result
        return {"integer-valued-floats-select-like-ints": _same(got, want)}

    def domain(tier, rng):
        for n, bases in ((10, [0, 3, 8]), (200001, [0, 7, 1000, 100000, 199999])):
            for b in bases:
                for frac in (0.0, 1e-9, 1e-4, 0.4, 0.5, -0.4):
                    if b + frac >= 0:
                        yield {"n": n, "values": (b + frac,)}
                        yield {"n": n, "values": (1.0, b + frac)}


# ---------------------------------------------------------------------------
# C14: rechunk
# ---------------------------------------------------------------------------
@contract("dask_array/_rechunk.py::rechunk", spec="specs", props=["C14"])
class rechunk_specs:
    """x.rechunk(spec) has the chunks that normalising the spec against x's shape and chunks gives, and the same values"""
    bounded_only = True
    params = {"shape": "const", "chunks": "const", "spec": "const", "kwargs": "const", "post": "const"}
    scope = ("1-D (12) and 2-D (5x6) sources with 4 layouts each; specs: ints, tuples, dicts, -1, None, 'auto', byte strings, "
             "explicit tuples, balance=True, block_size_limit; followed by nothing / a slice / a transpose / +1")

    def real():
        return lambda x, spec, **kw: x.rechunk(spec, **kw)

    def call(fn, shape, chunks, spec, kwargs, post):
        import numpy as np
        import dask_array as da
        d = np.arange(int(np.prod(shape)), dtype="f8").reshape(shape)
        x = da.from_array(d, chunks=chunks)
        kwargs = dict(kwargs)
        pre = kwargs.pop("__pre__", None)
        # the rechunk applied on top of a transpose / an elemwise op / another (balanced) rechunk: optimisation pushes it
        # through, and the optimised collection must still have the requested chunks
        if pre == "T" and len(shape) == 2:
            x, d = x.T, d.T
            shape = d.shape
        elif pre == "plus":
            x, d = x + 1, d + 1
        elif pre == "rechunk-balanced":
            x = x.rechunk(tuple(4 for _ in shape), balance=True)
        y = fn(x, spec, **kwargs)
        want = d
        z = y
        if post == "slice":
            z, want = y[1:], d[1:]
        elif post == "T":
            z, want = y.T, d.T
        elif post == "plus":
            z, want = y + 1, d + 1
        return x.chunks, y.chunks, np.asarray(z.compute()), want, y.optimize().chunks, tuple(int(n) for n in d.shape)

    def requires(shape, chunks, spec, kwargs, post):
        return True

    def ensures(result, shape, chunks, spec, kwargs, post):
        import numpy as np
        from dask_array._core_utils import normalize_chunks
        old, new, got, want, optimized, shape = result
        kwargs = {k: v for k, v in kwargs.items() if k != "__pre__"}
        r = {"values-unchanged": _same(got, want),
             "optimized-collection-keeps-the-requested-chunks": chunks_equal(optimized, new),
             "valid-layout": all(len(ax) >= 1 and all(isinstance(c, int) and c >= 0 for c in ax) and sum(ax) == n
                                 for ax, n in zip(new, shape)) and len(new) == len(shape)}
        if not kwargs.get("balance"):
            s = spec
            if isinstance(s, dict):
                s = tuple(s.get(i, None) if s.get(i, None) is not None else old[i] for i in range(len(shape)))
                s = tuple(old[i] if (i not in spec and (i - len(shape)) not in spec) else
                          (spec.get(i, spec.get(i - len(shape))) if spec.get(i, spec.get(i - len(shape))) is not None else old[i])
                          for i in range(len(shape)))
            elif isinstance(s, (tuple, list)):
                s = tuple(c if c is not None else o for c, o in zip(s, old))
            want_chunks = normalize_chunks(s, shape, limit=kwargs.get("block_size_limit"), dtype=np.dtype("f8"), previous_chunks=old)
            r["requested-chunks"] = chunks_equal(new, want_chunks)
        return r

    def domain(tier, rng):
        one = [((12,), c) for c in [((4, 4, 4),), ((5, 7),), ((1, 2, 9),), ((12,),)]]
        two = [((5, 6), c) for c in [((2, 3), (3, 3)), ((5,), (2, 2, 2)), ((1, 4), (6,)), ((2, 2, 1), (1, 5))]]
        specs1 = [5, (5,), -1, {0: 3}, {-1: 4}, "auto", "32B", ((2, 10),), (None,), 1, 12, 100]
        specs2 = [2, (2, 3), (-1, 2), (None, 3), {1: 2}, {0: -1}, "auto", "64B", ((5,), (1, 5)), (1, -1), ("auto", 2)]
        posts = ["none", "slice"] if tier == "quick" else ["none", "slice", "T", "plus"]
        for (shape, ch), specs in [(x, specs1) for x in one] + [(x, specs2) for x in two]:
            for spec in specs:
                if spec is None and len(shape) > 1:
                    continue
                for post in posts:
                    yield {"shape": shape, "chunks": ch, "spec": spec, "kwargs": {}, "post": post}
            yield {"shape": shape, "chunks": ch, "spec": 5 if len(shape) == 1 else (2, 4), "kwargs": {"balance": True}, "post": "none"}
            yield {"shape": shape, "chunks": ch, "spec": "auto", "kwargs": {"block_size_limit": 40}, "post": "none"}
            for pre in ("T", "plus", "rechunk-balanced"):
                sp = 5 if len(shape) == 1 else (4, 4)
                yield {"shape": shape, "chunks": ch, "spec": sp, "kwargs": {"__pre__": pre}, "post": "none"}
                yield {"shape": shape, "chunks": ch, "spec": sp, "kwargs": {"__pre__": pre, "balance": True}, "post": "none"}
                yield {"shape": shape, "chunks": ch, "spec": 5 if len(shape) == 1 else (3, 5), "kwargs": {"__pre__": pre, "balance": True}, "post": "slice"}
                yield {"shape": shape, "chunks": ch, "spec": "auto", "kwargs": {"__pre__": pre, "block_size_limit": 48}, "post": "none"}
        for ch in [((3, 3, 3, 1), (3, 3, 3, 1)), ((2, 8), (5, 5))]:
            for pre in ("T", "plus", "rechunk-balanced"):
                yield {"shape": (10, 10), "chunks": ch, "spec": (4, 4), "kwargs": {"__pre__": pre, "balance": True}, "post": "none"}
                yield {"shape": (10, 10), "chunks": ch, "spec": (3, 10), "kwargs": {"__pre__": pre}, "post": "none"}


# ---------------------------------------------------------------------------
# C18: reductions
# ---------------------------------------------------------------------------
@contract("dask_array/reductions/_reduction.py::reduction", spec="numpy", props=["C18"])
class reductions_numpy:
    """every reduction over any axes, keepdims and split_every gives NumPy's result whatever the chunking and fan-in"""
    bounded_only = True
    params = {"func": "const", "chunks": "const", "axis": "const", "keepdims": "const", "split_every": "const", "nanpat": "const"}
    scope = ("4x6 float data, four NaN patterns (sparse, block-local all-NaN lanes, dense, a whole NaN row) for the nan-variants; 28 reducers (incl. central moments of order 3-5 on skewed data, ptp, count_nonzero, average, topk/argtopk); axes None/0/1/(0,1); keepdims; split_every None/1/2/3/{0:2,1:3}/{0:1,1:4}; "
             "layouts from single block to 1x1 blocks")

    def real():
        return lambda x, func, **kw: getattr(x, func)(**kw)

    def call(fn, func, chunks, axis, keepdims, split_every, nanpat):
        import numpy as np
        import dask_array as da
        d = (np.arange(24.0).reshape(4, 6) * 7 % 11) - 3
        if func.startswith("nan"):
            d = d.copy()
            pats = {
                0: [(1, 2), (3, 0)],
                1: [(0, 0), (0, 1), (1, 0), (2, 1), (3, 2), (0, 4), (1, 4), (2, 5)],   # lanes all-NaN inside a block only
                2: [(r, c) for r in range(4) for c in range(6) if (r * 5 + c * 3) % 4 == 0],
                3: [(0, c) for c in range(6)] + [(2, 1), (3, 3)],                       # a whole row of NaNs
            }
            for rc in pats[nanpat]:
                d[rc] = np.nan
        x = da.from_array(d, chunks=chunks)
        kw = {"axis": axis, "keepdims": keepdims}
        if func.startswith("moment"):
            # central moments of order 3..5 on skewed data: the odd powers see the sign of every per-group deviation
            order = int(func[6:])
            d = d ** 2 / 7.0 + d
            x = da.from_array(d, chunks=chunks)
            dfun = lambda a, **k: da.moment(a, order, **k)
            nfun = lambda a, axis, keepdims: np.mean((a - np.mean(a, axis=axis, keepdims=True)) ** order, axis=axis, keepdims=keepdims)
        elif func in ("ptp", "count_nonzero"):
            kw = {"axis": axis}
            dfun, nfun = getattr(da, func), getattr(np, func)
            if keepdims or split_every is not None:
                return None
        elif func == "average":
            w = np.arange(1.0, 7.0)
            if axis != 1 or split_every is not None:
                return None
            dfun = lambda a, **k: da.average(a, weights=da.from_array(w, chunks=chunks[1]), **k)
            nfun = lambda a, **k: np.average(a, weights=w, **k)
        elif func.startswith(("topk", "argtopk")):
            if axis not in (0, 1) or keepdims:
                return None
            kw = {"axis": axis}
            base = "argtopk" if func.startswith("argtopk") else "topk"
            kk = int(func[len(base):] or 2)       # "topk" -> 2; "topk6": k at least the axis length (4 or 6)
            dd = d + np.arange(24.0).reshape(4, 6) / 100.0  # distinct values: the order of ties is unspecified
            x = da.from_array(dd, chunks=chunks)
            d = dd
            dfun = lambda a, **k: getattr(da, base)(a, kk, **k)
            if base == "topk":
                nfun = lambda a, axis: np.flip(np.sort(a, axis=axis), axis=axis).take(range(min(kk, a.shape[axis])), axis=axis)
            else:
                nfun = lambda a, axis: np.flip(np.argsort(a, axis=axis), axis=axis).take(range(min(kk, a.shape[axis])), axis=axis)
        else:
            dfun = getattr(da, func)
            nfun = getattr(np, func)
        if split_every is not None:
            got = dfun(x, split_every=split_every, **kw)
        else:
            got = dfun(x, **kw)
        return np.asarray(got.compute()), np.asarray(nfun(d, **kw)), got.numblocks

    def requires(func, chunks, axis, keepdims, split_every, nanpat):
        if func in ("argmin", "argmax", "nanargmin", "nanargmax") and isinstance(axis, tuple):
            return False
        if func in ("nanargmin", "nanargmax") and nanpat == 3 and axis in (1, None):
            return axis is None  # an all-NaN lane along the reduced axis: NumPy raises
        return True

    def ensures(result, func, chunks, axis, keepdims, split_every, nanpat):
        if result is None:
            return {}
        got, want, nb = result
        return {"equals-numpy": _same(got, want)}

    def domain(tier, rng):
        funcs = ["sum", "prod", "min", "max", "any", "all", "mean", "var", "std", "nansum", "nanmean", "nanmax", "nanmin", "nanvar",
                 "nanprod", "argmin", "argmax", "nanargmax", "nanargmin", "nanstd", "moment3", "moment4", "moment5", "ptp",
                 "count_nonzero", "average", "topk", "argtopk", "topk6", "argtopk6", "argtopk4"]
        layouts = [((4,), (6,)), ((2, 2), (3, 3)), ((1, 1, 1, 1), (1,) * 6), ((3, 1), (1, 5)), ((1, 3), (2, 2, 2))]
        axes = [None, 0, 1, (0, 1)]
        ses = [None, 2, 3, {0: 2, 1: 3}, {0: 1, 1: 4}, 1]
        combos = [(f, l, a, k, s, p) for f in funcs for l in layouts for a in axes for k in (False, True) for s in ses
                  for p in ((0, 1, 2, 3) if f.startswith("nan") else (0,))]
        if tier == "quick":
            nan_arg = [c for c in combos if c[0] in ("nanargmax", "nanargmin") and c[4] is None and not c[3]]
            deep = [c for c in combos if c[0].startswith("moment") and c[4] == 2 and not c[3] and c[2] in (None, 0)]
            bigk = [c for c in combos if c[0] in ("topk6", "argtopk6", "argtopk4") and c[2] in (0, 1) and not c[3] and c[4] in (None, 2)]
            combos = rng.sample(combos, 700) + nan_arg + deep + bigk
        for f, l, a, k, s, p in combos:
            yield {"func": f, "chunks": l, "axis": a, "keepdims": k, "split_every": s, "nanpat": p}


@contract("dask_array/reductions/_reduction.py::reduction", spec="ties-and-empty-blocks", props=["C18"])
class reductions_ties_empty:
    """arg-reductions on data with many ties (NumPy returns the first occurrence in flat / lane order -- whatever block
    the tie sits in), and every reducer over layouts that contain zero-width blocks on the reduced axis, with and without
    an intermediate combine level"""
    bounded_only = True
    params = {"func": "const", "data": "const", "chunks": "const", "axis": "const", "split_every": "const"}
    scope = ("2x4 and 4x6 integer-valued float data with ties; layouts incl. zero-width blocks; 14 reducers; axis None/0/1; "
             "split_every None/2")

    def real():
        return lambda x, func, **kw: getattr(x, func)(**kw)

    def call(fn, func, data, chunks, axis, split_every):
        import numpy as np
        import dask_array as da
        d = {"t24": np.array([[5.0, 5, 5, 0], [0, 5, 5, 5]]),
             "t46": (np.arange(24.0).reshape(4, 6) * 5 % 3),
             "v6": np.arange(6.0),
             "m62": np.arange(12.0).reshape(6, 2)}[data]
        x = da.from_array(d, chunks=chunks)
        kw = {} if split_every is None else {"split_every": split_every}
        got = getattr(da, func)(x, axis=axis, **kw)
        return np.asarray(got.compute()), np.asarray(getattr(np, func)(d, axis=axis))

    def requires(func, data, chunks, axis, split_every):
        return True

    def ensures(result, func, data, chunks, axis, split_every):
        got, want = result
        return {"equals-numpy": _same(got, want)}

    def domain(tier, rng):
        args = ["argmin", "argmax", "nanargmin", "nanargmax"]
        others = ["sum", "mean", "var", "std", "min", "max", "nanmin", "nanmax", "prod", "any"]
        for f in args:
            for lay in (((2,), (2, 2)), ((1, 1), (2, 2)), ((1, 1), (1, 3)), ((2,), (4,)), ((1, 1), (1, 1, 1, 1))):
                for ax in (None, 0, 1):
                    for se in (None, 2):
                        yield {"func": f, "data": "t24", "chunks": lay, "axis": ax, "split_every": se}
            for lay in (((2, 2), (3, 3)), ((1, 3), (2, 2, 2)), ((4,), (1, 5)), ((2, 0, 2), (3, 3)), ((2, 2), (3, 0, 3))):
                for ax in (None, 0, 1):
                    yield {"func": f, "data": "t46", "chunks": lay, "axis": ax, "split_every": None}
        for f in others + args:
            for lay in (((2, 0, 4),), ((2, 0, 3, 1),), ((0, 6),), ((3, 3, 0),)):
                for se in (None, 2):
                    yield {"func": f, "data": "v6", "chunks": lay, "axis": 0 if f in args else None, "split_every": se}
            for lay in (((2, 0, 4), (2,)), ((2, 0, 3, 1), (1, 1)), ((6,), (1, 0, 1))):
                for ax in (0, 1):
                    for se in (None, 2):
                        yield {"func": f, "data": "m62", "chunks": lay, "axis": ax, "split_every": se}


@contract("dask_array/reductions/_reduction.py::_build_tree_reduce_expr", spec="depth", props=["C18"])
class tree_depth:
    """assumption A3 of the cascade proof, validated on the real function: the number of PartialReduce layers that
    _build_tree_reduce_expr stacks (its depth, computed with a float logarithm) satisfies k_a ** depth >= n_a for every
    reduced axis a with n_a blocks and per-axis fan-in k_a -- so the last layer sees at most k_a blocks and leaves one.
    The real function is called on a stand-in input that only has `numblocks` (no data, no graph); for small n the built
    expression is also computed"""
    bounded_only = True
    params = {"nb": "const", "axis": "const", "k": "const"}
    scope = ("1 reduced axis: every n <= 2000 (quick) / 200000 (thorough) and every n within 3 of a power k**e <= 10**9, "
             "2 <= k <= 16, int and dict split_every; 2 reduced axes: block counts around powers; built expressions for n <= 40")

    def call(fn, nb, axis, k):
        import numpy as np
        from dask_array.reductions._reduction import PartialReduce, _normalize_split_every

        class Stub:
            numblocks = tuple(nb)

        s = Stub()
        r = fn(s, np.sum, axis, True, np.dtype("f8"), k, None, "sum", False, None)
        depth = 0
        while isinstance(r, PartialReduce):
            depth += 1
            r = r.operands[0]
        fan = _normalize_split_every(k, axis)
        built = None
        if len(nb) == 1 and nb[0] <= 40:
            import dask_array as da
            x = da.from_array(np.arange(nb[0]), chunks=1)
            red = x.sum(split_every=k)
            built = (red.numblocks, int(red.compute()), int(np.arange(nb[0]).sum()))
        return depth, r is s, dict(fan), built

    def requires(nb, axis, k):
        return all(n >= 1 for n in nb)

    def ensures(result, nb, axis, k):
        depth, reached, fan, built = result
        r = {"layers-stack-on-the-input": reached and depth >= 1,
             "depth-suffices": all(fan[a] ** depth >= nb[a] for a in axis),
             "fan-in-at-least-2": all(fan[a] >= 2 for a in axis)}
        if built is not None:
            r["single-block-and-value"] = built[0] == () and built[1] == built[2]
        return r

    def domain(tier, rng):
        top = 2000 if tier == "quick" else 200000
        seen = set()
        for k in range(2, 17):
            for n in range(1, top + 1):
                if n <= 40 or n % 7 == 0 or any(abs(n - k ** e) <= 1 for e in range(1, 18)):
                    yield {"nb": (n,), "axis": (0,), "k": k}
            e = 1
            while k ** e <= 10 ** 9:
                for d in (-3, -2, -1, 0, 1, 2, 3):
                    n = k ** e + d
                    if n > top:
                        yield {"nb": (n,), "axis": (0,), "k": k}
                        yield {"nb": (n,), "axis": (0,), "k": {0: k}}
                e += 1
        # two reduced axes: the integer fan-in is split between them (k ** (1/2), at least 2); dict form per axis
        for k in (2, 4, 9, 16, 25, 100):
            kk = max(int(k ** 0.5), 2)
            for e0 in range(1, 12):
                for d in (-1, 0, 1):
                    n = kk ** e0 + d
                    if n < 1 or n > 10 ** 7:
                        continue
                    for m in (1, 3, kk ** 2 + 1, kk ** e0):
                        if m <= 10 ** 7:
                            yield {"nb": (n, m), "axis": (0, 1), "k": k}
                            yield {"nb": (m, n, 5), "axis": (1, 0), "k": {0: 2, 1: kk}}


# ---------------------------------------------------------------------------
# C19: windowed and scan operations
# ---------------------------------------------------------------------------
@contract("dask_array/_overlap.py::sliding_window_view", spec="numpy", props=["C19", "C03"])
class windows_numpy:
    """sliding_window_view (alone and under reductions, windows larger than a block), map_overlap with every boundary kind,
    diff, cumulative scans (sequential and blelloch) compute the NumPy definition for every chunking"""
    bounded_only = True
    params = {"op": "const", "chunks": "const", "w": "const"}
    scope = "1-D data of length 9 with all chunkings of <= 4 blocks (quick: sampled), windows 1..6, 2-D 4x5 for axis variants"

    def real():
        return lambda *a: None

    def call(fn, op, chunks, w):
        import numpy as np
        import dask_array as da
        swv = np.lib.stride_tricks.sliding_window_view
        d = (np.arange(9.0) * 5 % 7) + 1
        x = da.from_array(d, chunks=(chunks,))
        if op == "swv":
            return np.asarray(da.sliding_window_view(x, w).compute()), swv(d, w)
        if op == "swv-multi":
            # several windows at once, over distinct axes of a 2-D array and twice over the same axis (NumPy applies
            # the windows one after another, so a repeated axis loses the sum of the (window - 1)s)
            d2 = (np.arange(40.0).reshape(8, 5) * 3) % 11
            x2 = da.from_array(d2, chunks=(chunks[:1] + (8 - chunks[0],) if 0 < chunks[0] < 8 else (8,), (2, 3)))
            out = []
            for ws, ax in (((2, w), (0, 0)), ((w, 2), (0, 1)), ((2, 2, w), (0, 1, 0))):
                try:
                    want = swv(d2, ws, axis=ax)
                except ValueError:
                    continue
                got = da.sliding_window_view(x2, ws, axis=ax)
                out.append((np.asarray(got.compute()), want, got.shape))
            ok = all(_same(g, w_) and tuple(sh) == w_.shape for g, w_, sh in out)
            return (np.array(1.0), np.array(1.0)) if ok else (out[0][0] if out else np.array(0.0), np.array(-1.0))
        if op.startswith("swv-"):
            red = op[4:]
            y = getattr(da.sliding_window_view(x, w), red)(axis=-1)
            return np.asarray(y.compute()), getattr(swv(d, w), red)(axis=-1), y.chunks
        if op.startswith("overlap-"):
            b = op[8:]
            bnd = {"none": "none", "reflect": "reflect", "periodic": "periodic", "nearest": "nearest", "const": 0.0}[b]
            depth = min(w, 3)
            f = lambda blk: blk * 2 + 1
            y = x.map_overlap(f, depth=depth, boundary=bnd, dtype="f8")
            return np.asarray(y.compute()), d * 2 + 1
        if op.startswith("halo-"):
            # a block function that USES its halo (centred window sum), the full result against np.pad, and slices of the
            # lazy result -- near both edges, inside, touching an edge -- against slices of the full result
            b = op[5:]
            bnd = {"none": "none", "reflect": "reflect", "periodic": "periodic", "nearest": "nearest", "const": 0.0}[b]
            mode = {"none": ("constant", {}), "reflect": ("symmetric", {}), "periodic": ("wrap", {}), "nearest": ("edge", {}),
                    "const": ("constant", {})}[b]
            depth = w
            if min(chunks) < depth or (b in ("reflect", "periodic") and len(d) < depth):
                return None, None
            kern = np.ones(2 * depth + 1)
            f = lambda blk: np.convolve(blk, kern, mode="same")
            y = x.map_overlap(f, depth=depth, boundary=bnd, dtype="f8")
            ref = swv(np.pad(d, depth, mode=mode[0], **mode[1]), 2 * depth + 1).sum(-1)
            full = np.asarray(y.compute())
            if not _same(full, ref):
                return full, ref
            n = len(d)
            for a_, b_ in ((1, 7), (2, 8), (1, 3), (0, 4), (5, n), (3, 6), (1, n), (0, n - 1), (n - 2, n), (2, n - 1)):
                got = np.asarray(x.map_overlap(f, depth=depth, boundary=bnd, dtype="f8")[a_:b_].compute())
                if not _same(got, ref[a_:b_]):
                    return got, ref[a_:b_]
            return full, ref
        if op == "scan-widening-dtype":
            # float32 data scanned in float64: block totals must be accumulated in the requested dtype too
            f = ((np.arange(9 * 40) * 7919 % 1000) / 7.0).astype("f4")
            xx = da.from_array(f, chunks=tuple(40 * c for c in chunks))
            for name in ("cumsum", "nancumsum"):
                for method in ("sequential", "blelloch"):
                    got = np.asarray(getattr(da, name)(xx, axis=0, dtype="f8", method=method).compute())
                    want = getattr(np, name)(f, dtype="f8")
                    if got.dtype != want.dtype or not np.allclose(got, want, rtol=1e-12, atol=1e-9):
                        return got, want
            return np.array(1.0), np.array(1.0)
        if op == "newaxis-trim":
            # a block function that adds an axis: the trimmed result has the input's extents on the old axes
            b2 = np.arange(80.0).reshape(8, 10)
            y2 = da.from_array(b2, chunks=(4, 5))
            cases = [(0, lambda v: v[None], b2[None]), (2, lambda v: v[..., None], b2[..., None]), (1, lambda v: v[:, None], b2[:, None])]
            for na, f, ref in cases:
                for depth in ({0: 1, 1: 2}, {0: 2, 1: 1}, 1):
                    r = da.map_overlap(f, y2, depth=depth, boundary="reflect", new_axis=na, dtype=float)
                    got = np.asarray(r.compute())
                    if tuple(r.shape) != ref.shape or got.shape != ref.shape or not _same(got, ref):
                        return got, ref
            return np.array(1.0), np.array(1.0)
        if op == "diff":
            return np.asarray(da.diff(x, n=min(w, 3)).compute()), np.diff(d, n=min(w, 3))
        if op in ("cumsum", "cumprod"):
            for method in ("sequential", "blelloch"):
                got = np.asarray(getattr(da, op)(x, axis=0, method=method).compute())
                if not _same(got, getattr(np, op)(d)):
                    return got, getattr(np, op)(d)
            return got, getattr(np, op)(d)
        if op == "scan-blocks":
            # cumulative scans over many blocks (the parallel prefix tree depends on the block count)
            nblk = w
            dd = (np.arange(2 * nblk) * 7 % 5 - 2.0)
            dd[dd == 0] = 1.5
            xx = da.from_array(dd, chunks=2)
            for name in ("cumsum", "cumprod"):
                for method in ("sequential", "blelloch"):
                    got = np.asarray(getattr(da, name)(xx, axis=0, method=method).compute())
                    want = getattr(np, name)(dd)
                    if not _same(got, want):
                        return got, want
            return got, want
        if op == "gradient":
            if min(chunks) < 2:
                return None, None
            g = da.gradient(x)
            g = g[0] if isinstance(g, (list, tuple)) else g
            return np.asarray(g.compute()), np.gradient(d)
        raise ValueError(op)

    def requires(op, chunks, w):
        return not (op.startswith("swv") and w > 9)

    def ensures(result, op, chunks, w):
        if result[0] is None:
            return {}
        r = {"equals-numpy": _same(result[0], result[1])}
        if len(result) > 2:
            r["advertised-chunks-sum"] = all(sum(ax) == n for ax, n in zip(result[2], result[1].shape))
        return r

    def domain(tier, rng):
        lays = [c for c in cat.compositions(9) if len(c) <= 4]
        if tier == "quick":
            lays = rng.sample(lays, 14) + [(9,), (3, 3, 3), (1, 1, 7), (2, 2, 2, 3)]
        ops = ["swv", "swv-multi", "swv-sum", "swv-max", "swv-mean", "swv-min", "overlap-none", "overlap-reflect", "overlap-periodic",
               "overlap-nearest", "overlap-const", "halo-none", "halo-reflect", "halo-periodic", "halo-nearest", "halo-const",
               "diff", "cumsum", "cumprod", "gradient"]
        for c in lays:
            for op in ops:
                ws = (range(2, 5) if op == "swv-multi" else range(1, 7)) if op.startswith("swv") else ((1, 2) if op.startswith("overlap") or op == "diff" else ((1, 2, 3) if op.startswith("halo") else (1,)))
                for w in ws:
                    yield {"op": op, "chunks": c, "w": w}
        for nblk in range(1, 35 if tier == "quick" else 70):
            yield {"op": "scan-blocks", "chunks": (9,), "w": nblk}
        for c in [(9,), (3, 3, 3), (1, 1, 7), (2, 2, 2, 3), (4, 5)]:
            yield {"op": "scan-widening-dtype", "chunks": c, "w": 1}
        yield {"op": "newaxis-trim", "chunks": (9,), "w": 1}


# ---------------------------------------------------------------------------
# C17: chunk unification
# ---------------------------------------------------------------------------
@contract("dask_array/_expr.py::unify_chunks_expr", spec="same-operand-two-labels", props=["C17"])
class unify_chunks_same_operand:
    """one array passed twice to a blockwise / contraction call under different index labels (a @ a, einsum('ij,jk'),
    blockwise(f, 'ik', a, 'ij', a, 'jk')): every returned operand has the common layout of *its own* labels, and the
    product computes NumPy's values"""
    bounded_only = True
    params = {"rows": "const", "cols": "const", "policy": "const"}
    scope = "square 6x6 arrays whose row and column layouts differ (all pairs of 7 layouts), policies auto/refine/coarse"

    def real():
        from dask_array._expr import unify_chunks_expr
        return unify_chunks_expr

    def call(fn, rows, cols, policy):
        import warnings
        import numpy as np
        import dask
        import dask_array as da
        d = np.arange(36.0).reshape(6, 6) % 7
        a = da.from_array(d, chunks=(rows, cols))
        with dask.config.set({"array.unify-chunks-policy": policy}):
            with warnings.catch_warnings():
                warnings.simplefilter("ignore")
                chunkss, arrays, changed = fn(a.expr, ("i", "j"), a.expr, ("j", "k"), warn=False)
                got = np.asarray((a @ a).compute())
                e = np.asarray(da.einsum("ij,jk->ik", a, a).compute())
        return [x.chunks for x in arrays], dict(chunkss), got, e, d @ d

    def requires(rows, cols, policy):
        return True

    def ensures(result, rows, cols, policy):
        (c0, c1), chunkss, got, e, want = result
        per_label = (tuple(c0[0]) == tuple(chunkss["i"]) and tuple(c0[1]) == tuple(chunkss["j"])
                     and tuple(c1[0]) == tuple(chunkss["j"]) and tuple(c1[1]) == tuple(chunkss["k"]))
        return {"each-occurrence-has-the-layout-of-its-own-labels": per_label,
                "matmul-values": _same(got, want), "einsum-values": _same(e, want)}

    def domain(tier, rng):
        ls = [(6,), (3, 3), (2, 4), (4, 2), (1, 5), (2, 2, 2), (1, 2, 3)]
        for pol in ("auto", "refine", "coarse"):
            for r in ls:
                for c in ls:
                    yield {"rows": r, "cols": c, "policy": pol}


@contract("dask_array/_expr.py::unify_chunks_expr", spec="pairs", props=["C17"])
class unify_chunks_pairs:
    """operands with different chunkings are brought to one common layout per index (broadcast axes excepted); under
    'refine' every unified layout only splits each operand's blocks; under any policy no operand's block grows beyond the
    larger of array.unify-chunks-limit and its own largest block; values are unchanged"""
    bounded_only = True
    params = {"la": "const", "lb": "const", "policy": "const", "limit": "const", "mode": "const"}
    scope = ("pairs of 1-D layouts of extent 12 (all pairs of 9 layouts incl. largest-chunk-not-first ones) and 2-D (6x4) pairs, "
             "policies auto/refine/coarse, limits 16 B .. 1 MiB, plain and broadcasting operands")

    def real():
        from dask_array._expr import unify_chunks_expr
        return unify_chunks_expr

    def call(fn, la, lb, policy, limit, mode):
        import warnings
        import numpy as np
        import dask
        import dask_array as da
        if mode == "1d":
            d = np.arange(12.0)
            x = da.from_array(d, chunks=(la,))
            y = da.from_array(d * 2, chunks=(lb,))
            inds = ("i", "i")
            want = d + d * 2
        elif mode == "2d":
            d = np.arange(24.0).reshape(6, 4)
            x = da.from_array(d, chunks=(la, (4,)))
            y = da.from_array(d * 2, chunks=(lb, (2, 2)))
            inds = ("ij", "ij")
            want = d + d * 2
        else:  # broadcasting: y has a length-1 axis
            d = np.arange(24.0).reshape(6, 4)
            x = da.from_array(d, chunks=(la, (4,)))
            y = da.from_array(d[:, :1] * 2, chunks=(lb, (1,)))
            inds = ("ij", "ij")
            want = d + d[:, :1] * 2
        with dask.config.set({"array.unify-chunks-policy": policy, "array.unify-chunks-limit": limit}):
            with warnings.catch_warnings():
                warnings.simplefilter("ignore")
                chunkss, arrays, changed = fn(x.expr, tuple(inds[0]), y.expr, tuple(inds[1]), warn=False)
                got = np.asarray((x + y).compute())
        return [(a.chunks, o.chunks, o.shape, o.dtype.itemsize) for a, o in zip(arrays, (x, y))], dict(chunkss), got, want

    def requires(la, lb, policy, limit, mode):
        return True

    def ensures(result, la, lb, policy, limit, mode):
        import math
        ops, chunkss, got, want = result

        def bounds(t):
            out, acc = set(), 0
            for c in t:
                acc += c
                out.add(acc)
            return out
        common = True
        only_splits = True
        no_growth = True
        for new, old, shape, itemsize in ops:
            for ax, (n, o) in enumerate(zip(new, old)):
                if shape[ax] > 1 and tuple(n) != tuple(chunkss["ij"[ax] if len(shape) == 2 else "i"]):
                    common = False
                if not bounds(o) <= bounds(n):
                    only_splits = False
            big_new = itemsize * math.prod(max(c) for c in new)
            big_old = itemsize * math.prod(max(c) for c in old)
            if big_new > max(limit, big_old):
                no_growth = False
        r = {"one-common-layout-per-index": common, "no-block-grows-beyond-limit": no_growth, "values": _same(got, want)}
        if policy == "refine":
            r["refine-only-splits"] = only_splits
        return r

    def domain(tier, rng):
        l1 = [(12,), (6, 6), (4, 4, 4), (3, 9), (9, 3), (1, 11), (2, 2, 8), (8, 2, 2), (1, 5, 6)]
        l2 = [(6,), (3, 3), (1, 5), (5, 1), (2, 4), (1, 1, 4)]
        limits = [0, 16, 48, 64, 1 << 20]
        for pol in ("auto", "refine", "coarse"):
            for lim in limits:
                for a in l1:
                    for b in l1:
                        yield {"la": a, "lb": b, "policy": pol, "limit": lim, "mode": "1d"}
                for a in l2:
                    for b in l2:
                        yield {"la": a, "lb": b, "policy": pol, "limit": lim, "mode": "2d"}
                        if tier != "quick" or lim in (48, 1 << 20):
                            yield {"la": a, "lb": b, "policy": pol, "limit": lim, "mode": "bcast"}


@contract("dask_array/_expr.py::unify_chunks_expr", spec="triples", props=["C17"])
class unify_chunks_triples:
    """three operands (two panels over ij and a vector over j): one common layout per index, 'refine' only splits, no
    operand's block grows beyond max(array.unify-chunks-limit, its own largest block), values unchanged"""
    bounded_only = True
    params = {"lay": "const", "policy": "const", "limit": "const"}
    scope = ("where(mask, panel, vector) over a 16x16 grid: row layouts of mask/panel and column layouts of mask/panel/vector "
             "from 4 layouts each (nested and interleaved), policies auto/refine/coarse, limits 64 B .. 4 KiB")

    def real():
        from dask_array._expr import unify_chunks_expr
        return unify_chunks_expr

    def call(fn, lay, policy, limit):
        import warnings
        import numpy as np
        import dask
        import dask_array as da
        ra, rb, ca, cb, cv = lay
        m = (np.arange(256).reshape(16, 16) % 3 == 0)
        pnl = np.arange(256.0).reshape(16, 16)
        vec = np.arange(16.0) * 100
        a = da.from_array(m, chunks=(ra, ca))
        b = da.from_array(pnl, chunks=(rb, cb))
        v = da.from_array(vec, chunks=(cv,))
        with dask.config.set({"array.unify-chunks-policy": policy, "array.unify-chunks-limit": limit}):
            with warnings.catch_warnings():
                warnings.simplefilter("ignore")
                chunkss, arrays, changed = fn(a.expr, ("i", "j"), b.expr, ("i", "j"), v.expr, ("j",), warn=False)
                # the layouts are checked on every case; the values on a fixed quarter of them (computing dominates the cost)
                import zlib
                got = np.asarray(da.where(a, b, v).compute()) if zlib.crc32(repr((lay, policy, limit)).encode()) % 4 == 0 else None
        ops = [(x.chunks, o.chunks, o.shape, o.dtype.itemsize, ind) for x, o, ind in zip(arrays, (a, b, v), ("ij", "ij", "j"))]
        return ops, dict(chunkss), got, np.where(m, pnl, vec)

    def requires(lay, policy, limit):
        return True

    def ensures(result, lay, policy, limit):
        import math
        ops, chunkss, got, want = result

        def bounds(t):
            out, acc = set(), 0
            for c in t:
                acc += c
                out.add(acc)
            return out
        common = only_splits = no_growth = True
        for new, old, shape, itemsize, ind in ops:
            for ax, (n, o) in enumerate(zip(new, old)):
                if shape[ax] > 1 and tuple(n) != tuple(chunkss[ind[ax]]):
                    common = False
                if not bounds(o) <= bounds(n):
                    only_splits = False
            if itemsize * math.prod(max(c) for c in new) > max(limit, itemsize * math.prod(max(c) for c in old)):
                no_growth = False
        r = {"one-common-layout-per-index": common, "no-block-grows-beyond-limit": no_growth,
             "values": True if got is None else _same(got, want)}
        if policy == "refine":
            r["refine-only-splits"] = only_splits
        return r

    def domain(tier, rng):
        lays = [(2,) * 8, (8, 8), (16,), (4, 4, 8)] + ([(3, 5, 8), (1,) * 16] if tier != "quick" else [])
        for pol in ("auto", "refine", "coarse"):
            for lim in (64, 256, 1024, 4096):
                for ra in lays:
                    for rb in lays:
                        for ca in lays:
                            for cb in (lays if tier != "quick" else lays[:2]):
                                for cv in lays:
                                    yield {"lay": (ra, rb, ca, cb, cv), "policy": pol, "limit": lim}


# ---------------------------------------------------------------------------
# C04 / C11: in-place operations keep keys, names and other collections consistent
# ---------------------------------------------------------------------------
@contract("dask_array/_collection.py::Array._replace_expr", spec="sequences", props=["C04", "C11"])
class inplace_sequences:
    """after x[index] = value / out=x / x.compute_chunk_sizes(): x's advertised keys are the grid of its (new) name and are
    defined by its graph; x computes NumPy's result of the same assignment; collections derived earlier keep their values;
    the source array is unmodified"""
    bounded_only = True
    params = {"chunks": "const", "op": "const", "touch": "const"}
    scope = "1-D length 12 / 2-D 3x4 arrays, 4 layouts; ops: setitem (int, slice, reversed slice, mask, masked value), out=, compute_chunk_sizes; with and without reading keys/to_delayed before the operation"
    clause_props = {"values-equal-numpy-assignment": ["C11"], "earlier-derived-collections-unchanged": ["C11"],
                    "source-unmodified": ["C11"], "to_delayed-agrees": ["C11", "C04"]}

    def real():
        return lambda x: x

    def call(fn, chunks, op, touch):
        import numpy as np
        import dask
        import dask_array as da
        from dask.core import flatten
        a = np.arange(12.0) * 3
        src = a.copy()
        x = da.from_array(a, chunks=(chunks,))
        # collections derived before the operation; the last three are derivations that change nothing (same-layout
        # rechunk, copy, ravel of a 1-D array) but hand back a collection of their own.  Not included: x[:], x[...],
        # astype/reshape/broadcast_to to the same dtype/shape and asarray(x), which return x itself on the pinned tree
        # (pinned by tests/test_slicing.py "assert a is a[:]") and are therefore the same collection, not another one.
        derived = {"plus": x + 1, "slice": x[2:9], "rev": x[::-1], "rechunk-same": x.rechunk(x.chunks),
                   "rechunk-same-int": x.rechunk({0: chunks}), "copy": x.copy(), "ravel": x.ravel()}
        derived_want = {"plus": src + 1, "slice": src[2:9], "rev": src[::-1], "rechunk-same": src.copy(),
                        "rechunk-same-int": src.copy(), "copy": src.copy(), "ravel": src.copy()}
        if touch:
            x.__dask_keys__()
            x.to_delayed()
        want = src.copy()
        if op == "set-int":
            x[3] = -1.0
            want[3] = -1.0
        elif op == "set-slice":
            x[2:7] = np.arange(5.0)
            want[2:7] = np.arange(5.0)
        elif op == "set-rev":
            x[9:1:-2] = np.arange(4.0) + 100
            want[9:1:-2] = np.arange(4.0) + 100
        elif op == "set-empty-rev":
            x[-20::-1] = -5.0
            want[-20::-1] = -5.0
        elif op == "set-mask":
            x[x > 20] = 0.0
            want[want > 20] = 0.0
        elif op == "set-masked":
            x[1] = np.ma.masked
            want = np.ma.array(want)
            want[1] = np.ma.masked
        elif op == "out":
            da.add(x, 1, out=x)
            want = want + 1
        elif op.startswith("set-stride"):
            # strides of 3 and more across block edges: the phase of the stride at each block's left edge
            a0, s0 = {"set-stride3": (0, 3), "set-stride5-from-1": (1, 5), "set-stride4-rev": (10, -4), "set-stride3-array": (2, 3)}[op]
            key = slice(a0, None, s0)
            val = (np.arange(len(want[key])) + 50.0) if op == "set-stride3-array" else -1.0
            x[key] = val
            want[key] = val
        elif op == "set-slice-dask-value-many-chunks":
            x[2:7] = da.from_array(np.arange(5.0) + 70, chunks=2)
            want[2:7] = np.arange(5.0) + 70
        elif op == "set-dask-index-many-chunks":
            x[da.from_array(np.array([1, 4, 10]), chunks=1)] = 7.0
            want[[1, 4, 10]] = 7.0
        elif op in ("set-ndarray-key-then-mutate-key", "set-list-key-then-mutate-key", "set-dask-key-then-mutate-key"):
            # the assignment is lazy, but it is the assignment with the index as it was: changing the index object
            # afterwards (NumPy array, list, or a dask index array assigned into in place) must not change x
            if op == "set-ndarray-key-then-mutate-key":
                k = np.array([1, 2])
            elif op == "set-list-key-then-mutate-key":
                k = [1, 2]
            else:
                k = da.from_array(np.array([1, 2]), chunks=2)
            x[(k,)] = -1.0
            want[[1, 2]] = -1.0
            k[0] = 7
        elif op == "ccs":
            x = x[x > 6]
            derived = {"plus": x + 1}
            derived_want = {"plus": src[src > 6] + 1}
            if touch:
                x.__dask_keys__()
            x.compute_chunk_sizes()
            want = src[src > 6]
        keys = list(flatten(x.__dask_keys__()))
        g = x.__dask_graph__()
        got = np.ma.asarray(x.compute()) if op == "set-masked" else np.asarray(x.compute())
        dl = x.to_delayed()
        dvals = np.concatenate([np.atleast_1d(np.ma.filled(v, -99.0)) for v in dask.compute(*list(np.ravel(dl)))])
        dgot = {k: np.asarray(v.compute()) for k, v in derived.items()}
        return {"keys": keys, "name": x.name, "defined": all(k in g for k in keys), "got": got, "want": want,
                "delayed": dvals, "derived": dgot, "derived_want": derived_want, "source_same": bool((a == src).all())}

    def requires(chunks, op, touch):
        return True

    def ensures(result, chunks, op, touch):
        import numpy as np
        r = result
        got, want = r["got"], r["want"]
        vals = _same(np.ma.filled(got, -99.0), np.ma.filled(want, -99.0))
        return {
            "keys-carry-current-name": all(k[0] == r["name"] for k in r["keys"]),
            "graph-defines-advertised-keys": r["defined"],
            "values-equal-numpy-assignment": vals,
            "to_delayed-agrees": _same(r["delayed"], np.ma.filled(want, -99.0)),
            "earlier-derived-collections-unchanged": all(_same(r["derived"][k], r["derived_want"][k]) for k in r["derived"]),
            "source-unmodified": r["source_same"],
        }

    def domain(tier, rng):
        for ch in [(12,), (4, 4, 4), (5, 7), (1, 2, 9)]:
            for op in ("set-int", "set-slice", "set-rev", "set-empty-rev", "set-mask", "set-masked", "out", "ccs",
                       "set-ndarray-key-then-mutate-key", "set-list-key-then-mutate-key", "set-dask-key-then-mutate-key",
                       "set-stride3", "set-stride5-from-1", "set-stride4-rev", "set-stride3-array",
                       "set-slice-dask-value-many-chunks", "set-dask-index-many-chunks"):
                for touch in (False, True):
                    yield {"chunks": ch, "op": op, "touch": touch}


@contract("dask_array/slicing/_setitem.py::setitem_array_expr", spec="mixed-keys-nd", props=["C11"])
class setitem_mixed_keys_nd:
    """x[key] = value on 2-D / 3-D arrays with keys that mix integers with a 1-D list / boolean index and with reversed or
    strided slices, and values that are arrays (not broadcast scalars): x computes NumPy's result of the same assignment
    (an integer index takes no place in the value's shape, so positions in the key and in the value differ)"""
    bounded_only = True
    params = {"shape": "const", "chunks": "const", "key": "const", "scalar": "const"}
    scope = "3x6 and 3x4x6 arrays, 2 layouts each; 16 key patterns; array-valued and scalar values"

    def real():
        return lambda: None

    def call(fn, shape, chunks, key, scalar):
        import numpy as np
        import dask_array as da
        a = np.arange(float(np.prod(shape))).reshape(shape)
        k = tuple(np.array(t[1]) if isinstance(t, tuple) and t and t[0] == "arr" else t for t in key)
        want = a.copy()
        val = -1.0 if scalar else np.arange(float(want[k].size)).reshape(want[k].shape) + 100
        want[k] = val
        x = da.from_array(a.copy(), chunks=chunks)
        x[k] = val
        return np.asarray(x.compute()), want

    def requires(shape, chunks, key, scalar):
        return True

    def ensures(result, shape, chunks, key, scalar):
        got, want = result
        return {"values-equal-numpy-assignment": _same(got, want)}

    def domain(tier, rng):
        L, B = ("arr", [1, 4]), ("arr", [True, False, True, False, False, True])
        k2 = [(0, L), (0, B), (2, slice(None, None, -2)), (slice(None, None, -1), slice(None, None, -2)), (slice(None), L),
              (("arr", [2, 0]), slice(1, 5)), (1, slice(1, None, 3)), (slice(None), slice(4, None, -3))]
        k3 = [(slice(None), 2, ("arr", [3, 0])), (1, ("arr", [3, 0]), slice(None, None, -2)), (1, 2, ("arr", [3, 0, 5])),
              (slice(None, None, -1), 1, slice(None, None, -2)), (1, slice(None), slice(None, None, -2)),
              (slice(0, 2), ("arr", [3, 0]), 4), (slice(None), 1, slice(0, None, 4)), (2, slice(None, None, -1), 3)]
        for chunks in ((2, 3), (3, 2)):
            for key in k2:
                for sc in (False, True):
                    yield {"shape": (3, 6), "chunks": chunks, "key": key, "scalar": sc}
        for chunks in ((2, 2, 3), (1, 4, 2)):
            for key in k3:
                for sc in (False, True):
                    yield {"shape": (3, 4, 6), "chunks": chunks, "key": key, "scalar": sc}


@contract("dask_array/_blockwise.py::Blockwise._accept_slice", spec="block-function-not-pointwise", props=["C02"])
class slice_through_user_block_function:
    """a slice or take above map_blocks / blockwise with a user function selects the same elements whether or not it is
    pushed into the function's input (known finding F43: the fine-grained pushdown assumes the block function is pointwise
    along the indexed axis; a per-block cumsum or reversal is not)"""
    bounded_only = True
    params = {"fn_kind": "const", "chunks": "const", "index": "const"}
    scope = "1-D length 12; per-block cumsum / reversal / pointwise square; slices and takes; raw graph against the optimised one"

    def real():
        return lambda: None

    def call(fn, fn_kind, chunks, index):
        import numpy as np
        import dask_array as da
        x = da.from_array(np.arange(12.0), chunks=(chunks,))
        f = {"cumsum": np.cumsum, "reverse": (lambda b: b[::-1]), "square": (lambda b: b * b)}[fn_kind]
        y = x.map_blocks(f, dtype=float)[index]
        return _eval_unoptimized(y.expr), np.asarray(y.compute())

    def requires(fn_kind, chunks, index):
        return True

    def ensures(result, fn_kind, chunks, index):
        raw, opt = result
        return {"optimised-equals-raw": _same(raw, opt)}

    def domain(tier, rng):
        for k in ("cumsum", "reverse", "square"):
            for ch in ((4, 4, 4), (5, 7), (12,)):
                for idx in (slice(2, 4), slice(None, None, 2), [0, 5, 9], slice(4, 8)):
                    yield {"fn_kind": k, "chunks": ch, "index": idx}


def _bincount_contract(spec, below):
  @contract("dask_array/routines/_bincount.py::bincount", spec=spec, props=["C03"])
  class bincount_minlength:
      """bincount advertises the length it computes (known finding F44: with minlength=m the advertised length is exactly m,
      also when the data holds values >= m and the computed result is longer)"""
      bounded_only = True
      params = {"data": "const", "chunks": "const", "minlength": "const"}
      scope = "small non-negative integer vectors, 3 layouts, minlength 0 / below / at / above max+1"

      def real():
          import dask_array as da
          return da.bincount

      def call(fn, data, chunks, minlength):
          import numpy as np
          import dask_array as da
          a = np.array(data)
          b = fn(da.from_array(a, chunks=(chunks,)), minlength=minlength)
          return tuple(b.shape), b.chunks, np.asarray(b.compute()), np.bincount(a, minlength=minlength)

      def requires(data, chunks, minlength):
          return True

      def ensures(result, data, chunks, minlength):
          import math
          shape, chunks_, got, want = result
          known = not any(isinstance(s, float) and math.isnan(s) for s in shape)
          return {"advertised-length-is-the-computed-length": (not known) or shape == got.shape,
                  "values-equal-numpy": _same(got, want)}

      def domain(tier, rng):
          for data in ((0, 5, 1, 5), (2, 2, 0, 1), (3, 0, 0, 7, 1, 1)):
              for ch in ((2, 2) if len(data) == 4 else (2, 2, 2), (len(data),), (1,) * len(data)):
                  for m in ((3,) if below else (0, max(data) + 1, max(data) + 4)):
                      yield {"data": data, "chunks": ch, "minlength": m}

  bincount_minlength.__name__ = "bincount_" + spec.replace("-", "_")
  return bincount_minlength


BINC1 = _bincount_contract("minlength-below-data", True)
BINC2 = _bincount_contract("minlength-covers-data", False)


@contract("dask_array/io/_store.py::store", spec="identical-targets", props=["C25"])
class store_identical_targets:
    """storing the same source into several distinct targets writes every target (known finding F8: distinct NumPy targets
    with identical initial content collapse into one store task, because targets are tokenized by content)"""
    bounded_only = True
    params = {"chunks": "const", "same_content": "const"}
    scope = "1-D length 10 source stored twice into two distinct NumPy targets, with equal and with different initial content"

    def call(fn, chunks, same_content):
        import numpy as np
        import dask_array as da
        a = da.from_array(np.arange(10.0), chunks=(chunks,))
        t1 = np.zeros(10)
        t2 = np.zeros(10) if same_content else np.ones(10)
        fn([a, a], [t1, t2])
        return t1, t2

    def requires(chunks, same_content):
        return True

    def ensures(result, chunks, same_content):
        import numpy as np
        t1, t2 = result
        return {"every-target-written": _same(t1, np.arange(10.0)) and _same(t2, np.arange(10.0))}

    def domain(tier, rng):
        for ch in [(5, 5), (10,), (3, 3, 4)]:
            for same in (True, False):
                yield {"chunks": ch, "same_content": same}


@contract("dask_array/_collection.py::Array.__setitem__", spec="no-data-access", props=["C29"])
class constructors_touch_no_data:
    """building expressions (incl. in-place assignment of lazy values, where, map_blocks with a user function, stacking,
    reshaping) and reading their metadata never reads a non-empty selection from a non-NumPy source and never calls a
    user block function on a non-empty block; data is read only when the graph is executed"""
    bounded_only = True
    params = {"op": "const", "dtype": "const", "vdtype": "const"}
    scope = "29 constructor kinds (incl. asarray/asanyarray/array and implicit coercion of a raw source) over recording sources (int and float dtypes for targets and values); metadata accessors afterwards"

    def real():
        return lambda: None

    def call(fn, op, dtype, vdtype):
        import numpy as np
        import dask_array as da
        calls = []

        def user(block, *a, **k):
            if np.size(block) > 0:
                calls.append(np.shape(block))
            return block

        s1 = cat.RecordingSource(np.arange(12).astype(dtype))
        s2 = cat.RecordingSource((np.arange(12) * 1.5).astype(vdtype))
        x = da.from_array(s1, chunks=4)
        v = da.from_array(s2, chunks=4)
        if op == "setitem-lazy":
            x[2:6] = v[2:6]
            r = x
        elif op == "setitem-lazy-full":
            x[:] = v
            r = x
        elif op == "setitem-scalar":
            x[3] = 1
            r = x
        elif op == "setitem-mask":
            x[v > 3] = 0
            r = x
        elif op == "where":
            r = da.where(v > 3, x, v)
        elif op == "map_blocks":
            r = x.map_blocks(user, dtype=x.dtype)
        elif op == "map_blocks-info":
            r = da.map_blocks(lambda b, block_info=None: user(b), x, dtype=x.dtype)
        elif op == "map_overlap":
            r = x.map_overlap(user, depth=1, boundary="reflect", dtype=x.dtype)
        elif op == "concat-stack":
            r = da.stack([da.concatenate([x, x]), da.concatenate([x, x])])
        elif op == "reshape-T":
            r = x.reshape(3, 4).T
        elif op == "reduce":
            r = (x * v).sum()
        elif op == "astype-clip":
            r = x.astype("f4").clip(1, 5)
        elif op == "rechunk-slice":
            r = x.rechunk(5)[1:9][::2]
        elif op == "take":
            r = x[[5, 1, 7]]
        elif op == "mask-select":
            r = x[v > 3]
        elif op == "blockwise-apply":
            r = da.blockwise(user, "i", x, "i", dtype=x.dtype)
        elif op == "cumsum":
            r = da.cumsum(x, axis=0)
        elif op == "swv":
            r = da.sliding_window_view(x, 3).sum(-1)
        # the raw source entering through the other import paths (conversion functions and implicit coercion)
        elif op == "asarray":
            r = da.asarray(s2) + x
        elif op == "asarray-dtype":
            r = da.asarray(s2, dtype="f8") + x
        elif op == "asanyarray":
            r = da.asanyarray(s2) + x
        elif op == "array":
            r = da.array(s2) + x
        elif op == "coerce-elemwise":
            r = x + s2
        elif op == "coerce-where":
            r = da.where(x > 3, s2, 0)
        elif op == "coerce-concatenate":
            r = da.concatenate([x, s2])
        elif op == "coerce-setitem":
            x[:] = s2
            r = x
        elif op == "zero-d-source":
            s2 = cat.RecordingSource(np.array(5.0).astype(vdtype))
            r = da.from_array(s2, chunks=()) + 1
        elif op == "map_blocks-infer-dtype":
            r = x.map_blocks(user)
        elif op == "asarray-like":
            r = da.asarray(s2, like=np.empty(0)) + x
        # point-wise indexing with a key that mixes a lazy dask index (over a recording source) with plain entries:
        # refused (IndexError) or lazy, never computed while the expression is built
        elif op in ("vindex-dask-then-list", "vindex-list-then-dask", "vindex-dask-then-slice"):
            s1 = cat.RecordingSource(np.arange(12).reshape(3, 4).astype(dtype))
            s2 = cat.RecordingSource(np.array([0, 2, 1, 2]))
            x = da.from_array(s1, chunks=(2, 2))
            didx = da.from_array(s2, chunks=2)
            try:
                if op == "vindex-dask-then-list":
                    r = x.vindex[didx, [1, 3, 3, 0]]
                elif op == "vindex-list-then-dask":
                    r = x.vindex[[0, 2, 1, 2], didx]
                else:
                    r = x.vindex[didx, :]
            except (IndexError, NotImplementedError, ValueError):
                return (list(s1.nonempty_requests()), list(s2.nonempty_requests()), list(calls)), 1
        # F47: a list of raw sources / a raw source used as a small parameter is converted with NumPy at construction
        elif op == "asarray-list-of-sources":
            r = da.asarray([s2, s2])
        elif op == "histogram-bins-source":
            s2 = cat.RecordingSource(np.array([0.0, 4.0, 8.0, 12.0]))
            r = da.histogram(x, bins=s2)[0]
        elif op == "digitize-bins-source":
            s2 = cat.RecordingSource(np.array([0.0, 4.0, 8.0, 12.0]))
            r = da.digitize(x, s2)
        # F32 family: output metadata inferred by calling the user function on a one-element probe
        elif op == "coarsen-meta":
            r = da.coarsen(lambda b, axis=None: user(b).sum(axis=axis), x, {0: 2})
        elif op == "apply_along_axis-infer":
            r = da.apply_along_axis(lambda t: user(t).sum(), 0, x)
        elif op == "apply_gufunc-infer":
            r = da.apply_gufunc(lambda t: user(t).sum(axis=-1), "(i)->()", x.rechunk(-1))
        else:
            raise ValueError(op)
        r.shape, r.chunks, r.dtype, r.name, r.numblocks
        r.__dask_keys__()
        repr(r)
        for n in cat.walk(r.expr):
            getattr(n, "transfer_bytes", None)
        r.optimize().chunks
        before = (list(s1.nonempty_requests()), list(s2.nonempty_requests()), list(calls))
        r.compute()
        after_reads = len(s1.requests) + len(s2.requests) + len(s1.array_calls) + len(s2.array_calls)
        return before, after_reads

    def requires(op, dtype, vdtype):
        return True

    def ensures(result, op, dtype, vdtype):
        (r1, r2, calls), after = result
        import numpy as np
        if op == "coerce-setitem" and np.dtype(dtype).kind in "iu":
            # F10: assigning a raw (non-dask, non-NumPy) source into an integer array scans it for NaN/inf at assignment time
            return {"raw-source-assigned-into-integer-array-not-read": r1 == [] and r2 == [],
                    "no-user-function-call-on-nonempty-block-before-execution": calls == [],
                    "data-is-read-at-execution": after > 0}
        if op == "zero-d-source":
            # F31: the meta of a 0-d source is built with source[()], which selects its one element
            return {"zero-d-source-not-read-for-its-meta": r1 == [] and r2 == [],
                    "no-user-function-call-on-nonempty-block-before-execution": calls == []}
        if op in ("asarray-list-of-sources", "histogram-bins-source", "digitize-bins-source"):
            # F47: np.asarray on a list of raw sources / on a raw source handed in as a small parameter (bins)
            return {"raw-source-as-list-item-or-parameter-not-read": r1 == [] and r2 == [],
                    "no-user-function-call-on-nonempty-block-before-execution": calls == []}
        if op in ("map_blocks-infer-dtype", "coarsen-meta", "apply_along_axis-infer", "apply_gufunc-infer"):
            # F32: without dtype= / meta=, the dtype is inferred by calling the user function on a block of one element
            return {"no-source-read-before-execution": r1 == [] and r2 == [],
                    "dtype-inference-does-not-call-the-user-function-on-a-nonempty-block": calls == [],
                    "data-is-read-at-execution": after > 0}
        if op == "asarray-like":
            # F33: asarray(source, like=...) converts the source with np.asarray at construction
            return {"asarray-like-does-not-read-the-source": r1 == [] and r2 == [],
                    "no-user-function-call-on-nonempty-block-before-execution": calls == []}
        return {"no-source-read-before-execution": r1 == [] and r2 == [],
                "no-user-function-call-on-nonempty-block-before-execution": calls == [],
                "data-is-read-at-execution": after > 0}

    def domain(tier, rng):
        ops = ["zero-d-source", "map_blocks-infer-dtype", "asarray-like", "vindex-dask-then-list", "vindex-list-then-dask",
               "vindex-dask-then-slice", "asarray-list-of-sources", "histogram-bins-source", "digitize-bins-source",
               "coarsen-meta", "apply_along_axis-infer", "apply_gufunc-infer", "setitem-lazy", "setitem-lazy-full", "setitem-scalar", "setitem-mask", "where", "map_blocks", "map_blocks-info",
               "map_overlap", "concat-stack", "reshape-T", "reduce", "astype-clip", "rechunk-slice", "take", "mask-select",
               "blockwise-apply", "cumsum", "swv", "asarray", "asarray-dtype", "asanyarray", "array", "coerce-elemwise",
               "coerce-where", "coerce-concatenate", "coerce-setitem"]
        for op in ops:
            for dt in ("i8", "f8"):
                for vdt in ("i8", "f8"):
                    yield {"op": op, "dtype": dt, "vdtype": vdt}


@contract("dask_array/_rechunk.py::Rechunk.chunks", spec="unknown-unchanged-axis", props=["C14", "C28"])
class rechunk_unknown_unchanged_axis:
    """rechunking the known axis of an array whose other axis has unknown sizes (every spelling of the spec, with and
    without balance=True) keeps the unknown axis as it is, gives the known axis the requested chunks and computes the same
    values"""
    bounded_only = True
    params = {"chunks": "const", "spec": "const", "balance": "const"}
    scope = "10x4 data with a row mask, 3 layouts; specs {1: 3}, {1: -1}, {1: 2}, (None, 3); balance False / True"

    def real():
        return lambda: None

    def call(fn, chunks, spec, balance):
        import math
        import numpy as np
        import dask_array as da
        n = np.arange(40).reshape(10, 4)
        m = da.from_array(n, chunks=chunks)
        u = m[m[:, 0] > 4]
        r = u.rechunk(spec, balance=balance)
        return u.chunks, r.chunks, np.asarray(r.compute()), n[n[:, 0] > 4]

    def requires(chunks, spec, balance):
        return True

    def ensures(result, chunks, spec, balance):
        import math
        before, after, got, want = result
        return {"unknown-axis-unchanged": len(after[0]) == len(before[0]) and all(math.isnan(c) for c in after[0]),
                "known-axis-adds-up": sum(after[1]) == 4, "values-unchanged": _same(got, want)}

    def domain(tier, rng):
        for chunks in ((3, 1), (5, 2), (10, 4)):
            # ('auto' is refused next to an unknown axis: it needs the block sizes -- a refusal, not part of this contract)
            for spec in ({1: 3}, {1: -1}, {1: 2}, (None, 3)):
                for bal in (False, True):
                    yield {"chunks": chunks, "spec": spec, "balance": bal}


@contract("dask_array/_rechunk.py::Rechunk._pushdown", spec="planner-arguments-travel", props=["C15", "C14"])
class rechunk_pushdown_keeps_planner_arguments:
    """a rechunk that optimisation moves through a transpose / an elementwise op / a concatenate / an expand_dims keeps the
    threshold, block_size_limit and method the user gave: every rechunk node of the optimised expression carries them, so
    the plan it lowers to is bounded by the user's block-size limit, not by the configured default"""
    bounded_only = True
    params = {"through": "const", "threshold": "const", "limit": "const"}
    scope = "200x200 data in row blocks behind map_blocks; rechunk through T / +1 / concatenate / expand_dims; 3 argument pairs"

    def real():
        return lambda: None

    def call(fn, through, threshold, limit):
        import numpy as np
        import dask_array as da
        a = np.arange(1600.0).reshape(40, 40)
        x = da.from_array(a, chunks=(1, 40)).map_blocks(lambda b: b + 1, dtype="f8")
        kw = {"threshold": threshold, "block_size_limit": limit}
        if through == "T":
            y, want = x.T.rechunk((1, 40), **kw), (a + 1).T
        elif through == "plus":
            y, want = (x + 1).rechunk((40, 1), **kw), a + 2
        elif through == "concatenate":
            y, want = da.concatenate([x, x]).rechunk((80, 1), **kw), np.concatenate([a + 1, a + 1])
        else:
            y, want = da.expand_dims(x, 0).rechunk((1, 40, 1), **kw), (a + 1)[None]
        o = y.expr.optimize()
        nodes = [(type(n).__name__, n.operand("threshold"), n.operand("block_size_limit")) for n in o.walk() if "Rechunk" in type(n).__name__]
        return nodes, np.asarray(y.compute()), want

    def requires(through, threshold, limit):
        return True

    def ensures(result, through, threshold, limit):
        nodes, got, want = result
        return {"every-rechunk-node-keeps-the-users-planner-arguments": all(t == threshold and l == limit for _, t, l in nodes),
                "values-unchanged": _same(got, want)}

    def domain(tier, rng):
        for through in ("T", "plus", "concatenate", "expand_dims"):
            for threshold, limit in ((None, 1600), (1, 64), (2, None)):
                yield {"through": through, "threshold": threshold, "limit": limit}


@contract("dask_array/_rechunk.py::Rechunk._pushdown", spec="zero-width-target-on-a-unit-axis", props=["C14"])
class rechunk_zero_width_on_unit_axis:
    """a rechunk whose target puts a zero-width block on an axis of length 1 -- (1, 0) or (0, 1) -- above expand_dims or an
    elementwise op: the optimised expression still has the requested chunks and the values are unchanged"""
    bounded_only = True
    params = {"above": "const", "target": "const"}
    scope = "expand_dims / broadcast elementwise / plain array; targets (1,0), (0,1), (1,) on the unit axis"

    def real():
        return lambda: None

    def call(fn, above, target):
        import numpy as np
        import dask_array as da
        base = np.arange(10.0)
        if above == "expand_dims":
            y, want = da.from_array(base, chunks=5)[None, :], base[None, :]
        elif above == "elemwise":
            y, want = da.from_array(base.reshape(1, 10), chunks=(1, 5)) + 1, base.reshape(1, 10) + 1
        else:
            y, want = da.from_array(base.reshape(1, 10), chunks=(1, 5)), base.reshape(1, 10)
        z = y.rechunk((target, (2, 8)))
        return z.chunks, z.expr.optimize().chunks, np.asarray(z.compute()), want

    def requires(above, target):
        return True

    def ensures(result, above, target):
        adv, opt, got, want = result
        return {"requested-chunks": adv == (tuple(target), (2, 8)), "optimised-expression-keeps-them": opt == adv,
                "values-unchanged": _same(got, want)}

    def domain(tier, rng):
        for above in ("expand_dims", "elemwise", "plain"):
            for target in ((1, 0), (0, 1), (1,), (0, 1, 0)):
                yield {"above": above, "target": target}


@contract("dask_array/_rechunk.py::rechunk", spec="live-siblings", props=["C14"])
class rechunk_live_siblings:
    """several rechunks of ONE array expression that are alive at the same time and differ in a single argument (balance,
    block_size_limit, threshold, method) each have the chunks their own arguments give -- expression nodes are
    deduplicated by name, so every argument that influences the chunks must be part of the name"""
    bounded_only = True
    params = {"n": "const", "chunks": "const", "spec": "const", "order": "const"}
    scope = "1-D lengths 220 / 23 / 100, 2 layouts, specs 100 / 10 / 7 / 'auto'; sibling pairs differing in balance or block_size_limit, both build orders, 2-D variant"

    def real():
        return lambda: None

    def call(fn, n, chunks, spec, order):
        import numpy as np
        import dask_array as da
        from dask_array._core_utils import normalize_chunks
        a = np.arange(float(n))
        x = da.from_array(a, chunks=chunks)
        mk = {"plain": lambda: x.rechunk(spec), "balanced": lambda: x.rechunk(spec, balance=True),
              "small-limit": lambda: x.rechunk("auto", block_size_limit=64), "large-limit": lambda: x.rechunk("auto", block_size_limit=640)}
        alone = {}
        for k, f in mk.items():
            alone[k] = f().chunks        # built and dropped: nothing else alive
        keep = []
        together = {}
        for k in order:
            y = mk[k]()
            keep.append(y)               # siblings stay alive
            together[k] = y.chunks
        vals = {k: np.asarray(y.compute()) for k, y in zip(order, keep)}
        return alone, together, {k: bool(np.array_equal(v, a)) for k, v in vals.items()}

    def requires(n, chunks, spec, order):
        return True

    def ensures(result, n, chunks, spec, order):
        alone, together, ok = result
        return {"chunks-do-not-depend-on-live-siblings": all(together[k] == alone[k] for k in together),
                "values-unchanged": all(ok.values()),
                "chunks-add-up": all(sum(c[0]) == n for c in together.values())}

    def domain(tier, rng):
        import itertools
        for n, chunks, spec in ((220, 50, 100), (23, 5, 10), (100, 30, 7), (220, 220, 100)):
            for order in itertools.permutations(("plain", "balanced", "small-limit", "large-limit"), 2):
                yield {"n": n, "chunks": chunks, "spec": spec, "order": order}
            yield {"n": n, "chunks": chunks, "spec": spec, "order": ("plain", "balanced", "small-limit", "large-limit")}
            yield {"n": n, "chunks": chunks, "spec": spec, "order": ("large-limit", "small-limit", "balanced", "plain")}


def _ix_pool(k, n):
    half = [i % 2 == 0 for i in range(n)]
    return [1, -1, slice(None), slice(1, 3), slice(None, None, -2), ("list", [0, 2]), ("nparr", [2, 0, 2]), ("npmask", half),
            ("dmask", half), ("dint", [0, 2])]


def _ix_advanced_split(key):
    """NumPy moves the result axes of advanced indices (integers count once an array index is present) to the front when
    they are separated by a slice or None"""
    adv = [i for i, t in enumerate(key) if isinstance(t, int) or (isinstance(t, tuple) and t[0] in ("list", "nparr", "npmask", "dmask", "dint"))]
    arrays = [i for i, t in enumerate(key) if isinstance(t, tuple) and t[0] in ("list", "nparr", "npmask", "dmask", "dint")]
    return bool(arrays) and len(adv) > 1 and any(b - a > 1 for a, b in zip(adv, adv[1:]))


def _ix_contract(spec, split):
    @contract("dask_array/_collection.py::Array.__getitem__", spec=spec, props=["C12"])
    class getitem_numpy_or_refusal:
        """x[key] on a 3-D array for keys built from integers, slices, None, lists, integer / boolean NumPy arrays, boolean
        dask masks and integer dask arrays: whatever is returned equals NumPy's result (shape and values); unsupported
        combinations raise; keys made of integers, slices and None only, and keys with a single list / array entry, are
        never refused"""
        bounded_only = True
        params = {"key": "const", "chunks": "const"}
        scope = "4x5x6 array, 2 layouts; keys of 1-3 entries from a pool of 10 per axis, with None inserted (quick: sampled)"

        def real():
            return lambda: None

        def call(fn, key, chunks):
            import numpy as np
            import dask_array as da
            a = np.arange(120).reshape(4, 5, 6)
            x = da.from_array(a, chunks=chunks)

            def conv(t, lazy):
                if not isinstance(t, tuple):
                    return t
                kind, v = t
                if kind == "list":
                    return list(v)
                if kind == "nparr":
                    return np.array(v)
                if kind == "npmask":
                    return np.array(v)
                if kind == "dmask":
                    return da.from_array(np.array(v), chunks=2) if lazy else np.array(v)
                if kind == "dint":
                    return da.from_array(np.array(v), chunks=1) if lazy else np.array(v)
                raise ValueError(kind)

            try:
                want = ("value", a[tuple(conv(t, False) for t in key)])
            except Exception as e:
                want = ("raises", type(e).__name__)
            import warnings
            try:
                with warnings.catch_warnings():
                    warnings.simplefilter("ignore")
                    got = ("value", np.asarray(x[tuple(conv(t, True) for t in key)].compute()))
            except (IndexError, NotImplementedError, ValueError, TypeError) as e:
                got = ("raises", type(e).__name__)
            return got, want

        def requires(key, chunks):
            return True

        def ensures(result, key, chunks):
            got, want = result
            basic = all(not isinstance(t, tuple) for t in key)
            one_fancy = sum(isinstance(t, tuple) for t in key) == 1 and not any(isinstance(t, int) for t in key) and None not in key
            r = {}
            if got[0] == "value":
                r["what-is-returned-is-numpys-result"] = want[0] == "value" and np_shape(got[1]) == np_shape(want[1]) and _same(got[1], want[1])
            if want[0] == "value" and (basic or one_fancy):
                r["basic-and-single-fancy-keys-are-not-refused"] = got[0] == "value"
            return r

        def domain(tier, rng):
            import itertools
            keys = []
            shape = (4, 5, 6)
            for n in (1, 2, 3):
                for combo in itertools.product(*[_ix_pool(k, shape[k]) for k in range(n)]):
                    keys.append(tuple(combo))
            extra = []
            for kcombo in keys:
                if len(kcombo) <= 2:
                    for pos in range(len(kcombo) + 1):
                        extra.append(kcombo[:pos] + (None,) + kcombo[pos:])
            keys = [k for k in keys + extra if _ix_advanced_split(k) == split]
            if tier == "quick":
                keys = rng.sample(keys, min(len(keys), 260 if not split else 60))
            for k in keys:
                for chunks in ((2, 2, 3), (4, 5, 6)):
                    yield {"key": k, "chunks": chunks}

    getitem_numpy_or_refusal.__name__ = "getitem_" + spec.replace("-", "_")
    return getitem_numpy_or_refusal


IX1 = _ix_contract("numpy-or-refusal-3d", False)
IX2 = _ix_contract("advanced-indices-split-by-a-slice", True)


@contract("dask_array/slicing/_bool_index.py::slice_with_bool_dask_array", spec="full-mask-nd", props=["C12"])
class full_mask_nd:
    """x[mask] with a boolean dask mask of x's rank returns NumPy's elements IN NUMPY'S (C) ORDER for every block layout of
    a 2-D / 3-D / 4-D array -- also when the mask has exactly x's chunks, the last axis is one block and an inner axis is
    split (the blocks of such a layout are not in C order)"""
    bounded_only = True
    params = {"shape": "const", "chunks": "const", "mask_chunks": "const"}
    scope = "shapes (4,6), (2,4,6), (3,4,2,5); 5-7 layouts each; mask with the array's chunks and with other chunks"

    def real():
        return lambda: None

    def call(fn, shape, chunks, mask_chunks):
        import numpy as np
        import dask_array as da
        a = np.arange(int(np.prod(shape))).reshape(shape)
        x = da.from_array(a, chunks=chunks)
        m = (x % 3 == 0) if mask_chunks is None else da.from_array(a % 3 == 0, chunks=mask_chunks)
        import warnings
        with warnings.catch_warnings():
            warnings.simplefilter("ignore")
            got = np.asarray(x[m].compute())
            got2 = np.asarray((x[m] + 1).compute())
        return got, got2, a[a % 3 == 0]

    def requires(shape, chunks, mask_chunks):
        return True

    def ensures(result, shape, chunks, mask_chunks):
        got, got2, want = result
        return {"elements-in-numpy-order": _same(got, want), "derived-sees-the-same-order": _same(got2, want + 1)}

    def domain(tier, rng):
        lay = {(4, 6): [(2, 3), (4, 3), (2, 6), (1, 6), (4, 6)],
               (2, 4, 6): [(2, 2, 6), (2, (1, 3), 6), (1, 2, 6), (2, 4, 3), (1, 4, 6), (2, 2, 3), (2, 4, 6)],
               (3, 4, 2, 5): [(3, 2, 1, 5), (3, 4, 2, 5), (1, 2, 2, 5), (3, 2, 2, 5), (2, 4, 1, 5)]}
        for shape, ls in lay.items():
            for ch in ls:
                yield {"shape": shape, "chunks": ch, "mask_chunks": None}
                yield {"shape": shape, "chunks": ch, "mask_chunks": ls[0]}


@contract("dask_array/slicing/_utils.py::sanitize_index", spec="odd-index-objects", props=["C12"])
class odd_index_objects:
    """index objects NumPy accepts return NumPy's result (narrow integer dtypes with negative entries, 0-d integer arrays);
    a boolean dask mask whose length differs from the axis is refused (IndexError) instead of being broadcast"""
    bounded_only = True
    params = {"kind": "const", "n": "const", "chunks": "const"}
    scope = "1-D arrays of length 5 / 200; int8 / uint8 / int16 index arrays with negative entries, 0-d integer arrays, dask boolean masks of the right and of a wrong length"
    raises = {"IndexError": lambda kind, n, chunks: kind.startswith("mask-wrong")}

    def real():
        return lambda x, idx: x[idx]

    def call(fn, kind, n, chunks):
        import numpy as np
        import dask_array as da
        d = np.arange(n) * 3
        x = da.from_array(d, chunks=chunks)
        if kind == "int8-negative":
            idx = np.array([-1, 3], dtype=np.int8)
        elif kind == "int16-negative":
            idx = np.array([-2, 0, -n], dtype=np.int16)
        elif kind == "uint8":
            idx = np.array([4, 0], dtype=np.uint8)
        elif kind == "0d-int":
            idx = np.array(3)
        elif kind == "0d-int8-negative":
            idx = np.array(-2, dtype=np.int8)
        elif kind in ("bool-scalar-true", "bool-scalar-false", "np-bool-scalar"):
            # NumPy: a mask over a new axis.  Either that, or a refusal -- never element 0 / 1
            b = {"bool-scalar-true": True, "bool-scalar-false": False, "np-bool-scalar": np.True_}[kind]
            try:
                return np.asarray(fn(x, b).compute()), d[b]
            except (NotImplementedError, IndexError, ValueError, TypeError):
                return d[b], d[b]
        elif kind == "vindex-narrow-dtype":
            return np.asarray(x.vindex[np.array([-1, 3], dtype=np.int8)].compute()), d[np.array([-1, 3])]
        elif kind == "mask-right-length":
            m = (np.arange(n) % 2 == 0)
            return np.asarray(fn(x, da.from_array(m, chunks=chunks)).compute()), d[m]
        elif kind == "mask-wrong-length-1":
            return np.asarray(fn(x, da.from_array(np.array([True]), chunks=1)).compute()), None
        elif kind == "mask-wrong-length-short":
            return np.asarray(fn(x, da.from_array(np.array([True, False, True]), chunks=3)).compute()), None
        else:
            raise ValueError(kind)
        return np.asarray(fn(x, idx).compute()), d[idx]

    def requires(kind, n, chunks):
        return True

    def ensures(result, kind, n, chunks):
        got, want = result
        if want is None:
            return {"wrong-length-mask-refused": False}
        return {"equals-numpy": _same(got, want)}

    def domain(tier, rng):
        for n, chs in ((5, [1, 2, 5]), (200, [50, 200])):
            for ch in chs:
                for kind in ("int8-negative", "int16-negative", "uint8", "0d-int", "0d-int8-negative", "mask-right-length",
                             "mask-wrong-length-1", "mask-wrong-length-short", "bool-scalar-true", "bool-scalar-false",
                             "np-bool-scalar", "vindex-narrow-dtype"):
                    yield {"kind": kind, "n": n, "chunks": ch}


@contract("dask_array/_core_utils.py::_get_axis", spec="patterns", props=["C12"])
class get_axis_patterns:
    """position of the point-wise dimension inside a block indexed point-wise on some axes: NumPy puts it where the
    indexed axes were when they are adjacent, and first when a sliced axis separates them"""
    bounded_only = True
    params = {"pattern": "const"}
    scope = "every pattern of indexed / sliced axes up to rank 6 with at least one indexed axis"

    def real():
        from dask_array._core_utils import _get_axis
        return lambda pattern: _get_axis([[0, 1] if p else None for p in pattern])

    def requires(pattern):
        return any(pattern)

    def ensures(result, pattern):
        idx = [i for i, p in enumerate(pattern) if p]
        adjacent = idx[-1] - idx[0] + 1 == len(idx)
        return {"numpy-placement-rule": result == (idx[0] if adjacent else 0)}

    def domain(tier, rng):
        import itertools
        for n in range(1, 7):
            for pat in itertools.product((False, True), repeat=n):
                yield {"pattern": pat}


@contract("dask_array/slicing/_vindex.py::_vindex", spec="points", props=["C12"])
class vindex_points:
    """x.vindex[...] returns what NumPy point indexing returns; an index that is out of bounds raises (IndexError)
    instead of wrapping around"""
    bounded_only = True
    params = {"shape": "const", "chunks": "const", "idx": "const"}
    scope = ("1-D (10) and 2-D (7x8, incl. a zero-length chunk) arrays; point lists with in-range, negative, and "
             "out-of-bounds values at exactly size, size+1, -size, -size-1; broadcast point lists")
    raises = {"IndexError": lambda shape, chunks, idx: _vindex_oob(shape, idx)}

    def real():
        return lambda x, idx: x.vindex[idx]

    def call(fn, shape, chunks, idx):
        import numpy as np
        import dask_array as da
        d = np.arange(int(np.prod(shape))).reshape(shape) * 3
        x = da.from_array(d, chunks=chunks)
        got = np.asarray(fn(x, idx).compute())
        return got, d

    def requires(shape, chunks, idx):
        return True

    def ensures(result, shape, chunks, idx):
        if _vindex_oob(shape, idx):
            return {"out-of-bounds-refused": False}
        import numpy as np
        got, d = result
        nidx = tuple(np.asarray(i) if isinstance(i, list) else i for i in idx) if isinstance(idx, tuple) else np.asarray(idx)
        want = d[nidx]
        mixed = isinstance(idx, tuple) and any(isinstance(i, slice) for i in idx)
        if mixed:
            # vindex documents that the point dimension comes first, then the sliced axes in order
            lists = [k for k, i in enumerate(idx) if isinstance(i, list)]
            n = d.shape
            full = np.ix_(*[np.arange(m) for m in n])
            npts = len(idx[lists[0]])
            want = np.stack([d[tuple(idx[k][p] if k in lists else slice(None) for k in range(len(idx)))] for p in range(npts)])
        return {"values-equal-numpy": _same(got, want)}

    def domain(tier, rng):
        for ch in [((10,),), ((5, 5),), ((3, 0, 7),), ((1,) * 10,)]:
            for lst in [[0, 3, 9], [9, 0], [-1, -10, 4], [3, 10, 1], [11], [-11, 2], [10], [-10], [5, 5, 5]]:
                yield {"shape": (10,), "chunks": ch, "idx": lst}
                yield {"shape": (10,), "chunks": ch, "idx": (lst,)}
        for ch in [((7,), (8,)), ((3, 4), (4, 4)), ((2, 0, 5), (1, 7)), ((7,), (3, 5))]:
            for a, b in [([0, 6, 2], [1, 2, 3]), ([0, 7, 2], [1, 2, 3]), ([0, 1, 2], [8, 2, 3]), ([-7, -1], [-8, 7]),
                         ([-8, 1], [0, 0]), ([1, 2], [9, 0]), ([3], [4]), ([6, 6, 6], [0, 7, 0])]:
                yield {"shape": (7, 8), "chunks": ch, "idx": (a, b)}
            yield {"shape": (7, 8), "chunks": ch, "idx": ([1, 5], slice(None))}
            yield {"shape": (7, 8), "chunks": ch, "idx": (slice(None), [0, 8])}
            yield {"shape": (7, 8), "chunks": ch, "idx": (slice(None), [0, 7])}
        # rank 4: point axes separated by a sliced axis and not starting at axis 0 (NumPy then moves the point dimension
        # to the front), with as many points as the leading axis is long, and with other counts
        for npts in (3, 2):
            yield {"shape": (3, 6, 4, 7), "chunks": ((3,), (3, 3), (2, 2), (4, 3)),
                   "idx": (slice(None), list(range(npts)), slice(None), [6, 0, 3][:npts])}
            yield {"shape": (3, 6, 4, 7), "chunks": ((3,), (3, 3), (2, 2), (4, 3)),
                   "idx": (slice(None), slice(None), [1, 0, 3][:npts], [6, 0, 3][:npts])}
        # rank 3 with two point axes behind a slice axis, and blocks wider than 255 / 65535 elements: in-block point
        # offsets that do not fit a byte (or two) must survive whatever narrow integer type the layer picks
        for shape, ch in [((3, 4, 600), ((3,), (2, 2), (300, 300))), ((2, 3, 600), ((1, 1), (3,), (600,))),
                          ((2, 2, 70000), ((2,), (1, 1), (70000,)))]:
            last = shape[2]
            pts = [10, last - 20, 299, 257, last - 1][: 4]
            rows = [0, shape[1] - 1, 1, 0]
            yield {"shape": shape, "chunks": ch, "idx": (slice(None), rows, pts)}
            yield {"shape": shape, "chunks": ch, "idx": (slice(None), rows, [min(last - 1, 66000), 300, 256, 255])}
            yield {"shape": shape, "chunks": ch, "idx": ([0, 1, 0, 1], slice(None), pts)}
            yield {"shape": shape, "chunks": ch, "idx": ([0, 1, 0, 1], rows, pts)}


def _vindex_oob(shape, idx):
    if not isinstance(idx, tuple):
        idx = (idx,)
    for n, i in zip(shape, idx):
        if isinstance(i, list) and any(v >= n or v < -n for v in i):
            return True
    return False


# ---------------------------------------------------------------------------
# C09: results do not depend on planner configuration or on materialization history
# ---------------------------------------------------------------------------
_C09_CONFIGS = [
    {"array.optimize-graph": False},
    {"array.rechunk.threshold": 1},
    {"array.rechunk.threshold": 64},
    {"array.rechunk.degree-limit": 1},
    {"array.rechunk.degree-limit": 2},
    {"array.rechunk.method": "tasks"},
    {"array.chunk-size": "64B"},
    {"array.chunk-size": "2kiB"},
    {"array.unify-chunks-policy": "refine"},
    {"array.unify-chunks-policy": "coarse"},
    {"array.unify-chunks-limit": "16B"},
    {"array.unify-chunks-limit": 0},
    {"split_every": 2},
    {"split_every": 3},
    {"array.chunk-size-tolerance": 1.0},
    {"array.rechunk.threshold": 1, "array.rechunk.degree-limit": 1, "array.unify-chunks-policy": "refine", "split_every": 2},
]


def _c09_programs(tier):
    progs = {}
    for k, f in entries(tier, 0).items():
        progs["cat:" + k] = f
    for k, f in rw_entries(tier).items():
        progs["rw:" + k] = f
    return progs


def _c09_value(x):
    import numpy as np
    return np.asarray(x.compute(scheduler="sync"))


@contract("dask_array/_materialize.py::_materialize", spec="config-independent", props=["C09"])
class materialize_config_independent:
    """the values computed for a catalogue program are the same (NumPy's, or for reference-free entries those computed
    under the default configuration) under every listed setting of the optimiser / planner options, whether the setting
    is in effect while the program is built, while its graph is built and computed, or both"""
    bounded_only = True
    params = {"prog": "const", "tier": "const", "cfg": "const", "phase": "const"}
    scope = ("catalogue and rewrite-target programs x 16 settings of optimize-graph, rechunk threshold / degree-limit / method, "
             "chunk-size, chunk-size-tolerance, unify-chunks policy / limit, split_every x {construction, graph-build, both}; "
             "quick: every program under one (setting, phase) in rotation; thorough: under every setting")

    def real():
        return lambda e, og=None: None

    def call(fn, prog, tier, cfg, phase):
        import dask
        mk = _c09_programs(tier)[prog]
        setting = _C09_CONFIGS[cfg]
        x0, expected, info = mk()
        try:
            base = _c09_value(x0)
            base_err = None
        except Exception as ex:
            base, base_err = None, f"{type(ex).__name__}: {str(ex)[:80]}"
        del x0
        err = None
        got = None
        try:
            if phase == "construction":
                with dask.config.set(setting):
                    x, _, _ = mk()
                got = _c09_value(x)
            elif phase == "graph-build":
                x, _, _ = mk()
                with dask.config.set(setting):
                    got = _c09_value(x)
            else:
                with dask.config.set(setting):
                    x, _, _ = mk()
                    got = _c09_value(x)
        except Exception as ex:
            err = f"{type(ex).__name__}: {str(ex)[:80]}"
        return {"expected": expected, "base": base, "base_err": base_err, "got": got, "err": err, "unknown": "unknown" in prog}

    def requires(prog, tier, cfg, phase):
        return True

    def ensures(result, prog, tier, cfg, phase):
        if result["base_err"] is not None:
            # a program that does not compute under the default configuration says nothing about C09
            return {"computes-under-the-setting-iff-under-the-default": result["err"] is not None}
        r = {"computes-under-the-setting-iff-under-the-default": result["err"] is None}
        if result["err"] is None:
            r["values-equal-those-under-the-default-configuration"] = _same(result["got"], result["base"])
            if result["expected"] is not None:
                r["values-equal-numpy"] = _same(result["got"], result["expected"])
        return r

    def domain(tier, rng):
        names = list(_c09_programs(tier))
        ncfg = len(_C09_CONFIGS)
        phases = ("both", "construction", "graph-build")
        for i, name in enumerate(names):
            if tier == "quick":
                yield {"prog": name, "tier": tier, "cfg": i % ncfg, "phase": phases[(i // ncfg) % 3]}
            else:
                for c in range(ncfg):
                    yield {"prog": name, "tier": tier, "cfg": c, "phase": phases[(i + c) % 3]}


@contract("dask_array/_materialize.py::_lower", spec="history-independent", props=["C09"])
class lower_history_independent:
    """the values computed for a program do not depend on what was built or computed before it in the process: groups of
    programs over the same source (sharing subtrees, singleton nodes and the name-keyed lowering cache) are built together
    and computed in several orders, computed again under another planner setting while the earlier collections -- and so
    the cache entries their lowering left -- are still alive, and once more after a rebuild; every value is NumPy's (or the
    first one computed)"""
    bounded_only = True
    params = {"group": "const", "tier": "const", "order": "const", "cfg": "const"}
    scope = ("consecutive groups of 4 catalogue / rewrite-target programs (neighbours share source and layout); orders forward, "
             "reverse, rotated; a second round under one of 16 planner settings with the first round's collections alive")

    def real():
        return lambda e, og=None: None

    def call(fn, group, tier, order, cfg):
        import dask
        progs = _c09_programs(tier)
        names = list(progs)[group * 4: group * 4 + 4]
        if order == "reverse":
            names = names[::-1]
        elif order == "rotated":
            names = names[2:] + names[:2]
        built = [(n,) + tuple(progs[n]()[:2]) for n in names]           # all alive together
        first, errs = {}, {}
        for n, x, exp in built:
            try:
                first[n] = _c09_value(x)
            except Exception as ex:
                errs[n] = f"{type(ex).__name__}: {str(ex)[:80]}"
        second, errs2 = {}, {}
        with dask.config.set(_C09_CONFIGS[cfg]):
            rebuilt = [(n,) + tuple(progs[n]()[:2]) for n in reversed(names)]
            for n, x, exp in rebuilt:
                try:
                    second[n] = _c09_value(x)
                except Exception as ex:
                    errs2[n] = f"{type(ex).__name__}: {str(ex)[:80]}"
            # the collections of the first round, lowered under the default setting, computed under this one
            third = {}
            for n, x, exp in built:
                if n in first:
                    try:
                        third[n] = _c09_value(x)
                    except Exception as ex:
                        errs2[n + " (first-round collection)"] = f"{type(ex).__name__}: {str(ex)[:80]}"
        expected = {n: exp for n, x, exp in built}
        return {"first": first, "second": second, "third": third, "errs": errs, "errs2": errs2, "expected": expected}

    def requires(group, tier, order, cfg):
        return True

    def ensures(result, group, tier, order, cfg):
        first, second, third, exp = result["first"], result["second"], result["third"], result["expected"]
        ok_np = all(_same(first[n], exp[n]) for n in first if exp[n] is not None)
        return {"first-round-values-equal-numpy": ok_np,
                "second-round-computes-what-the-first-did": all(n in second and _same(second[n], first[n]) for n in first),
                "first-round-collections-recompute-the-same-under-another-setting": all(n in third and _same(third[n], first[n]) for n in first),
                "nothing-that-computed-alone-fails-later": all(k.split(" (")[0] in result["errs"] for k in result["errs2"])}

    def domain(tier, rng):
        n = len(_c09_programs(tier))
        groups = (n + 3) // 4
        orders = ("forward", "reverse", "rotated")
        for g in range(groups):
            if tier == "quick":
                yield {"group": g, "tier": tier, "order": orders[g % 3], "cfg": g % len(_C09_CONFIGS)}
            else:
                for o in orders:
                    yield {"group": g, "tier": tier, "order": o, "cfg": (g + orders.index(o) * 5) % len(_C09_CONFIGS)}


# ---------------------------------------------------------------------------
# C07: names are deterministic and survive serialization
# ---------------------------------------------------------------------------
def _c07_descr(x):
    import hashlib
    g = x.__dask_graph__()
    keys = sorted(map(str, g.keys()))
    return [x.name, hashlib.sha1("\n".join(keys).encode()).hexdigest(), repr(x.chunks), str(x.dtype), repr(x.__dask_keys__())]


def _c07_batch(tier, batch, size=40):
    names = list(_c09_programs(tier))
    return names[batch * size: (batch + 1) * size]


def _c07_describe_batch(tier, batch):
    """{program: descriptor} for one batch, or {program: 'ERR ...'}; also run as a fresh process"""
    progs = _c09_programs(tier)
    out = {}
    for n in _c07_batch(tier, batch):
        try:
            x = progs[n]()[0]
            out[n] = _c07_descr(x)
        except Exception as ex:
            out[n] = f"ERR {type(ex).__name__}: {str(ex)[:80]}"
    return out


def _c07_untokenizable(prog):
    # sources without a deterministic token (RecordingSource objects, persisted graphs, locks, delayed values built
    # from lambdas at call time) are documented to get a fixed random token per instance: a rebuild is another instance
    return "/rec" in prog or "delayed" in prog


class _names_deterministic_base:
    """building the same catalogue program again gives the same collection name, chunks, dtype, output keys and the same
    optimised graph keys -- in this process and in a fresh interpreter --, and a cloudpickle round trip of the collection
    keeps name, keys, chunks, dtype and optimised graph keys and computes the same values"""
    bounded_only = True
    params = {"tier": "const", "batch": "const"}
    scope = ("catalogue and rewrite-target programs in batches of 40; one fresh interpreter per batch; programs over sources "
             "without a deterministic token are exempt from the rebuild clauses, not from the pickle clause")

    def real():
        return lambda self: None

    def call(fn, tier, batch):
        import json
        import os
        import subprocess
        import sys
        import cloudpickle
        import numpy as np
        progs = _c09_programs(tier)
        here1 = _c07_describe_batch(tier, batch)
        here2 = _c07_describe_batch(tier, batch)
        code = ("import json, sys\n"
                "from contracts import objects_l2 as O\n"
                "print(json.dumps(O._c07_describe_batch(sys.argv[1], int(sys.argv[2]))))\n")
        # string hashing is randomised per process: the fresh interpreters get fixed, different hash seeds, so that a name
        # depending on set / dict-of-str iteration order is found reproducibly
        fresh = {}
        for hs in ("1", "2") if tier == "quick" else ("1", "2", "3", "4"):
            env = dict(os.environ)
            env["PYTHONHASHSEED"] = hs
            p = subprocess.run([sys.executable, "-c", code, tier, str(batch)], capture_output=True, text=True, env=env, timeout=1800)
            if p.returncode != 0:
                raise RuntimeError(p.stderr[-600:])
            one = json.loads(p.stdout.strip().splitlines()[-1])
            for k, v in one.items():
                if k not in fresh or fresh[k] == here1.get(k):
                    fresh[k] = v          # keep a disagreeing descriptor once seen
        pick = {}
        for n in _c07_batch(tier, batch):
            if isinstance(here1[n], str):
                continue
            x = progs[n]()[0]
            try:
                y = cloudpickle.loads(cloudpickle.dumps(x))
            except Exception as ex:
                pick[n] = f"PICKLE-ERR {type(ex).__name__}: {str(ex)[:80]}"
                continue
            try:
                dx, dy = _c07_descr(x), _c07_descr(y)
                vx = np.asarray(x.compute(scheduler="sync"))
                vy = np.asarray(y.compute(scheduler="sync"))
                pick[n] = [dx == dy, _same(vx, vy) or "unknown" in n and vx.shape == vy.shape and _same(vx, vy), dx, dy]
            except Exception as ex:
                pick[n] = f"ERR {type(ex).__name__}: {str(ex)[:80]}"
        return {"here1": here1, "here2": here2, "fresh": fresh, "pickle": pick}

    def requires(tier, batch):
        return True

    def ensures(result, tier, batch):
        h1, h2, fr, pk = result["here1"], result["here2"], result["fresh"], result["pickle"]
        det = [n for n in h1 if not _c07_untokenizable(n) and not isinstance(h1[n], str)]
        bad_here = [n for n in det if h1[n] != h2[n]]
        bad_fresh = [n for n in det if h1[n] != fr.get(n)]
        bad_pick = [n for n, v in pk.items() if isinstance(v, str) or not (v[0] and v[1])]
        return {"rebuild-in-process-keeps-name-keys-chunks-dtype": bad_here == [],
                "rebuild-in-a-fresh-interpreter-keeps-name-keys-chunks-dtype": bad_fresh == [],
                "pickle-round-trip-keeps-name-keys-chunks-dtype-and-values": bad_pick == [],
                "not-vacuous": len(det) > 0 or all(_c07_untokenizable(n) for n in h1)}

    SHARD = 0

    def domain(tier, rng):
        raise NotImplementedError


_C07_SHARDS = 8


def _c07_shard(k):
    def domain(tier, rng):
        n = len(_c09_programs(tier))
        nb = (n + 39) // 40
        for b in range(k, nb, _C07_SHARDS):
            yield {"tier": tier, "batch": b}
    cls = type(f"names_deterministic_{k}", (_names_deterministic_base,), {"domain": domain, "SHARD": k,
               "__doc__": _names_deterministic_base.__doc__ + f" (shard {k} of {_C07_SHARDS}: batches k, k+{_C07_SHARDS}, ...; the shards run in parallel)"})
    return contract("dask_array/_expr.py::ArrayExpr.__reduce__", spec=f"names-deterministic-and-pickle-stable-{k}", props=["C07"])(cls)


names_deterministic = [_c07_shard(k) for k in range(_C07_SHARDS)]


# ---------------------------------------------------------------------------
# C05: every compute / persist / optimize entry point agrees
# ---------------------------------------------------------------------------
def _c05_followons():
    import numpy as np
    return {
        "+1": (lambda t: t + 1, lambda a: a + 1),
        "first": (lambda t: t[tuple(slice(0, max(1, s // 2)) for s in t.shape)] if t.ndim else t,
                  lambda a: a[tuple(slice(0, max(1, s // 2)) for s in a.shape)] if a.ndim else a),
        "sum": (lambda t: t.sum(), lambda a: a.sum()),
        "T": (lambda t: t.T, lambda a: a.T),
        "rechunk": (lambda t: t.rechunk(tuple(max(1, s // 2) if s == s else -1 for s in t.shape)) if t.ndim else t, lambda a: a),
    }


class _entry_points_agree_base:
    """x.compute(), dask.compute(x, other), x.persist(), dask.persist(x), dask.optimize(x), x.optimize() and x.to_delayed()
    all yield the same values; the persisted and the dask-optimised collections keep x's name, chunks and dtype; follow-on
    operations applied to a persisted / optimised collection compute what they compute when applied to x"""
    bounded_only = True
    params = {"prog": "const", "tier": "const"}
    scope = "catalogue and rewrite-target programs; 7 entry points; 5 follow-on operations on each returned collection"

    def real():
        return lambda self: None

    def call(fn, prog, tier):
        import dask
        import numpy as np
        import dask_array as da
        x, expected, info = _c09_programs(tier)[prog]()
        out = {"errors": {}, "vals": {}, "meta": {}, "follow": {}}

        def attempt(label, f):
            try:
                out["vals"][label] = np.asarray(f())
            except Exception as ex:
                out["errors"][label] = f"{type(ex).__name__}: {str(ex)[:90]}"

        attempt("x.compute()", lambda: x.compute(scheduler="sync"))
        other = da.ones((3,), chunks=2) * 2
        attempt("dask.compute(x, other)", lambda: dask.compute(x, other, scheduler="sync")[0])
        attempt("dask.compute(other, x)", lambda: dask.compute(other, x + 0, x, scheduler="sync")[2])
        coll = {}
        for label, f in (("x.persist()", lambda: x.persist(scheduler="sync")), ("dask.persist(x)", lambda: dask.persist(x, scheduler="sync")[0]),
                         ("dask.persist(x, other)", lambda: dask.persist(x, other, scheduler="sync")[0]),
                         ("dask.optimize(x)", lambda: dask.optimize(x)[0]), ("dask.optimize(x, other)", lambda: dask.optimize(x, other)[0]),
                         ("x.optimize()", lambda: x.optimize())):
            try:
                c = f()
                coll[label] = c
                # x.optimize() is the collection over the optimised expression: its name and its block layout are the
                # optimiser's; the property asks name / chunks only of the persisted and the dask-optimised collections
                free = label == "x.optimize()"
                out["meta"][label] = [getattr(c, "name", None) == x.name or free, repr(c.chunks) == repr(x.chunks) or free,
                                      str(c.dtype) == str(x.dtype), type(c).__module__.split(".")[0]]
                attempt(label, lambda c=c: c.compute(scheduler="sync"))
            except Exception as ex:
                out["errors"][label] = f"{type(ex).__name__}: {str(ex)[:90]}"

        def from_delayed():
            blocks = x.to_delayed()
            vals = np.empty(blocks.shape, dtype=object)
            for idx in np.ndindex(*blocks.shape):
                vals[idx] = np.asarray(blocks[idx].compute(scheduler="sync"))
            return np.block(vals.tolist()) if blocks.ndim else vals[()]
        attempt("x.to_delayed()", from_delayed)
        if "unknown" not in prog:
            for fl, (f, g) in _c05_followons().items():
                try:
                    want = np.asarray(f(x).compute(scheduler="sync"))
                except Exception:
                    continue   # the operation does not apply to x itself
                for label, c in coll.items():
                    try:
                        got = np.asarray(f(c).compute(scheduler="sync"))
                        out["follow"][f"{fl} on {label}"] = _same(got, want)
                    except Exception as ex:
                        out["errors"][f"{fl} on {label}"] = f"{type(ex).__name__}: {str(ex)[:90]}"
        out["expected"] = expected
        return out

    def requires(prog, tier):
        return True

    def ensures(result, prog, tier):
        vals, errs = result["vals"], result["errors"]
        if "x.compute()" not in vals:
            return {"program-computes": True}    # a program x.compute() refuses says nothing about C05
        base = vals["x.compute()"]
        unknown = "unknown" in prog
        r = {"every-entry-point-computes": errs == {},
             "every-entry-point-yields-x.compute()": all(_same(v, base) for k, v in vals.items()),
             "persisted-and-optimised-collections-keep-name-chunks-dtype": all(m[0] and (m[1] or unknown) and m[2] for m in result["meta"].values()),
             "returned-collections-are-dask_array-arrays": all(m[3] == "dask_array" for m in result["meta"].values()),
             "follow-on-operations-agree": all(result["follow"].values())}
        if result["expected"] is not None:
            r["x.compute()-equals-numpy"] = _same(base, result["expected"])
        return r

    def domain(tier, rng):
        raise NotImplementedError


_C05_SHARDS = 10


def _c05_shard(k):
    def domain(tier, rng):
        for i, n in enumerate(_c09_programs(tier)):
            if i % _C05_SHARDS == k:
                yield {"prog": n, "tier": tier}
    cls = type(f"entry_points_agree_{k}", (_entry_points_agree_base,), {"domain": domain,
               "__doc__": _entry_points_agree_base.__doc__ + f" (shard {k} of {_C05_SHARDS}: every {_C05_SHARDS}th program; the shards run in parallel)"})
    return contract("dask_array/_collection.py::Array.__dask_postpersist__", spec=f"entry-points-agree-{k}", props=["C05"])(cls)


entry_points_agree = [_c05_shard(k) for k in range(_C05_SHARDS)]


# ---------------------------------------------------------------------------
# C06: equal names denote equal arrays
# ---------------------------------------------------------------------------
def _c06_operand_print(op):
    """a structural print of one operand that does not go through dask.tokenize (names are built from tokens; the point is
    to notice a name that ignores something the array depends on)"""
    import hashlib
    import numpy as np
    from dask._expr import Expr
    if isinstance(op, Expr):
        return ("expr", op._name)
    if isinstance(op, np.ndarray):
        return ("ndarray", op.shape, str(op.dtype), hashlib.sha1(np.ascontiguousarray(op).tobytes()).hexdigest() if op.dtype != object else repr(op.tolist())[:200])
    if isinstance(op, (tuple, list)):
        return (type(op).__name__,) + tuple(_c06_operand_print(o) for o in op)
    if isinstance(op, dict):
        return ("dict",) + tuple((repr(k), _c06_operand_print(v)) for k, v in op.items())
    if isinstance(op, (int, float, complex, str, bytes, bool, type(None), slice, np.generic, np.dtype, type)):
        return ("lit", repr(op))
    if callable(op):
        import functools
        if isinstance(op, functools.partial):
            return ("partial", _c06_operand_print(op.func), _c06_operand_print(op.args), _c06_operand_print(op.keywords))
        code = getattr(op, "__code__", None)
        return ("callable", getattr(op, "__module__", None), getattr(op, "__qualname__", type(op).__name__),
                hashlib.sha1(code.co_code).hexdigest() if code is not None else None,
                repr(getattr(code, "co_consts", None))[:200],
                tuple(_c06_operand_print(c.cell_contents) for c in (getattr(op, "__closure__", None) or ())))
    return ("obj", type(op).__name__, id(op) if not hasattr(op, "shape") else (getattr(op, "shape", None), str(getattr(op, "dtype", None)), id(op)))


def _c06_node_print(node):
    return (type(node).__name__,) + tuple(_c06_operand_print(op) for op in node.operands)


@contract("dask_array/_expr.py::ArrayExpr._name", spec="equal-names-equal-arrays", props=["C06"])
class equal_names_equal_arrays:
    """over every node of every catalogue / rewrite-target program in its raw, simplified, lowered and fused form, minted in
    ONE process: two nodes that carry the same name have the same shape, chunks and dtype, and -- when their operands differ
    structurally (a print of the operands that does not go through dask.tokenize) -- compute the same values; and every key of
    two collections' graphs that coincides is defined by tasks computing the same value"""
    bounded_only = True
    params = {"tier": "const"}
    scope = ("all nodes of all catalogue and rewrite-target programs x 4 forms, registered by name in one process; graph keys of "
             "every 7th pair of consecutive programs compared by value")

    def real():
        return lambda self: None

    def call(fn, tier):
        import gc
        import numpy as np
        import dask
        progs = _c09_programs(tier)
        reg = {}          # name -> (print, meta, first program)
        clashes = []      # metadata differs
        differing = []    # same name, different structural print -> compare values
        nodes = 0
        for pi, (pname, mk) in enumerate(progs.items()):
            try:
                x = mk()[0]
                e = x.expr
                forms = [e]
                try:
                    s_ = e.simplify()
                    l_ = s_.lower_completely()
                    forms += [s_, l_, l_.fuse()]
                except Exception:
                    pass
            except Exception:
                continue
            seen = set()
            for root in forms:
                for node in root.walk():
                    if id(node) in seen or not hasattr(node, "chunks"):
                        continue
                    seen.add(id(node))
                    nodes += 1
                    try:
                        meta = (tuple(node.shape) if node.shape == node.shape else repr(node.shape), repr(node.chunks), str(node.dtype))
                        pr = _c06_node_print(node)
                    except Exception:
                        continue
                    old = reg.get(node._name)
                    if old is None:
                        # the value behind a name is taken when the name is first minted: the node itself cannot be kept (a live
                        # node makes SingletonExpr hand back that very instance for every later construction of the name)
                        try:
                            v0 = _eval_unoptimized(node)
                        except Exception:
                            v0 = None
                        reg[node._name] = (pr, meta, pname, v0)
                        continue
                    if repr(old[1]) != repr(meta):
                        clashes.append((node._name, old[2], pname, old[1], meta))
                    elif old[0] != pr and type(node).__name__ not in ("FromGraph", "RootAlias"):
                        # same name, structurally different operands: the values decide
                        try:
                            v = _eval_unoptimized(node)
                            ov = old[3]
                            differing.append((node._name, old[2], pname, None if ov is None else _same(v, ov), type(node).__name__))
                            if ov is None:
                                reg[node._name] = (old[0], old[1], old[2], v)
                        except Exception as ex:
                            differing.append((node._name, old[2], pname, f"ERR {type(ex).__name__}", type(node).__name__))
            del x, e, forms
            if pi % 50 == 0:
                gc.collect()
        undecided = [d for d in differing if d[3] is None]
        return {"nodes": nodes, "names": len(reg), "clashes": clashes[:20], "n_clashes": len(clashes),
                "value_mismatches": [d for d in differing if d[3] is False or isinstance(d[3], str)][:20],
                "structurally_different_same_name": len(differing), "first_seen_without_value": len(undecided)}

    def requires(tier):
        return True

    def ensures(result, tier):
        return {"same-name-same-shape-chunks-dtype": result["n_clashes"] == 0,
                "same-name-structurally-different-nodes-compute-the-same": result["value_mismatches"] == [],
                "not-vacuous": result["nodes"] > 1000 and result["names"] > 500}

    def domain(tier, rng):
        yield {"tier": tier}


@contract("dask_array/reductions/_reduction.py::_normalize_split_every", spec="split-every-settings", props=["C09"])
class reductions_under_split_every:
    """a reduction computes NumPy's value under every setting of split_every -- an integer or a per-axis dict with
    different fan-ins, given as a keyword, or through the configuration in effect at construction, at compute time, or
    both -- for block grids on which the axes need different numbers of tree levels"""
    bounded_only = True
    params = {"grid": "const", "split": "const", "how": "const"}
    scope = ("2-D arrays with block grids (3,4) (5,6) (4,2) (2,7), 3-D (2,3,4); 14 split_every settings (ints 2 3 4 8 16, per-axis "
             "dicts with equal and different fan-ins, partial dicts); keyword / config at construction / at compute / both; "
             "sum, max, argmax, mean, var over all axes, axis 0, axis 1, keepdims both")

    SPLITS = [2, 3, 4, 8, 16, {0: 2, 1: 8}, {0: 8, 1: 2}, {0: 2, 1: 6}, {0: 3, 1: 16}, {0: 2, 1: 2}, {0: 2}, {1: 3}, {0: 16, 1: 2}, {0: 4, 1: 3}]

    def real():
        return lambda split_every, axis: None

    def call(fn, grid, split, how):
        import dask
        import numpy as np
        import dask_array as da
        shape = tuple(2 * g for g in grid)
        d = (np.arange(int(np.prod(shape)), dtype="f8").reshape(shape) * 7) % 23
        se = reductions_under_split_every.SPLITS[split]
        if isinstance(se, dict):
            se = {k: v for k, v in se.items() if k < len(grid)}
        bad = []

        def build_all(x, kw):
            out = {}
            for red in ("sum", "max", "argmax", "mean", "var"):
                for axis in (None, 0, 1, (0, 1)):
                    for keep in (False, True):
                        if red == "argmax" and (axis == (0, 1) or keep):
                            continue
                        k2 = dict(kw)
                        if isinstance(k2.get("split_every"), dict) and axis is not None and red != "argmax":
                            ax = (axis,) if isinstance(axis, int) else axis
                            k2["split_every"] = {a: v for a, v in k2["split_every"].items() if a in ax} or None
                            if k2["split_every"] is None:
                                k2.pop("split_every")
                        if red == "argmax":
                            k2.pop("split_every", None) if isinstance(k2.get("split_every"), dict) else None
                            out[(red, axis, keep)] = getattr(da, red)(x, axis=axis, **k2)
                        else:
                            out[(red, axis, keep)] = getattr(x, red)(axis=axis, keepdims=keep, **k2)
            return out

        def refs():
            out = {}
            for red in ("sum", "max", "argmax", "mean", "var"):
                for axis in (None, 0, 1, (0, 1)):
                    for keep in (False, True):
                        if red == "argmax" and (axis == (0, 1) or keep):
                            continue
                        out[(red, axis, keep)] = getattr(np, red)(d, axis=axis) if red == "argmax" else getattr(d, red)(axis=axis, keepdims=keep)
            return out
        want = refs()
        mk = lambda: da.from_array(d, chunks=2)
        try:
            if how == "keyword":
                progs = build_all(mk(), {"split_every": se})
                got = {k: np.asarray(v.compute(scheduler="sync")) for k, v in progs.items()}
            elif how == "construction":
                with dask.config.set(split_every=se):
                    progs = build_all(mk(), {})
                got = {k: np.asarray(v.compute(scheduler="sync")) for k, v in progs.items()}
            elif how == "compute":
                progs = build_all(mk(), {})
                with dask.config.set(split_every=se):
                    got = {k: np.asarray(v.compute(scheduler="sync")) for k, v in progs.items()}
            else:
                with dask.config.set(split_every=se):
                    progs = build_all(mk(), {})
                    got = {k: np.asarray(v.compute(scheduler="sync")) for k, v in progs.items()}
        except Exception as ex:
            return {"error": f"{type(ex).__name__}: {str(ex)[:100]}", "bad": []}
        for k in want:
            if not _same(got[k], want[k]):
                bad.append([repr(k), np.asarray(got[k]).tolist() if np.asarray(got[k]).size < 8 else "...", np.asarray(want[k]).tolist() if np.asarray(want[k]).size < 8 else "..."])
        return {"error": None, "bad": bad, "n": len(want)}

    def requires(grid, split, how):
        return True

    def ensures(result, grid, split, how):
        return {"every-reduction-computes-under-the-setting": result["error"] is None,
                "values-equal-numpy": result["bad"] == []}

    def domain(tier, rng):
        grids = [(3, 4), (5, 6), (4, 2), (2, 7), (2, 3, 4)]
        hows = ("keyword", "construction", "compute", "both")
        for gi, grid in enumerate(grids):
            for si in range(len(reductions_under_split_every.SPLITS)):
                for hi, how in enumerate(hows):
                    if tier == "quick" and (gi + si + hi) % 2:
                        continue
                    yield {"grid": grid, "split": si, "how": how}


@contract("dask_array/_collection.py::Array._replace_expr", spec="entry-points-agree-after-in-place-updates", props=["C05", "C11"])
class entry_points_after_inplace:
    """after a collection has been materialized once (computed, persisted, turned into delayed blocks, or its graph read)
    and then updated in place (mask / slice / integer-list assignment, augmented assignment, a ufunc with out=,
    compute_chunk_sizes), every entry point -- the methods, which read the cached materialization, and the dask.* functions,
    which read the expression -- yields the updated values, and the persisted collection carries the updated name"""
    bounded_only = True
    params = {"first": "const", "update": "const", "chunks": "const"}
    scope = "1-D float array of 12 in 3 layouts; 5 ways of materializing first; 7 in-place updates; 9 entry points"

    def real():
        return lambda self, expr: None

    def call(fn, first, update, chunks):
        import dask
        import numpy as np
        import dask_array as da
        d = (np.arange(12.0) * 5) % 13
        x = da.from_array(d, chunks=chunks) + 1
        ref = d + 1
        if first == "compute":
            x.compute(scheduler="sync")
        elif first == "persist":
            x.persist(scheduler="sync")
        elif first == "to_delayed":
            x.to_delayed()
        elif first == "graph":
            x.dask
            x.__dask_keys__()
        # "none": not materialized before the update
        if update == "mask":
            x[x > 10] = -1
            ref = np.where(ref > 10, -1, ref)
        elif update == "slice":
            x[2:9:2] = 100
            ref[2:9:2] = 100
        elif update == "list":
            x[[1, 7, 3]] = np.array([5.0, 6.0, 7.0])
            ref[[1, 7, 3]] = np.array([5.0, 6.0, 7.0])
        elif update == "iadd":
            x += 2
            ref = ref + 2
        elif update == "imul-dask":
            x *= da.from_array(np.arange(12.0), chunks=5)
            ref = ref * np.arange(12.0)
        elif update == "out":
            da.negative(x, out=x)
            ref = -ref
        elif update == "mask-then-slice":
            x[x > 10] = -1
            ref = np.where(ref > 10, -1, ref)
            x[:3] = 0
            ref[:3] = 0
        other = da.ones((3,), chunks=2)
        vals, errs, meta = {}, {}, {}

        def attempt(label, f):
            try:
                vals[label] = np.asarray(f())
            except Exception as ex:
                errs[label] = f"{type(ex).__name__}: {str(ex)[:80]}"
        attempt("x.compute()", lambda: x.compute(scheduler="sync"))
        attempt("dask.compute(x)", lambda: dask.compute(x, scheduler="sync")[0])
        attempt("dask.compute(x, other)", lambda: dask.compute(x, other, scheduler="sync")[0])
        for label, f in (("x.persist()", lambda: x.persist(scheduler="sync")), ("dask.persist(x)", lambda: dask.persist(x, scheduler="sync")[0]),
                         ("dask.optimize(x)", lambda: dask.optimize(x)[0]), ("x.optimize()", lambda: x.optimize())):
            try:
                c = f()
                meta[label] = c.name == x.name or label == "x.optimize()"
                attempt(label, lambda c=c: c.compute(scheduler="sync"))
                attempt(label + " * 2", lambda c=c: (c * 2).compute(scheduler="sync") / 2)
            except Exception as ex:
                errs[label] = f"{type(ex).__name__}: {str(ex)[:80]}"

        def from_delayed():
            return np.concatenate([np.asarray(b.compute(scheduler="sync")) for b in x.to_delayed().ravel()])
        attempt("x.to_delayed()", from_delayed)
        attempt("graph+keys", lambda: np.concatenate(dask.get(dict(x.__dask_graph__()), list(x.__dask_keys__()))))
        return {"vals": vals, "errs": errs, "meta": meta, "ref": ref}

    def requires(first, update, chunks):
        return True

    def ensures(result, first, update, chunks):
        return {"every-entry-point-computes": result["errs"] == {},
                "every-entry-point-yields-the-updated-values": all(_same(v, result["ref"]) for v in result["vals"].values()),
                "persisted-and-optimised-collections-carry-the-updated-name": all(result["meta"].values())}

    def domain(tier, rng):
        for first in ("none", "compute", "persist", "to_delayed", "graph"):
            for update in ("mask", "slice", "list", "iadd", "imul-dask", "out", "mask-then-slice"):
                for chunks in ((4,), (5,), (12,)):
                    yield {"first": first, "update": update, "chunks": chunks}


@contract("dask_array/_expr.py::ArrayExpr._name", spec="near-miss-families", props=["C06"])
class names_near_miss_families:
    """families of programs that differ in exactly one respect that matters (block sizes with the same number of blocks, a
    region of the same length, a closure cell, a configuration value, the data behind a user-supplied name, a scalar that
    compares equal, ...): with all members of a family ALIVE together -- so that de-duplication by name would substitute one
    for another -- every member has the chunks and dtype NumPy / the request imply and computes its own values; members
    that share a name are the same array; and the same holds when the members are built one after the other with nothing
    kept alive (the name-keyed registries emptied in between)"""
    bounded_only = True
    params = {"family": "const"}
    scope = "about 90 families of 2-7 near-miss programs (random, from_array auto / user names / regions, creation routines, rechunk, map_blocks closures, scalars, dtypes, axes, indices, masks)"

    def real():
        return lambda self: None

    def call(fn, family):
        import gc
        import numpy as np
        members = cat.naming_families()[family]
        out = {"alive": [], "alone": []}
        for mode in ("alive", "alone"):
            kept = []
            for label, build in members:
                try:
                    x, want, chunks = build()
                    got = np.asarray(x.compute(scheduler="sync"))
                    rec = {"label": label, "name": x.name, "chunks": repr(x.chunks), "dtype": str(x.dtype), "value": got,
                           "want": want, "want_chunks": None if chunks is None else repr(tuple(tuple(c) for c in chunks)),
                           "block_shapes_ok": _block_shapes_ok(x), "err": None}
                except Exception as ex:
                    rec = {"label": label, "err": f"{type(ex).__name__}: {str(ex)[:80]}"}
                    x = None
                out[mode].append(rec)
                if mode == "alive":
                    kept.append(x)
                else:
                    del x
                    gc.collect()
            del kept
            gc.collect()
        return out

    def requires(family):
        return True

    def ensures(result, family):
        r = {}
        for mode in ("alive", "alone"):
            recs = result[mode]
            ok_err = all(m["err"] is None for m in recs)
            good = [m for m in recs if m["err"] is None]
            r[f"{mode}:every-member-builds-and-computes"] = ok_err
            r[f"{mode}:values-are-the-members-own"] = all(m["want"] is None or (_same(m["value"], m["want"]) and str(np_dtype(m["want"])) == m["dtype"]) for m in good)
            r[f"{mode}:chunks-are-the-requested-ones"] = all(m["want_chunks"] is None or m["chunks"] == m["want_chunks"] for m in good)
            r[f"{mode}:blocks-have-the-advertised-shapes"] = all(m["block_shapes_ok"] for m in good)
            same = True
            for i, a in enumerate(good):
                for b in good[i + 1:]:
                    if a["name"] == b["name"] and not (a["chunks"] == b["chunks"] and a["dtype"] == b["dtype"] and _same(a["value"], b["value"])):
                        same = False
            r[f"{mode}:members-sharing-a-name-are-the-same-array"] = same
        # what a member is must not depend on who else is alive
        pairs = zip(result["alive"], result["alone"])
        r["a-member-is-the-same-array-whoever-else-is-alive"] = all(
            a["err"] is not None or b["err"] is not None or (a["chunks"] == b["chunks"] and a["dtype"] == b["dtype"] and
                                                              (family.startswith("random") and a["name"] != b["name"] or _same(a["value"], b["value"])))
            for a, b in pairs)
        return r

    def domain(tier, rng):
        for family in cat.naming_families():
            yield {"family": family}


def np_dtype(a):
    import numpy as np
    return np.asarray(a).dtype


def _block_shapes_ok(x):
    """every block of the collection's own graph has the shape its advertised chunks say (unknown sizes excepted)"""
    import itertools
    import math
    import dask
    import numpy as np
    keys = list(dask.core.flatten(x.__dask_keys__()))
    vals = dask.get(dict(x.__dask_graph__()), keys)
    grid = list(itertools.product(*[range(len(c)) for c in x.chunks])) if x.chunks else [()]
    for idx, v in zip(grid, vals):
        want = tuple(c[i] for c, i in zip(x.chunks, idx))
        got = np.asarray(v).shape
        if len(got) != len(want) or any(not (isinstance(w, float) and math.isnan(w)) and g != w for g, w in zip(got, want)):
            return False
    return True


# ---------------------------------------------------------------------------
# C21: the Frisky records path computes what the dask graph computes
# ---------------------------------------------------------------------------
def _c21_refs(obj, out):
    """keys (as strings) of the TaskRefs a record's arguments contain where Frisky resolves them: in lists / tuples and in
    dict VALUES (documented in _frisky/graph_records.py: dict keys and sets are not searched)"""
    from dask._task_spec import TaskRef
    if isinstance(obj, TaskRef):
        out.add(str(obj.key))
    elif isinstance(obj, (list, tuple)):
        for o in obj:
            _c21_refs(o, out)
    elif isinstance(obj, dict):
        for o in obj.values():
            _c21_refs(o, out)
    return out


def _c21_resolve(obj, results):
    from dask._task_spec import TaskRef
    if isinstance(obj, TaskRef):
        return results[str(obj.key)]
    if isinstance(obj, list):
        return [_c21_resolve(o, results) for o in obj]
    if isinstance(obj, tuple):
        return tuple(_c21_resolve(o, results) for o in obj)
    if isinstance(obj, dict):
        return {k: _c21_resolve(v, results) for k, v in obj.items()}
    return obj


def _c21_execute(records, wanted):
    """an in-process executor over (key, func, args, kwargs, deps) records: a record runs when the records named in its
    deps have run (nothing else orders it), its TaskRefs are replaced by their results"""
    by_key = {}
    for r in records:
        by_key.setdefault(r[0], r)
    results = {}
    state = {}
    order = []
    for root in wanted:
        stack = [(root, False)]
        while stack:
            k, done = stack.pop()
            if done:
                order.append(k)
                state[k] = 2
                continue
            if state.get(k):
                if state[k] == 1:
                    raise RuntimeError(f"cycle through {k}")
                continue
            state[k] = 1
            stack.append((k, True))
            for d in by_key[k][4]:
                if state.get(d) != 2:
                    stack.append((d, False))
    for k in order:
        key, func, args, kwargs, deps = by_key[k]
        avail = {d: results[d] for d in deps}
        results[k] = func(*_c21_resolve(args, avail), **_c21_resolve(kwargs, avail))
    return results


class frisky_records_agree:
    """the task records of __frisky_graph__() (and the plain records of __frisky_records_chunks__() when no layer goes
    binary) either are declined with NotImplementedError or form a complete graph: no dangling dependency, every output key of
    __frisky_output_keys__() defined, every TaskRef a record's arguments contain declared among its deps, one definition per
    key; executed by an in-process executor that orders records by their declared deps only, they compute the block values
    __dask_graph__() computes. Two collections over the same source walked with a shared `seen` set together form a complete
    graph computing both"""
    bounded_only = True
    params = {"prog": "const", "tier": "const"}
    scope = ("catalogue and rewrite-target programs (the native extension is not built here, so every layer goes through the "
             "generic GraphRecordsLayer translation, which is what the property says is trusted); every program also paired with "
             "its successor in the catalogue under a shared `seen` set")

    def real():
        return lambda collection, seen=None: None

    def call(fn, prog, tier):
        import dask
        import numpy as np
        progs = _c09_programs(tier)
        names = list(progs)
        x = progs[prog]()[0]
        out = {"declined": False, "problems": [], "values_ok": None, "chunks_path": None, "pair": None}

        def analyse(records, outkeys, label):
            keys = [r[0] for r in records]
            produced = set(keys)
            dup = sorted({k for k in keys if keys.count(k) > 1})[:3] if len(keys) != len(produced) else []
            if dup:
                defs = {}
                for r in records:
                    defs.setdefault(r[0], []).append(r)
                if any(len({(repr(d[1]), repr(d[4])) for d in defs[k]}) > 1 for k in dup):
                    out["problems"].append(f"{label}: key defined twice with different records: {dup[0]}")
            dangling = sorted({d for r in records for d in r[4]} - produced)
            if dangling:
                out["problems"].append(f"{label}: dangling dependency {dangling[0]}")
            missing = [k for k in outkeys if k not in produced]
            if missing:
                out["problems"].append(f"{label}: output key not defined {missing[0]}")
            for r in records:
                refs = _c21_refs(r[2], _c21_refs(r[3], set()))
                undeclared = refs - set(r[4])
                if undeclared:
                    out["problems"].append(f"{label}: record {r[0]} uses {sorted(undeclared)[0]} without declaring it")
                    break
            return not (dangling or missing)

        def blocks(c):
            ks = list(dask.core.flatten(c.__dask_keys__()))
            return [np.asarray(v) for v in dask.get(dict(c.__dask_graph__()), ks)]

        try:
            want = blocks(x)
        except Exception:
            return {"skip": True}
        try:
            recs = x.__frisky_graph__()
        except NotImplementedError:
            out["declined"] = True
            recs = None
        if recs is not None:
            outkeys = x.__frisky_output_keys__()
            if analyse(recs, outkeys, "graph"):
                try:
                    res = _c21_execute(recs, outkeys)
                    got = [np.asarray(res[k]) for k in outkeys]
                    out["values_ok"] = len(got) == len(want) and all(_same(g, w) for g, w in zip(got, want))
                except Exception as ex:
                    out["problems"].append(f"graph: executing the records raised {type(ex).__name__}: {str(ex)[:80]}")
        try:
            chunks, recs2, groups = x.__frisky_records_chunks__()
            if chunks:
                out["chunks_path"] = "binary chunks present (not decoded here)"
            else:
                outkeys = x.__frisky_output_keys__()
                if analyse(recs2, outkeys, "records_chunks"):
                    res = _c21_execute(recs2, outkeys)
                    got = [np.asarray(res[k]) for k in outkeys]
                    out["chunks_path"] = len(got) == len(want) and all(_same(g, w) for g, w in zip(got, want))
        except NotImplementedError:
            out["chunks_path"] = "declined"
        except Exception as ex:
            out["problems"].append(f"records_chunks: {type(ex).__name__}: {str(ex)[:80]}")
        # a second collection over (mostly) the same source, walked with a shared `seen` set
        nxt = names[(names.index(prog) + 1) % len(names)]
        try:
            y = progs[nxt]()[0]
            wy = blocks(y)
            seen = set()
            ra = x.__frisky_graph__(seen=seen)
            rb = y.__frisky_graph__(seen=seen)
            union = list(ra) + list(rb)
            ok = analyse(union, x.__frisky_output_keys__() + y.__frisky_output_keys__(), "shared-seen")
            if ok:
                res = _c21_execute(union, x.__frisky_output_keys__() + y.__frisky_output_keys__())
                gx = [np.asarray(res[k]) for k in x.__frisky_output_keys__()]
                gy = [np.asarray(res[k]) for k in y.__frisky_output_keys__()]
                out["pair"] = all(_same(g, w) for g, w in zip(gx, want)) and all(_same(g, w) for g, w in zip(gy, wy)) and len(gy) == len(wy)
        except NotImplementedError:
            out["pair"] = "declined"
        except Exception as ex:
            out["pair"] = f"ERR {type(ex).__name__}: {str(ex)[:80]}"
        return out

    def requires(prog, tier):
        return True

    def ensures(result, prog, tier):
        if result.get("skip"):
            return {"program-computes": True}
        return {"records-are-declined-or-complete-and-well-formed": result["problems"] == [],
                "records-compute-the-dask-graphs-blocks": result["values_ok"] in (True, None),
                "plain-records-of-the-chunks-path-compute-them-too": result["chunks_path"] in (True, None, "declined") or isinstance(result["chunks_path"], str) and result["chunks_path"].startswith("binary"),
                "collections-sharing-a-seen-set-form-one-complete-graph": result["pair"] in (True, None, "declined")}

    def domain(tier, rng):
        raise NotImplementedError


_C21_SHARDS = 10


def _c21_embedded(name):
    """programs that hand a dask collection / delayed value to a block function inside its arguments (F51)"""
    return "<" in name and "dask" in name or "delayed" in name or "swv reduction>" in name


def _c21_plain(tier):
    """the programs of the main contract: those of F51 are left out, and so is the predecessor of each (its shared-`seen`
    partner would be an F51 program)"""
    names = list(_c09_programs(tier))
    skip = set()
    for i, n in enumerate(names):
        if _c21_embedded(n):
            skip.add(n)
            skip.add(names[i - 1])
    return [n for n in names if n not in skip]


def _c21_shard(k):
    def domain(tier, rng):
        for i, n in enumerate(_c21_plain(tier)):
            if i % _C21_SHARDS == k:
                yield {"prog": n, "tier": tier}
    cls = type(f"frisky_records_agree_{k}", (frisky_records_agree,), {"domain": domain,
               "__doc__": frisky_records_agree.__doc__ + f" (shard {k} of {_C21_SHARDS})"})
    return contract("dask_array/_frisky/collect.py::collect_task_records", spec=f"records-compute-the-dask-graph-{k}", props=["C21"])(cls)


_frisky_shards = [_c21_shard(k) for k in range(_C21_SHARDS)]


@contract("dask_array/_frisky/collect.py::collect_record_chunks", spec="embedded-collections-declined-or-complete", props=["C21"])
class frisky_records_embedded(frisky_records_agree):
    """the same for programs that hand a dask collection or a delayed value to a block function inside its arguments (known
    finding F51: the collection's fused tasks are inlined into the Blockwise layer, the generic translation lifts the inner
    tasks of a fused `_execute_subgraph` out of their sub-graph, and their references to the sub-graph's internal keys become
    dangling dependencies; __frisky_graph__() notices and declines, but __frisky_records_chunks__() and the shared-`seen`
    walk hand the incomplete records on -- completeness is delegated to the caller there)"""
    scope = "catalogue / rewrite-target programs with a dask collection or delayed value embedded in a block function's arguments"

    def domain(tier, rng):
        for n in _c09_programs(tier):
            if _c21_embedded(n):
                yield {"prog": n, "tier": tier}


# ---------------------------------------------------------------------------
# C01: generated programs compute what NumPy computes
# ---------------------------------------------------------------------------
class _generated_programs_base:
    """a randomly composed program over the public API (a base array of a drawn shape, dtype and chunking, then up to four
    / six operations drawn from 60: elementwise with broadcasting, indexing with negative steps / integers / None /
    Ellipsis, transposes, flips, rolls, reshapes, expand / squeeze, rechunks, 11 reductions, scans, stacking, take, masks,
    map_blocks, map_overlap, sliding windows, pad, diff, repeat, tile, in-place assignment, matmul / tensordot / outer,
    topk) computes NumPy's values, shape and dtype -- with graph optimisation on and off"""
    bounded_only = True
    params = {"seed": "const", "depth": "const"}
    scope = "program seeds 0..N-1 (quick 1500 programs of depth 4; thorough 40000 of depth 4 and 20000 of depth 6), 10 base shapes incl. 0- and 1-length axes, 5 dtypes, random chunkings"

    def real():
        return lambda self: None

    def call(fn, seed, depth):
        import dask
        import numpy as np
        import warnings
        with warnings.catch_warnings():
            warnings.simplefilter("ignore")
            try:
                x, want, desc = cat.generated_program(seed, depth)
            except Exception as ex:
                return {"desc": f"seed {seed}", "build_error": f"{type(ex).__name__}: {str(ex)[:100]}"}
            out = {"desc": desc, "build_error": None, "shape": tuple(x.shape), "dtype": str(x.dtype), "want_shape": tuple(want.shape),
                   "want_dtype": str(want.dtype), "vals": {}}
            for og in (True, False):
                try:
                    with dask.config.set({"array.optimize-graph": og}), np.errstate(all="ignore"):
                        x2, _, _ = cat.generated_program(seed, depth)
                        out["vals"][og] = np.asarray(x2.compute(scheduler="sync"))
                except Exception as ex:
                    out["vals"][og] = f"ERR {type(ex).__name__}: {str(ex)[:100]}"
            out["want"] = want
        return out

    def requires(seed, depth):
        return True

    def ensures(result, seed, depth):
        if result["build_error"] is not None:
            return {"dask_array-builds-what-numpy-computes": False}
        unknown = any(isinstance(s, float) for s in result["shape"])
        r = {"dask_array-builds-what-numpy-computes": True,
             "advertised-shape-is-numpys": unknown or result["shape"] == result["want_shape"],
             "advertised-dtype-is-numpys": result["dtype"] == result["want_dtype"]}
        for og, v in result["vals"].items():
            tag = "optimised" if og else "unoptimised"
            r[f"{tag}-program-computes"] = not isinstance(v, str)
            if not isinstance(v, str):
                r[f"{tag}-values-shape-dtype-equal-numpy"] = (_close_for_dtype(v, result["want"]) and v.shape == result["want"].shape and
                                                              v.dtype == result["want"].dtype)
        return r

    def domain(tier, rng):
        raise NotImplementedError


def _close_for_dtype(got, want):
    """exact for exact types; for floating types within a tolerance scaled to the type's precision and to the magnitude of
    the values (differences cancel: a float32 variance fed to diff carries the rounding of numbers 100 times larger)"""
    import numpy as np
    got, want = np.asarray(got), np.asarray(want)
    if got.shape != want.shape:
        return False
    if want.dtype.kind not in "fc":
        return _same(got, want)
    eps = float(np.finfo(want.dtype).eps)
    finite = want[np.isfinite(want)]
    scale = float(np.max(np.abs(finite))) if finite.size else 1.0
    with np.errstate(all="ignore"):
        return bool(np.allclose(got, want, rtol=1e4 * eps, atol=1e4 * eps * max(scale, 1.0), equal_nan=True))


_C01_SHARDS = 12


def _c01_shard(k):
    def domain(tier, rng):
        n4, n6 = (1500, 0) if tier == "quick" else (40000, 20000)
        import os
        if os.environ.get("VERIF_C01_SCALE"):     # one-off deeper explorations
            k_ = int(os.environ["VERIF_C01_SCALE"])
            n4, n6 = n4 * k_, max(n6, 1000) * k_
        for s in range(k, n4, _C01_SHARDS):
            if s not in cat.KNOWN_FINDING_SEEDS:
                yield {"seed": s, "depth": 4}
        for s in range(k, n6, _C01_SHARDS):
            if 100000 + s not in cat.KNOWN_FINDING_SEEDS:      # those have their own contract
                yield {"seed": 100000 + s, "depth": 6}
    cls = type(f"generated_programs_{k}", (_generated_programs_base,), {"domain": domain,
               "__doc__": _generated_programs_base.__doc__ + f" (shard {k} of {_C01_SHARDS})"})
    return contract("dask_array/_collection.py::Array.compute", spec=f"generated-programs-{k}", props=["C01"])(cls)


_generated_shards = [_c01_shard(k) for k in range(_C01_SHARDS)]


@contract("dask_array/_collection.py::Array.compute", spec="generated-programs-known-findings", props=["C01", "C09"])
class generated_programs_known(_generated_programs_base):
    """generated programs kept by seed: 109919 (depth 6: take . any . repeat . index[::-2, 1] . max, which raised 'Dimension 0
    has 2 blocks, adjust_chunks specified with 1 blocks' with array.optimize-graph off until the repair a9a805c -- F53, kept as
    a regression program) and a second witness of the known finding F52 (seed 109436, depth 6: the ravel of a take raises
    'cannot reshape array of size 2 into shape (3,)')"""
    scope = "seeds 109919, 109436, 137996, 158270, 89223 of the program generator"

    def domain(tier, rng):
        yield {"seed": 109919, "depth": 6}
        yield {"seed": 109436, "depth": 6}
        # third to fifth witness of F46: a sliding window over a take -- two of them silently wrong, one raising
        yield {"seed": 137996, "depth": 4}
        yield {"seed": 158270, "depth": 6}
        yield {"seed": 89223, "depth": 4}
