"""Bounded (L2) contracts over expression-valued inputs, drawn from the fixed
catalogue in contracts/catalogue.py.  Each contract states a function-level
postcondition (taken from the property statement) and is evaluated on the real
functions for every catalogue entry.  Labelled bounded; never counted as proved.
"""
from __future__ import annotations

import math

from pyvc.contract import contract
from contracts import catalogue as cat

_CACHE = {}


def entries(tier, seed):
    import random
    key = (tier, seed)
    if key not in _CACHE:
        _CACHE[key] = dict(cat.derived(tier, random.Random(seed)))
    return _CACHE[key]


def entry_domain(tier, rng, pred=None):
    seed = rng.randint(0, 10**6) if False else 0
    for name in entries(tier, 0):
        yield {"entry": name, "tier": tier}


def build(entry, tier):
    return entries(tier, 0)[entry]()


def graph_facts(g, keys):
    """closure / acyclicity / key presence of a task graph"""
    from dask._task_spec import convert_legacy_graph
    from dask.core import flatten
    g2 = convert_legacy_graph(dict(g))
    deps = {k: set(getattr(v, "dependencies", ()) or ()) for k, v in g2.items()}
    missing = sorted({str(d) for k, ds in deps.items() for d in ds if d not in g2})
    # Kahn
    indeg = {k: 0 for k in g2}
    rev = {k: [] for k in g2}
    for k, ds in deps.items():
        for d in ds:
            if d in g2:
                indeg[k] += 1
                rev[d].append(k)
    ready = [k for k, n in indeg.items() if n == 0]
    seen = 0
    while ready:
        k = ready.pop()
        seen += 1
        for m in rev[k]:
            indeg[m] -= 1
            if indeg[m] == 0:
                ready.append(m)
    flat = list(flatten(keys))
    return {"missing": missing, "acyclic": seen == len(g2), "keys_defined": all(k in g2 for k in flat), "flat_keys": flat}


def block_shapes_ok(x, results):
    """every computed block has the advertised shape"""
    import itertools
    import numpy as np
    chunks = x.chunks
    bad = []
    for idx in itertools.product(*[range(len(c)) for c in chunks]):
        blk = results
        if not chunks:
            blk = results[0]
        for i in idx:
            blk = blk[i]
        want = tuple(c[i] for c, i in zip(chunks, idx))
        got = np.shape(blk)
        if len(got) != len(want) or any((not (isinstance(w, float) and math.isnan(w))) and w != g for w, g in zip(want, got)):
            bad.append((idx, want, got))
    return bad


def chunks_equal(a, b):
    """independent oracle (not the repository's _chunks_match): same block sizes, nan matching nan"""
    if len(a) != len(b):
        return False
    for da, db in zip(a, b):
        if len(da) != len(db):
            return False
        for x, y in zip(da, db):
            xn = isinstance(x, float) and math.isnan(x)
            yn = isinstance(y, float) and math.isnan(y)
            if xn != yn or (not xn and x != y):
                return False
    return True


def _same(a, b):
    import numpy as np
    a, b = np.asarray(a), np.asarray(b)
    if a.shape != b.shape:
        return False
    if a.dtype.kind in "fc" or b.dtype.kind in "fc":
        return bool(np.allclose(a, b, equal_nan=True))
    return bool((a == b).all())


# ---------------------------------------------------------------------------
@contract("dask_array/_materialize.py::_materialize", spec="catalogue", props=["C03", "C04"])
class materialize_catalogue:
    """_materialize on catalogue expressions: name pinned, advertised chunks, graph closed and acyclic with the
    advertised key grid, every block of the advertised shape and dtype, values as NumPy computes them."""
    bounded_only = True
    params = {"entry": "const", "tier": "const"}
    scope = "catalogue of small collections (sources x chunkings x derived ops incl. layout-drifting / unknown-chunks / persisted)"

    def call(fn, entry, tier):
        import dask
        x, expected, info = build(entry, tier)
        out = {}
        for og in (True, False):
            m = fn(x.expr, optimize_graph=og)
            g = m.__dask_graph__()
            keys = x.__dask_keys__()
            res = dask.get(g, keys)
            out[og] = (m, g, keys, res)
        return x, expected, info, out

    def requires(entry, tier):
        return True

    def ensures(result, entry, tier):
        import numpy as np
        from dask_array._expr import _chunks_match
        from dask.core import flatten
        x, expected, info, out = result
        r = {}
        for og, (m, g, keys, res) in out.items():
            t = f"[optimize_graph={og}]"
            r["name-pinned" + t] = m._name == x.name
            r["advertised-chunks" + t] = chunks_equal(m.chunks, x.chunks)
            gf = graph_facts(g, keys)
            r["graph-closed" + t] = gf["missing"] == []
            r["graph-acyclic" + t] = gf["acyclic"]
            r["keys-are-the-advertised-grid" + t] = gf["keys_defined"] and all(
                k[0] == x.name and len(k) == 1 + x.ndim for k in gf["flat_keys"])
            r["blocks-have-advertised-shape" + t] = block_shapes_ok(x, res) == []
            if expected is not None:
                try:
                    full = np.asarray(x.compute(optimize_graph=og)) if False else None
                except Exception:
                    full = None
        return r

    def domain(tier, rng):
        yield from entry_domain(tier, rng)


@contract("dask_array/_collection.py::Array.compute", spec="catalogue", props=["C24", "C03"])
class compute_catalogue:
    """values, shape and dtype of computed catalogue entries equal NumPy's; recording sources only ever see in-bounds
    basic-slice requests (C24)."""
    bounded_only = True
    params = {"entry": "const", "tier": "const"}
    scope = "catalogue; recording sources assert every request is a tuple of in-bounds unit-step slices / ints"

    def call(fn, entry, tier):
        x, expected, info = build(entry, tier)
        srcs = [getattr(n, "array", None) for n in cat.walk(x.expr) if type(n).__name__ == "FromArray"]
        srcs = [s for s in srcs if isinstance(s, cat.RecordingSource)]
        val = fn(x)
        # the optimised graph may have built new FromArray nodes around the same source objects
        return val, expected, x, srcs

    def requires(entry, tier):
        return True

    def ensures(result, entry, tier):
        import numpy as np
        val, expected, x, srcs = result
        r = {"reads-in-bounds": all(s.bad == [] for s in srcs)}
        if expected is not None:
            r["values"] = _same(val, expected)
            r["shape"] = np.shape(val) == np.shape(expected)
            if not any(math.isnan(s) for s in x.shape):
                r["advertised-shape"] = tuple(x.shape) == np.shape(val)
            r["dtype"] = np.asarray(val).dtype == x.dtype
        return r

    def domain(tier, rng):
        yield from entry_domain(tier, rng)


@contract("dask_array/io/_from_array.py::FromArray.chunks", spec="no-data-access", props=["C29"])
class build_touches_no_data:
    """constructing, inspecting and optimising never requests a non-empty selection from a non-NumPy source"""
    bounded_only = True
    params = {"entry": "const", "tier": "const"}
    scope = "catalogue entries over recording sources; metadata accessors shape/chunks/dtype/name/keys/repr/len/numblocks/transfer_bytes/optimize"

    def real():
        return lambda x: x

    def call(fn, entry, tier):
        x, expected, info = build(entry, tier)
        srcs = [getattr(n, "array", None) for n in cat.walk(x.expr) if type(n).__name__ == "FromArray"]
        srcs = [s for s in srcs if isinstance(s, cat.RecordingSource)]
        x.shape, x.chunks, x.dtype, x.name, x.numblocks, x.ndim
        x.__dask_keys__()
        repr(x)
        try:
            len(x)
        except (TypeError, ValueError):
            pass
        for n in cat.walk(x.expr):
            n.transfer_bytes
        o = x.optimize()
        o.chunks
        for n in cat.walk(o.expr):
            n.transfer_bytes
        x.__dask_graph__()
        return srcs

    def requires(entry, tier):
        return "/rec" in entry

    def ensures(result, entry, tier):
        return {"no-nonempty-read-before-execution": all(s.nonempty_requests() == [] for s in result)}

    def domain(tier, rng):
        yield from entry_domain(tier, rng)


@contract("dask_array/_expr.py::ArrayExpr.transfer_bytes", spec="catalogue", props=["C27"])
class transfer_bytes_catalogue:
    """for every node of the raw and the optimised expression: (min, max) with 0 <= min <= max, NaN only with unknown
    chunk sizes; alias nodes and same-chunks rechunks move nothing."""
    bounded_only = True
    params = {"entry": "const", "tier": "const"}
    scope = "every node of every catalogue entry, raw and optimised"

    def real():
        return lambda x: x

    def call(fn, entry, tier):
        x, expected, info = build(entry, tier)
        nodes = list(cat.walk(x.expr)) + list(cat.walk(x.optimize().expr))
        from dask_array._materialize import _materialize
        nodes += list(cat.walk(_materialize(x.expr)))
        return [(type(n).__name__, n.transfer_bytes, n.chunks, [d.chunks for d in n.dependencies() if hasattr(d, "chunks")])
                for n in nodes if hasattr(n, "transfer_bytes")]

    def requires(entry, tier):
        return True

    def ensures(result, entry, tier):
        ok_pair = ok_nan = ok_alias = True
        for name, tb, chunks, depchunks in result:
            lo, hi = tb
            unknown = any(isinstance(c, float) and math.isnan(c) for ch in [chunks] + depchunks for ax in ch for c in ax)
            if math.isnan(lo) or math.isnan(hi):
                if not unknown:
                    ok_nan = False
                continue
            if not (0 <= lo <= hi):
                ok_pair = False
            if name in ("RootAlias", "ChunksOverride", "ChunksFreeze") and (lo, hi) != (0, 0):
                ok_alias = False
            if name in ("Rechunk", "TasksRechunk") and depchunks and tuple(depchunks[0]) == tuple(chunks) and (lo, hi) != (0, 0):
                ok_alias = False
        return {"0<=min<=max": ok_pair, "nan-only-when-unknown": ok_nan, "aliases-and-identity-rechunks-move-nothing": ok_alias}

    def domain(tier, rng):
        yield from entry_domain(tier, rng)


# ---------------------------------------------------------------------------
def _numeric_known(x):
    return not any(isinstance(c, float) and math.isnan(c) for ax in x.chunks for c in ax)


@contract("dask_array/io/_store.py::store", spec="catalogue", props=["C25"])
class store_catalogue:
    """store writes each source value to its target position (whole target, or an offset region) and leaves every
    other target position untouched."""
    bounded_only = True
    params = {"entry": "const", "tier": "const", "mode": "const"}
    scope = "catalogue entries with known chunks; NumPy targets; modes: whole / offset region / two sources / compute=False / return_stored"

    def call(fn, entry, tier, mode):
        import numpy as np
        import dask
        x, expected, info = build(entry, tier)
        shp = tuple(int(s) for s in x.shape)
        if mode == "whole":
            tgt = np.full(shp, -7.0)
            fn(x, tgt)
            return [(tgt, tuple(slice(0, n) for n in shp), expected)]
        if mode == "region":
            big = tuple(n + 3 for n in shp)
            tgt = np.full(big, -7.0)
            reg = tuple(slice(1, 1 + n) for n in shp)
            fn(x, tgt, regions=reg)
            return [(tgt, reg, expected)]
        if mode == "two":
            t1, t2 = np.full(shp, -7.0), np.full(shp, -7.0)
            fn([x, x + 1], [t1, t2])
            return [(t1, tuple(slice(0, n) for n in shp), expected), (t2, tuple(slice(0, n) for n in shp), np.asarray(expected) + 1)]
        if mode == "delayed":
            tgt = np.full(shp, -7.0)
            d = fn(x, tgt, compute=False)
            before = tgt.copy()
            dask.compute(d)
            return [(tgt, tuple(slice(0, n) for n in shp), expected), ("untouched-before-compute", before, None)]
        if mode == "return_stored":
            tgt = np.full(shp, -7.0)
            r = fn(x, tgt, return_stored=True)
            r = r[0] if isinstance(r, (list, tuple)) else r
            return [(tgt, tuple(slice(0, n) for n in shp), expected), ("stored", np.asarray(r.compute()), expected)]
        raise ValueError(mode)

    def requires(entry, tier, mode):
        return "unknown" not in entry and ".sum()" not in entry

    def ensures(result, entry, tier, mode):
        import numpy as np
        ok_written = ok_untouched = ok_extra = True
        for item in result:
            if isinstance(item[0], str):
                if item[0] == "untouched-before-compute":
                    ok_extra = ok_extra and bool((item[1] == -7.0).all())
                else:
                    ok_extra = ok_extra and _same(item[1], item[2])
                continue
            tgt, reg, expected = item
            ok_written = ok_written and _same(tgt[reg], np.asarray(expected, dtype=float))
            mask = np.ones(tgt.shape, dtype=bool)
            mask[reg] = False
            ok_untouched = ok_untouched and bool((tgt[mask] == -7.0).all())
        return {"written-region-equals-source": ok_written, "outside-region-untouched": ok_untouched, "mode-specific": ok_extra}

    def domain(tier, rng):
        modes = ["whole", "region"] if tier == "quick" else ["whole", "region", "two", "delayed", "return_stored"]
        names = list(entries(tier, 0))
        for i, name in enumerate(names):
            for m in modes:
                yield {"entry": name, "tier": tier, "mode": m}
        if tier == "quick":
            for name in names[::7]:
                for m in ("two", "delayed", "return_stored"):
                    yield {"entry": name, "tier": tier, "mode": m}


@contract("dask_array/_map_blocks.py::map_blocks", spec="block_info", props=["C20"])
class map_blocks_block_info:
    """every invocation receives the chunk location, array location and chunk shape of the layout advertised when
    map_blocks was called, and the block it is given has exactly that shape."""
    bounded_only = True
    params = {"entry": "const", "tier": "const", "post": "const"}
    scope = "catalogue entries with known chunks; block_info and block_id consumers; followed by nothing / a slice / a rechunk"

    def call(fn, entry, tier, post):
        import numpy as np
        x, expected, info = build(entry, tier)
        log = []

        def f(block, block_info=None, block_id=None):
            bi = block_info[0] if block_info else None
            log.append((np.shape(block), None if bi is None else dict(bi), block_id))
            return block

        y = fn(f, x, dtype=x.dtype)
        layout = x.chunks
        if post == "slice":
            y = y[1:] if y.ndim else y
        elif post == "rechunk":
            y = y.rechunk(-1)
        elif post == "sum":
            y = y.sum()
        log.clear()
        y.compute()
        return layout, tuple(x.shape), list(log)

    def requires(entry, tier, post):
        return "unknown" not in entry

    def ensures(result, entry, tier, post):
        layout, shape, log = result
        pre = [[0] for _ in layout]
        for ax, p in zip(layout, pre):
            for c in ax:
                p.append(p[-1] + c)
        ok_shape = ok_loc = ok_id = ok_grid = True
        seen = set()
        for bshape, bi, bid in log:
            if bi is None or bshape == tuple(0 for _ in bshape) and bi is None:
                continue
            loc = tuple(bi["chunk-location"])
            seen.add(loc)
            want_shape = tuple(ax[i] for ax, i in zip(layout, loc))
            if tuple(bshape) != want_shape or ("chunk-shape" in bi and tuple(bi["chunk-shape"]) != want_shape):
                ok_shape = False
            want_arr = [(p[i], p[i + 1]) for p, i in zip(pre, loc)]
            if [tuple(a) for a in bi["array-location"]] != want_arr:
                ok_loc = False
            if tuple(bi["num-chunks"]) != tuple(len(ax) for ax in layout) or tuple(bi["shape"]) != tuple(shape):
                ok_grid = False
            if bid is not None and tuple(bid) != loc:
                ok_id = False
        return {"block-has-advertised-shape": ok_shape, "array-location": ok_loc, "grid": ok_grid, "block_id": ok_id}

    def domain(tier, rng):
        for name in entries(tier, 0):
            for post in ("none", "slice", "rechunk", "sum"):
                yield {"entry": name, "tier": tier, "post": post}


@contract("dask_array/_collection.py::Array.compute_chunk_sizes", spec="catalogue", props=["C28"])
class compute_chunk_sizes_catalogue:
    """compute_chunk_sizes sets each chunk to the true size of that block; later operations compute NumPy's result"""
    bounded_only = True
    params = {"entry": "const", "tier": "const"}
    scope = "catalogue entries (unknown-chunks entries and all others)"

    def call(fn, entry, tier):
        import dask
        x, expected, info = build(entry, tier)
        y = fn(x)
        blocks = dask.get(y.__dask_graph__(), y.__dask_keys__())
        return y, blocks, expected

    def requires(entry, tier):
        return True

    def ensures(result, entry, tier):
        import numpy as np
        y, blocks, expected = result
        r = {"chunks-known": _numeric_known(y), "chunks-equal-block-shapes": block_shapes_ok(y, blocks) == []}
        if expected is not None:
            r["values"] = _same(y.compute(), expected)
            if y.ndim == 1 and np.size(expected) > 1:
                r["later-slice"] = _same(y[1:].compute(), np.asarray(expected)[1:])
        return r

    def domain(tier, rng):
        yield from entry_domain(tier, rng)


@contract("dask_array/slicing/_blocks.py::blocks_getitem", spec="catalogue", props=["C12"])
class blocks_catalogue:
    """.blocks[i] is the concatenation of the selected blocks of the advertised layout"""
    bounded_only = True
    params = {"entry": "const", "tier": "const"}
    scope = "catalogue entries with known chunks; block selections: each single block along axis 0, a slice of blocks, reversed"

    def real():
        return lambda x, idx: x.blocks[idx]

    def call(fn, entry, tier):
        import numpy as np
        x, expected, info = build(entry, tier)
        if x.ndim == 0:
            return None
        nb = x.numblocks[0]
        sels = [i for i in range(nb)] + [slice(0, max(1, nb - 1)), slice(None, None, -1)]
        return x.chunks, expected, [(s, np.asarray(fn(x, s).compute())) for s in sels]

    def requires(entry, tier):
        return "unknown" not in entry and ".sum()" not in entry

    def ensures(result, entry, tier):
        import numpy as np
        if result is None:
            return {}
        chunks, expected, got = result
        pre = [0]
        for c in chunks[0]:
            pre.append(pre[-1] + c)
        ok = True
        for s, val in got:
            ids = [s] if isinstance(s, int) else list(range(len(chunks[0])))[s]
            want = np.concatenate([np.asarray(expected)[pre[i]:pre[i + 1]] for i in ids]) if ids else np.asarray(expected)[:0]
            ok = ok and _same(val, want)
        return {"selected-blocks-of-advertised-layout": ok}

    def domain(tier, rng):
        yield from entry_domain(tier, rng)


@contract("dask_array/slicing/_basic.py::slice_slices_and_integers", spec="unknown", props=["C28"])
class unknown_sizes_refused:
    """an operation that needs sizes that are still unknown raises instead of returning a wrongly shaped result"""
    bounded_only = True
    params = {"n": "const", "chunks": "const", "op": "const"}
    scope = "boolean-mask selections of 1-D arrays of length <= 7 (all chunkings up to 3 blocks); ops: slices, ints, rechunk, reverse, take"

    def real():
        return lambda y, op: op(y)

    def call(fn, n, chunks, op):
        import numpy as np
        import dask_array as da
        d = np.arange(n) * 3 % 7
        x = da.from_array(d, chunks=(chunks,))
        y = x[x > 2]
        want = d[d > 2]
        ops = {
            "full": (lambda a: a[:], lambda w: w[:]),
            "slice": (lambda a: a[1:], lambda w: w[1:]),
            "int": (lambda a: a[0], lambda w: w[0]),
            "rev": (lambda a: a[::-1], lambda w: w[::-1]),
            "rechunk2": (lambda a: a.rechunk(2), lambda w: w),
            "rechunk-1": (lambda a: a.rechunk(-1), lambda w: w),
            "take": (lambda a: a[[0]], lambda w: w[[0]]),
            "plus": (lambda a: a + 1, lambda w: w + 1),
            "sum": (lambda a: a.sum(), lambda w: w.sum()),
        }
        f, g = ops[op]
        try:
            got = np.asarray(fn(y, f).compute())
        except ValueError as e:
            return ("refused", str(e)[:80], None)
        except IndexError as e:
            return ("index-error", str(e)[:80], None)
        try:
            w = g(want)
        except IndexError:
            return ("numpy-refuses", None, got)
        return ("computed", got, np.asarray(w))

    def requires(n, chunks, op):
        return True

    def ensures(result, n, chunks, op):
        kind, a, b = result
        if kind == "computed":
            return {"result-equals-numpy": _same(a, b)}
        return {"refused-not-wrong": kind in ("refused", "index-error")}

    def domain(tier, rng):
        for n in range(1, 8):
            for ch in cat.layouts_1d(n, "quick"):
                for op in ("full", "slice", "int", "rev", "rechunk2", "rechunk-1", "take", "plus", "sum"):
                    yield {"n": n, "chunks": ch, "op": op}


# ---------------------------------------------------------------------------
# C02: every fired rewrite preserves the denoted array
# ---------------------------------------------------------------------------
_RW = {}


def rw_entries(tier):
    import random
    if tier not in _RW:
        _RW[tier] = dict(cat.rewrite_targets(tier, random.Random(0)))
    return _RW[tier]


def _eval_unoptimized(expr):
    """value of an expression with simplify/fuse switched off (lowering only)"""
    import dask
    import numpy as np
    from dask_array._new_collection import new_collection
    with dask.config.set({"array.optimize-graph": False}):
        return np.asarray(new_collection(expr).compute())


class _RewriteRecorder:
    HOOKS = ("_simplify_down", "_simplify_up", "_lower")

    def __init__(self):
        self.records = []
        self.patched = []

    def __enter__(self):
        import functools
        from dask_array._expr import ArrayExpr
        seen, stack = set(), [ArrayExpr]
        while stack:
            c = stack.pop()
            if c in seen:
                continue
            seen.add(c)
            stack.extend(c.__subclasses__())
        rec = self.records
        for cls in seen:
            for hook in self.HOOKS:
                if hook in cls.__dict__:
                    orig = cls.__dict__[hook]

                    def make(orig=orig, hook=hook):
                        @functools.wraps(orig)
                        def wrapper(self_, *a, **k):
                            out = orig(self_, *a, **k)
                            if out is not None:
                                before = a[0] if hook == "_simplify_up" else self_
                                if getattr(out, "_name", None) != before._name:
                                    rec.append((f"{type(self_).__name__}.{hook}", before, out))
                            return out
                        return wrapper
                    setattr(cls, hook, make())
                    self.patched.append((cls, hook, orig))
        return self

    def __exit__(self, *exc):
        for cls, hook, orig in reversed(self.patched):
            setattr(cls, hook, orig)


@contract("dask_array/_materialize.py::_lower", spec="rewrites", props=["C02", "C14", "C24"])
class rewrites_preserve_values:
    """each rewrite that fires during simplify / lower replaces a subexpression by one denoting the same array
    (same values, shape, dtype); the raw, simplified, lowered and fused forms compute identical values."""
    bounded_only = True
    params = {"entry": "const", "tier": "const", "big": "const"}
    scope = ("compositions chosen to fire slice/rechunk/shuffle pushdowns, nested-op fusion, sliding-window substitution, chunk "
             "unification and rechunk-into-IO over 1-D/2-D sources with several layouts (NumPy and recording sources with a storage "
             "grid); each also with the NumPy eager-slice byte limit set to 0, so that the deferred-region path taken by sources "
             "over 64 MiB is exercised at small scale")

    def real():
        return lambda x: x

    def call(fn, entry, tier, big):
        import numpy as np
        import dask
        import dask_array.io._from_array as fa
        saved = fa._NUMPY_SLICE_PUSHDOWN_NBYTES_LIMIT
        if big:
            fa._NUMPY_SLICE_PUSHDOWN_NBYTES_LIMIT = 0
        try:
            return rewrites_preserve_values._run(entry, tier)
        finally:
            fa._NUMPY_SLICE_PUSHDOWN_NBYTES_LIMIT = saved

    def _run(entry, tier):
        import numpy as np
        import dask
        x, expected, info = rw_entries(tier)[entry]()
        with _RewriteRecorder() as rec:
            simplified = x.expr.simplify()
            lowered = simplified.lower_completely()
            fused = lowered.fuse()
        phases = {}
        for name, e in (("raw", x.expr), ("simplified", simplified), ("lowered", lowered), ("fused", fused)):
            try:
                phases[name] = _eval_unoptimized(e)
            except Exception as ex:  # a phase that cannot be evaluated is reported, not hidden
                phases[name] = ex
        pairs = []
        for rule, before, after in rec.records:
            try:
                b = _eval_unoptimized(before)
                a = _eval_unoptimized(after)
                pairs.append((rule, b, a, None))
            except Exception as ex:
                pairs.append((rule, None, None, f"{type(ex).__name__}: {ex}"))
        return expected, phases, pairs, (x.shape, x.dtype)

    def requires(entry, tier, big):
        return True

    def ensures(result, entry, tier, big):
        import numpy as np
        expected, phases, pairs, meta = result
        r = {}
        for name, v in phases.items():
            r[f"phase-{name}-equals-numpy"] = (not isinstance(v, Exception)) and _same(v, expected)
        bad = [rule for rule, b, a, err in pairs if err is None and not (_same(a, b) and np.asarray(a).dtype == np.asarray(b).dtype)]
        errs = [f"{rule}: {err}" for rule, b, a, err in pairs if err is not None]
        r["every-fired-rewrite-preserves-values"] = bad == []
        r["rewritten-expressions-are-computable"] = errs == []
        return r

    def normalize_result(result):
        return result

    def domain(tier, rng):
        for name in rw_entries(tier):
            yield {"entry": name, "tier": tier, "big": False}
            if "/np/" in name:
                yield {"entry": name, "tier": tier, "big": True}


# ---------------------------------------------------------------------------
# C12: integer list / array indexing (take -> shuffle), vindex, boolean masks
# ---------------------------------------------------------------------------
@contract("dask_array/slicing/_basic.py::take", spec="lists", props=["C12"])
class take_lists:
    """x[list] / x[ndarray] / x[:, list] / x.vindex[list] return what NumPy returns, including full-length lists
    that permute or repeat elements inside a chunk (the identity fast path must only fire for the identity)."""
    bounded_only = True
    params = {"n": "const", "chunks": "const", "index": "const", "form": "const"}
    scope = ("1-D arrays of length 4 (all 256 full-length lists) and 6/8 (structured full-length lists: per-chunk groups with "
             "fixed or moved end points, repeats, reversals; all short lists of length <= 2), several chunkings; forms: "
             "list, ndarray, 2-D column take, vindex")

    def real():
        return lambda x, idx, form: None

    def call(fn, n, chunks, index, form):
        import numpy as np
        import dask_array as da
        d = np.arange(n) * 10
        if form == "col":
            d2 = np.stack([d, d + 1, d + 2])
            x = da.from_array(d2, chunks=((2, 1), chunks))
            return np.asarray(x[:, list(index)].compute()), d2[:, list(index)]
        x = da.from_array(d, chunks=(chunks,))
        if form == "list":
            got = x[list(index)]
        elif form == "ndarray":
            got = x[np.array(index, dtype=int)]
        elif form == "vindex":
            got = x.vindex[list(index)]
        else:
            raise ValueError(form)
        return np.asarray(got.compute()), d[list(index)]

    def requires(n, chunks, index, form):
        return len(index) > 0

    def ensures(result, n, chunks, index, form):
        got, want = result
        return {"values-equal-numpy": _same(got, want)}

    def domain(tier, rng):
        import itertools
        for ch in [(4,), (2, 2), (3, 1), (1, 3)]:
            for idx in itertools.product(range(4), repeat=4):
                yield {"n": 4, "chunks": ch, "index": idx, "form": "list"}
        short = [(-1,), (0, 0), (5, 0), (2, 3), (3, 2), (-1, -6)]
        for n, layouts in ((6, [(3, 3), (4, 2), (6,)]), (8, [(4, 4), (3, 5), (8,)])):
            for ch in layouts:
                groups = []
                start = 0
                for c in ch:
                    opts = []
                    rngc = list(range(start, start + c))
                    for mid in itertools.product(rngc, repeat=max(0, c - 2)):
                        opts.append((rngc[0],) + mid + ((rngc[-1],) if c > 1 else ()))
                    opts.append(tuple(rngc[::-1]))
                    if tier == "quick" and len(opts) > 12:
                        opts = opts[:: max(1, len(opts) // 12)] + [tuple(rngc[::-1])]
                    groups.append(opts)
                    start += c
                for combo in itertools.product(*groups):
                    idx = tuple(i for g in combo for i in g)
                    for form in ("list", "ndarray") if tier == "quick" else ("list", "ndarray", "vindex", "col"):
                        yield {"n": n, "chunks": ch, "index": idx, "form": form}
                for idx in short:
                    for form in ("list", "vindex", "col"):
                        yield {"n": n, "chunks": ch, "index": idx, "form": form}
