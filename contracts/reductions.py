"""Contracts for the tree reduction (C18): the block structure of one partial-reduction layer and of the cascade."""
from pyvc.contract import contract, Loop
from pyvc import spec as S

RED = "dask_array/reductions/_reduction.py"


@contract(f"{RED}::PartialReduce.chunks", spec="r1-keepdims", props=["C18", "C03"])
class partial_reduce_chunks:
    """one partial-reduction layer over a reduced axis with group size k: the axis gets ceil(n / k) blocks of size 1
    (n input blocks); an axis that is not reduced keeps its chunks"""
    params = {"self": "obj:PR"}
    result = "tup:seq"
    fields = {"PR": {"array": "obj:Arr", "split_every": "map:int", "keepdims": "const"}, "Arr": {"chunks": "tup:seq", "ndim": "const"}}
    consts = {"self.keepdims": True, "self.array.ndim": 1}

    def requires(self):
        se = self.get("split_every")
        return S.Implies(S.mhas(se, 0), S.as_int(S.mget(se, 0)) >= 1)

    def ensures(result, self):
        se = self.get("split_every")
        c = S.item(self.get("array").get("chunks"), 0)
        r = S.item(result, 0)
        k = S.as_int(S.mget(se, 0))
        reduced = S.mhas(se, 0)
        return {
            "reduced-axis-has-ceil-n-over-k-unit-blocks": S.Implies(reduced, S.And(S.slen(r) == S.ceildiv(S.slen(c), k),
                                                                                  S.forall_idx(r, lambda j: S.at(r, j) == 1))),
            "other-axis-unchanged": S.Implies(S.Not(reduced), S.seq_equal(r, c)),
        }


@contract(f"{RED}::partition_all", spec="model", props=["C18"])
class partition_all_model:
    """validation of the engine's model of toolz.partition_all (assumption A2) on the running library: k >= 1 gives
    ceil(n / k) consecutive groups of at most k items whose concatenation is the input"""
    bounded_only = True
    params = {"k": "const", "n": "const"}
    scope = "1 <= k <= 9, 0 <= n <= 40"

    def real():
        from tlz import partition_all
        return lambda k, n: [tuple(g) for g in partition_all(k, range(n))]

    def requires(k, n):
        return k >= 1

    def ensures(result, k, n):
        flat = [x for g in result for x in g]
        return {"group-count-is-ceil": len(result) == -((-n) // k), "groups-are-consecutive": flat == list(range(n)),
                "group-size": all(1 <= len(g) <= k for g in result)}

    def domain(tier, rng):
        for k in range(1, 10):
            for n in range(0, 41):
                yield {"k": k, "n": n}


# ---------------------------------------------------------------------------
# the cascade: depth - 1 partial layers and one aggregate layer leave ONE block on the reduced axis
# ---------------------------------------------------------------------------
def _pw():
    import z3
    return z3.Function("group_size_power", z3.IntSort(), z3.IntSort())


def _power_axioms(k):
    """group_size_power(j) = k ** j, given as a recurrence (ghost function)"""
    import z3
    pw = _pw()
    j = z3.Int("j!pw")
    return z3.And(pw(0) == 1, z3.ForAll([j], z3.Implies(j >= 0, z3.And(pw(j + 1) == pw(j) * k, pw(j) >= 1)), patterns=[pw(j)]))


def _ext_opaque(ex, st, args, kwargs, node):
    """partial / compose / funcname / sorted of task callables and names: some value (never inspected)"""
    return ex.fresh_value("obj:Fn", "fn")


def _ext_partial_reduce(ex, st, args, kwargs, node):
    """PartialReduce(x, func, split_every, keepdims=True, ...): a node whose reduced axis has ceil(n / k) blocks -- the
    postcondition of PartialReduce.chunks[r1-keepdims], proved as its own unit"""
    import z3
    x = args[0]
    se = args[2]
    o = ex.fresh_value("obj:Arr", "layer")
    nb_in = S.item(ex.obj_field(x, "numblocks", node), 0)
    nb_out = S.item(ex.obj_field(o, "numblocks", node), 0)
    k = S.as_int(se.get(z3.IntVal(0)))
    st.pc.append(nb_out == S.ceildiv(nb_in, k))
    return o


def _assume_depth(ex, st, val):
    """the float computation ceil(log(n, k)) yields a depth with k ** max(1, depth) >= n (validated for n <= 2000 /
    200000 blocks and 2 <= k <= 16 by the bounded contract _build_tree_reduce_expr[depth])"""
    import z3
    pw = _pw()
    n = S.as_int(st.env["n"])
    v = S.as_int(val)
    k = S.as_int(st.env["split_every"].get(z3.IntVal(0)))
    st.pc.append(_power_axioms(k))  # definition of the ghost function k ** j (a definitional extension, not an assumption)
    st.pc.append(pw(z3.If(v > 1, v, 1)) >= n)


@contract(f"{RED}::_build_tree_reduce_expr", spec="r1-keepdims", props=["C18"])
class build_tree_reduce:
    """a reduction over the one axis of a rank-1 array with n >= 1 blocks (integer split_every; the group size k >= 2 comes
    from _normalize_split_every's own contract, used modularly): after the depth - 1
    partial layers and the aggregate layer the reduced axis has exactly one block -- so the tree's shape (fan-in, depth)
    never leaves partial results uncombined.  Uses the nested-ceiling lemma ceil(ceil(n/a)/b) = ceil(n/(a*b))."""
    params = {"x": "obj:Arr", "aggregate": "obj:Fn", "axis": "tup:int", "keepdims": "const", "dtype": "obj:Fn", "split_every": "int",
              "combine": "obj:Fn", "name": "obj:Fn", "concatenate": "const", "reduced_meta": "obj:Fn"}
    consts = {"keepdims": True, "concatenate": False}
    fields = {"Arr": {"numblocks": "tup:int"}, "Fn": {}}
    result = None
    externals = {"partial": _ext_opaque, "compose": _ext_opaque,
                 "funcname": _ext_opaque, "PartialReduce": _ext_partial_reduce}
    havoc = {"math.ceil(math.log(n, split_every[i]))": "int",
             "combine or aggregate": "obj:Fn",
             "(name or funcname(combine or aggregate)) + '-partial'": "obj:Fn",
             "(name or funcname(aggregate)) + '-aggregate'": "obj:Fn"}
    havoc_assume = {"math.ceil(math.log(n, split_every[i]))": _assume_depth}

    def requires(x, aggregate, axis, keepdims, dtype, split_every, combine, name, concatenate, reduced_meta):
        return S.And(S.item(x.get("numblocks"), 0) >= 1, S.item(axis, 0) == 0)

    def ensures(result, x, aggregate, axis, keepdims, dtype, split_every, combine, name, concatenate, reduced_meta, env=None, calls=None):
        return {"one-block-on-the-reduced-axis": S.item(result.get("numblocks"), 0) == 1}

    def _inv(v, v0):
        pw = _pw()
        n0 = S.item(v0.x.get("numblocks"), 0)
        k = S.as_int(v.split_every.get(S._i(0)))
        return {"blocks-after-it-layers": S.item(v.x.get("numblocks"), 0) == S.ceildiv(n0, pw(v.it)),
                "depth": S.And(v.depth >= 1, pw(v.depth) >= n0)}

    def _hints(h, e):
        pw = _pw()
        n0 = S.item(h.x0.get("numblocks"), 0) if False else None
        return {}

    loops = {"for#2": Loop(invariant=_inv)}


def _ext_config_get(ex, st, args, kwargs, node):
    """config.get("split_every", 16): some integer"""
    return ex.fresh_value("int", "config")


def _nse(spec, se_type):
    @contract(f"{RED}::_normalize_split_every", spec=spec, props=["C18"])
    class normalize_split_every:
        """the canonical per-axis form: every reduced axis gets a group size of at least 2 (a fan-in of 1 would never
        reduce the number of blocks), whether split_every was an integer or a per-axis dict"""
        params = {"split_every": se_type, "axis": "tup:int"}
        result = "map:int"
        externals = {"config.get": _ext_config_get}
        havoc = {"split_every ** (1 / (len(axis) or 1))": "int"} if se_type == "int" else {"split_every or config.get('split_every', 16)": "map:int"}
        raises = {}

        def requires(split_every, axis):
            return True

        def ensures(result, split_every, axis):
            a0 = S.item(axis, 0)
            return {"every-reduced-axis-has-fan-in-at-least-2": S.And(S.mhas(result, a0), S.as_int(S.mget(result, a0)) >= 2)}

    normalize_split_every.__name__ = "normalize_split_every_" + spec.replace("-", "_")
    return normalize_split_every


NSE1 = _nse("int-r1", "int")
NSE2 = _nse("dict-r1", "map:int")
