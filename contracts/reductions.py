"""Contracts for the tree reduction (C18): the block structure of one partial-reduction layer and of the cascade."""
from pyvc.contract import contract, Loop
from pyvc import spec as S

RED = "dask_array/reductions/_reduction.py"


def _prc(rank):
    @contract(f"{RED}::PartialReduce.chunks", spec=f"r{rank}-keepdims", props=["C18", "C03"])
    class partial_reduce_chunks:
        """one partial-reduction layer: every reduced axis with group size k gets ceil(n / k) blocks of size 1 (n input
        blocks); an axis that is not reduced keeps its chunks"""
        params = {"self": "obj:PR"}
        result = "tup:" + ",".join(["seq"] * rank)
        fields = {"PR": {"array": "obj:Arr", "split_every": "map:int", "keepdims": "const"},
                  "Arr": {"chunks": "tup:" + ",".join(["seq"] * rank), "ndim": "const"}}
        consts = {"self.keepdims": True, "self.array.ndim": rank}

        def requires(self):
            se = self.get("split_every")
            return S.And([S.Implies(S.mhas(se, a), S.as_int(S.mget(se, a)) >= 1) for a in range(rank)])

        def ensures(result, self):
            se = self.get("split_every")
            out = {}
            for a in range(rank):
                c = S.item(self.get("array").get("chunks"), a)
                r = S.item(result, a)
                k = S.as_int(S.mget(se, a))
                reduced = S.mhas(se, a)
                sfx = "" if rank == 1 else f"-axis{a}"
                out["reduced-axis-has-ceil-n-over-k-unit-blocks" + sfx] = S.Implies(
                    reduced, S.And(S.slen(r) == S.ceildiv(S.slen(c), k), S.forall_idx(r, lambda j, r=r: S.at(r, j) == 1)))
                out["other-axis-unchanged" + sfx] = S.Implies(S.Not(reduced), S.seq_equal(r, c))
            return out

    partial_reduce_chunks.__name__ = f"partial_reduce_chunks_r{rank}"
    return partial_reduce_chunks


PRC1 = _prc(1)
PRC2 = _prc(2)
PRC3 = _prc(3)


def _ext_transfer_pair(ex, st, args, kwargs, node):
    """TransferBytes(lo, hi): the pair itself"""
    from pyvc.spec import TupV
    return TupV(list(args), "tuple")


def _assume_group_maxima(ex, st, val):
    """sum of the per-group maxima of a non-negative sequence split into consecutive groups: between 0 and the sum of the
    sequence (each group's maximum is one of its members; validated on the running library by
    PartialReduce.transfer_bytes[group-maxima])"""
    import z3
    chunks = st.env["chunks"]
    g = S.as_int(val)
    total = S._i(S.ssum(chunks))
    st.pc.append(z3.And(g >= 0, g <= total))
    # proof step for the estimate: itemsize * kept <= itemsize * total (lemma mul_mono, proved once per run)
    from pyvc import lemmas as L
    item = S.as_int(st.env["x"].get("dtype").get("itemsize"))
    st.pc.append(L.mul_mono(item, g, total))
    if "mul_mono" not in ex.lemmas_used:
        ex.lemmas_used.append("mul_mono")


@contract(f"{RED}::PartialReduce.transfer_bytes", spec="r1", props=["C27"])
class partial_reduce_transfer:
    """one partial-reduction layer over a rank-1 input: the estimate is (nbytes - itemsize * kept, nbytes) with `kept` the
    elements of the largest block of each group, so 0 <= min <= max -- both terms measured in bytes of the INPUT array
    (a node whose own dtype is wider than its input's must not scale `kept` by the output itemsize)"""
    params = {"self": "obj:PR"}
    result = "tup:real,real"
    fields = {"PR": {"array": "obj:Arr", "split_every": "map:int", "dtype": "obj:DType"},
              "Arr": {"chunks": "tup:seq", "nbytes": "int", "dtype": "obj:DType"}, "DType": {"itemsize": "int"}}
    externals = {"TransferBytes": _ext_transfer_pair}
    havoc = {"sum((max(group) for group in partition_all(self.split_every[i], chunks)))": "int"}
    havoc_assume = {"sum((max(group) for group in partition_all(self.split_every[i], chunks)))": _assume_group_maxima}

    def requires(self):
        x = self.get("array")
        c = S.item(x.get("chunks"), 0)
        item = x.get("dtype").get("itemsize")
        return S.And(S.chunking(c), item >= 1, self.get("dtype").get("itemsize") >= 1,
                     x.get("nbytes") == item * S.ssum(c))

    def facts(self):
        c = S.item(self.get("array").get("chunks"), 0)
        return [("prefix_nonneg", c)]

    def _after_x(v):
        # proof step: itemsize * total is non-negative and is the same number read as a product of reals
        c = S.item(v.x.get("chunks"), 0)
        item = v.x.get("dtype").get("itemsize")
        return {"__hints__": {"bytes-of-the-whole-axis": ("lemma", "mul_mono", item, S.ssum(c), S.ssum(c))}}

    after = {"x = self.array": ((), _after_x)}

    def ensures(result, self):
        from pyvc.spec import NanV
        lo, hi = result.items
        if isinstance(lo, NanV) or isinstance(hi, NanV):
            return {"nan-only-when-unknown": False}
        num = lambda v: v.t if hasattr(v, "t") else S.as_int(v)
        return {"0<=min<=max": S.And(0 <= num(lo), num(lo) <= num(hi))}

    def call(fn, self):
        import numpy as np
        import dask_array as da
        from dask_array.reductions._reduction import PartialReduce
        c = tuple(int(v) for v in self.get("array").get("chunks")[0])
        sizes = {1: "i1", 2: "i2", 4: "i4", 8: "i8"}
        xi, oi = self.get("array").get("dtype").get("itemsize"), self.get("dtype").get("itemsize")
        if xi not in sizes or oi not in sizes:
            raise RuntimeError("no NumPy integer dtype of that itemsize")
        x = da.ones((sum(c),), chunks=(c,), dtype=sizes[xi])
        node = PartialReduce(x.expr, np.sum, dict(self.get("split_every")), True, dtype=np.dtype(sizes[oi]), name="sum-partial")
        return tuple(node.transfer_bytes)


@contract(f"{RED}::PartialReduce.transfer_bytes", spec="group-maxima", props=["C27"])
class partial_reduce_transfer_bounded:
    """PartialReduce nodes built directly (as _tree_reduce callers with their own intermediates do), input and node dtypes
    of every width pairing: 0 <= min <= max, and min is nbytes minus the bytes of each group's largest block"""
    bounded_only = True
    params = {"chunks": "const", "k": "const", "xdt": "const", "odt": "const"}
    scope = "rank-1 inputs, all chunkings of <= 7 elements (quick) / 9, fan-in 1..4, dtype pairs i1/i4/i8/f4/f8"

    def real():
        return lambda: None

    def call(fn, chunks, k, xdt, odt):
        import numpy as np
        import dask_array as da
        from dask_array.reductions._reduction import PartialReduce
        x = da.ones((sum(chunks),), chunks=(chunks,), dtype=xdt)
        node = PartialReduce(x.expr, np.sum, {0: k}, True, dtype=np.dtype(odt), name="sum-partial")
        return tuple(node.transfer_bytes), x.nbytes, x.dtype.itemsize

    def requires(chunks, k, xdt, odt):
        return True

    def ensures(result, chunks, k, xdt, odt):
        (lo, hi), nbytes, item = result
        groups = [chunks[i:i + k] for i in range(0, len(chunks), k)]
        kept = sum(max(g) for g in groups)
        return {"0<=min<=max": 0 <= lo <= hi, "max-is-the-input-bytes": hi == nbytes,
                "min-keeps-the-largest-block-of-each-group": lo == nbytes - item * kept,
                "group-maxima-bounded-by-total": 0 <= kept <= sum(chunks)}

    def domain(tier, rng):
        from contracts.slicing import chunkings
        for n, c in chunkings(7 if tier == "quick" else 9):
            if not c:
                continue
            for k in (1, 2, 3, 4):
                for xdt, odt in (("i1", "i8"), ("f4", "f8"), ("i8", "i8"), ("i8", "i1"), ("i4", "f8")):
                    yield {"chunks": c, "k": k, "xdt": xdt, "odt": odt}


@contract(f"{RED}::partition_all", spec="model", props=["C18"])
class partition_all_model:
    """validation of the engine's model of toolz.partition_all (assumption A2) on the running library: k >= 1 gives
    ceil(n / k) consecutive groups of at most k items whose concatenation is the input"""
    bounded_only = True
    params = {"k": "const", "n": "const"}
    scope = "1 <= k <= 9, 0 <= n <= 40"

    def real():
        from tlz import partition_all
        return lambda k, n: [tuple(g) for g in partition_all(k, range(n))]

    def requires(k, n):
        return k >= 1

    def ensures(result, k, n):
        flat = [x for g in result for x in g]
        return {"group-count-is-ceil": len(result) == -((-n) // k), "groups-are-consecutive": flat == list(range(n)),
                "group-size": all(1 <= len(g) <= k for g in result)}

    def domain(tier, rng):
        for k in range(1, 10):
            for n in range(0, 41):
                yield {"k": k, "n": n}


# ---------------------------------------------------------------------------
# the cascade: depth - 1 partial layers and one aggregate layer leave ONE block on the reduced axis
# ---------------------------------------------------------------------------
def _pw():
    from pyvc import lemmas as L
    return L.power_fn()


def _ext_opaque(ex, st, args, kwargs, node):
    """partial / compose / funcname / sorted of task callables and names: some value (never inspected)"""
    return ex.fresh_value("obj:Fn", "fn")


def _mk_ext_partial_reduce(focus):
    def _ext_partial_reduce(ex, st, args, kwargs, node):
        """PartialReduce(x, func, split_every, keepdims=True, ...): a node whose reduced axes have ceil(n / k) blocks and
        whose other axes keep their block count -- the postcondition of PartialReduce.chunks[rN-keepdims], proved as its
        own unit.  (A unit that studies one reduced axis uses the facts about that axis and the unreduced ones only.)"""
        import z3
        x = args[0]
        se = args[2]
        o = ex.fresh_value("obj:Arr", "layer")
        nbi = ex.obj_field(x, "numblocks", node)
        nbo = ex.obj_field(o, "numblocks", node)
        for a in range(len(nbi.items)):
            nb_in, nb_out = S.item(nbi, a), S.item(nbo, a)
            k = S.as_int(se.get(z3.IntVal(a)))
            has = z3.Select(se.has, z3.IntVal(a))
            if focus is None or a == focus:
                st.pc.append(z3.If(has, S._t(nb_out == S.ceildiv(nb_in, k)), S._t(nb_out == nb_in)))
            else:
                st.pc.append(z3.Implies(z3.Not(has), S._t(nb_out == nb_in)))
        return o
    return _ext_partial_reduce


def _mk_assume_depth(focus):
    def _assume_depth(ex, st, val):
        """the float computation ceil(log(n, k)) yields a depth with k ** max(1, depth) >= n (validated for n <= 2000 /
        200000 blocks and 2 <= k <= 16 by the bounded contract _build_tree_reduce_expr[depth])"""
        import z3
        from pyvc import lemmas as L
        pw = _pw()
        i = z3.simplify(S.as_int(st.env["i"]))
        if focus is not None and not (z3.is_int_value(i) and i.as_long() == focus):
            return  # a unit that studies one reduced axis uses the assumption for that axis only
        n = S.as_int(st.env["n"])
        v = S.as_int(val)
        k = S.as_int(st.env["split_every"].get(S.as_int(st.env["i"])))
        st.pc.append(L.power_def(k))  # definition of the ghost function k ** j (a definitional extension, not an assumption)
        m = z3.If(v > 1, v, 1)
        st.pc.append(z3.Implies(k >= 1, pw(k, m) >= n))  # the assumption (A3)
        st.pc.append(L.power_above(k, m, n))  # lemma, proved once per run by the induction schema (pyvc/lemmas.py)
        if "power_above" not in ex.lemmas_used:
            ex.lemmas_used.append("power_above")
    return _assume_depth


def _btr(rank, axes, focus=None):
    spec = f"r{rank}-keepdims" if rank == 1 else f"r{rank}-axes{''.join(map(str, axes))}-keepdims"
    if focus is not None:
        spec += f"-axis{focus}"
    studied = [a for a in axes if focus is None or a == focus]

    @contract(f"{RED}::_build_tree_reduce_expr", spec=spec, props=["C18"])
    class build_tree_reduce:
        """a reduction over the axes `axes` of a rank-N array whose reduced axes have n_a >= 1 blocks (integer split_every;
        the group sizes k_a >= 2 come from _normalize_split_every's own contract, used modularly): after the depth - 1 partial
        layers and the aggregate layer every reduced axis has exactly one block and every other axis keeps its block count --
        so the tree's shape (fan-in, depth) never leaves partial results uncombined.  Uses the nested-ceiling lemma
        ceil(ceil(n/a)/b) = ceil(n/(a*b))."""
        params = {"x": "obj:Arr", "aggregate": "obj:Fn", "axis": "tup:" + ",".join(["int"] * len(axes)), "keepdims": "const",
                  "dtype": "obj:Fn", "split_every": "int", "combine": "obj:Fn", "name": "obj:Fn", "concatenate": "const",
                  "reduced_meta": "obj:Fn"}
        consts = {"keepdims": True, "concatenate": False}
        fields = {"Arr": {"numblocks": "tup:" + ",".join(["int"] * rank)}, "Fn": {}}
        result = None
        externals = {"partial": _ext_opaque, "compose": _ext_opaque,
                     "funcname": _ext_opaque, "PartialReduce": _mk_ext_partial_reduce(focus)}
        havoc = {"math.ceil(math.log(n, split_every[i]))": "int",
                 "combine or aggregate": "obj:Fn",
                 "(name or funcname(combine or aggregate)) + '-partial'": "obj:Fn",
                 "(name or funcname(aggregate)) + '-aggregate'": "obj:Fn"}
        havoc_assume = {"math.ceil(math.log(n, split_every[i]))": _mk_assume_depth(focus)}

        def requires(x, aggregate, axis, keepdims, dtype, split_every, combine, name, concatenate, reduced_meta):
            return S.And([S.item(x.get("numblocks"), a) >= 1 for a in range(rank)]
                         + [S.item(axis, i) == a for i, a in enumerate(axes)])

        def ensures(result, x, aggregate, axis, keepdims, dtype, split_every, combine, name, concatenate, reduced_meta, env=None, calls=None):
            out = {}
            for a in range(rank):
                if a in axes:
                    if a in studied:
                        out["one-block-on-the-reduced-axis" + ("" if rank == 1 else f"-{a}")] = S.item(result.get("numblocks"), a) == 1
                else:
                    out[f"axis-{a}-not-reduced-keeps-its-blocks"] = S.item(result.get("numblocks"), a) == S.item(x.get("numblocks"), a)
            return out

        def _inv(v, v0):
            pw = _pw()
            out = {"depth-positive": v.depth >= 1}
            for a in range(rank):
                n0 = S.item(v0.x.get("numblocks"), a)
                if a in axes and a not in studied:
                    continue
                if a in axes:
                    k = S.as_int(v.split_every.get(S._i(a)))
                    out[f"blocks-after-it-layers-{a}"] = S.item(v.x.get("numblocks"), a) == S.ceildiv(n0, pw(k, v.it))
                    out[f"depth-{a}"] = pw(k, v.depth) >= n0
                else:
                    out[f"untouched-{a}"] = S.item(v.x.get("numblocks"), a) == n0
            return out

        def _hints(h, e, v0):
            # proof script for one more layer: the recurrence k**(it+1) = k**it * k at this iteration, then the
            # nested-ceiling lemma ceil(ceil(n / k**it) / k) = ceil(n / (k**it * k))
            pw = _pw()
            out = {}
            for a in studied:
                k = S.as_int(h.split_every.get(S._i(a)))
                n0 = S.item(v0.x.get("numblocks"), a)
                out[f"recurrence-{a}"] = S.And(pw(k, h.it + 1) == pw(k, h.it) * k, pw(k, h.it) >= 1)
                out[f"nested-ceil-{a}"] = ("lemma", "nested_ceil", n0, pw(k, h.it), k)
                out[f"layer-{a}"] = S.item(e.x.get("numblocks"), a) == S.ceildiv(S.ceildiv(n0, pw(k, h.it)), k)
                out[f"layer-flat-{a}"] = S.item(e.x.get("numblocks"), a) == S.ceildiv(n0, pw(k, h.it) * k)
            return out

        loops = {"for#2": Loop(invariant=_inv, hints=_hints)}

    build_tree_reduce.__name__ = "build_tree_reduce_" + spec.replace("-", "_")
    return build_tree_reduce


BTR1 = _btr(1, (0,))
BTR2a = _btr(2, (0,))
BTR2b = _btr(2, (1,))
# two reduced axes: one unit per reduced axis (each uses the layer facts and the depth assumption of its own axis only;
# with both in one query the two nonlinear power/ceiling chains together exhaust every solver's budget)
BTR2c = _btr(2, (0, 1), focus=0)
BTR2d = _btr(2, (0, 1), focus=1)


def _ext_config_get(ex, st, args, kwargs, node):
    """config.get("split_every", 16): some integer"""
    return ex.fresh_value("int", "config")


def _nse(spec, se_type, naxes=1):
    @contract(f"{RED}::_normalize_split_every", spec=spec, props=["C18"])
    class normalize_split_every:
        """the canonical per-axis form: every reduced axis gets a group size of at least 2 (a fan-in of 1 would never
        reduce the number of blocks), whether split_every was an integer or a per-axis dict; no other axis gets an entry"""
        params = {"split_every": se_type, "axis": "tup:" + ",".join(["int"] * naxes)}
        ghosts = {"q": "int"}
        result = "map:int"
        externals = {"config.get": _ext_config_get}
        havoc = {"split_every ** (1 / (len(axis) or 1))": "int"} if se_type == "int" else {"split_every or config.get('split_every', 16)": "map:int"}
        raises = {}

        def requires(split_every, axis):
            return True

        def call_patterns(result, split_every, axis, q):
            # the quantified clause is instantiated wherever the caller asks whether some axis has an entry
            import z3
            return {"no-entry-for-other-axes": [z3.Select(result.has, q)]}

        def ensures(result, split_every, axis, q):
            out = {}
            for i in range(naxes):
                a = S.item(axis, i)
                out["every-reduced-axis-has-fan-in-at-least-2" + ("" if naxes == 1 else f"-{i}")] = S.And(
                    S.mhas(result, a), S.as_int(S.mget(result, a)) >= 2)
            out["no-entry-for-other-axes"] = S.Implies(S.And([q != S.item(axis, i) for i in range(naxes)]), S.Not(S.mhas(result, q)))
            # the same fact as ground instances for the first few axis numbers (what callers of rank <= 4 ask about): these
            # take part in the engine's quantifier-free path pruning
            for r in range(4):
                out[f"axis-{r}-has-an-entry-iff-it-is-reduced"] = S.mhas(result, r) == S.Or([S.item(axis, i) == r for i in range(naxes)])
            return out

    normalize_split_every.__name__ = "normalize_split_every_" + spec.replace("-", "_")
    return normalize_split_every


NSE1 = _nse("int-r1", "int")
NSE2 = _nse("dict-r1", "map:int")
NSE3 = _nse("int-2axes", "int", 2)
NSE4 = _nse("dict-2axes", "map:int", 2)


# ---------------------------------------------------------------------------
# what a block that is empty along a reduced axis contributes to min / max / arg-reductions (C18)
# ---------------------------------------------------------------------------
RC_COMMON = "dask_array/reductions/_common.py"


def _ext_empty_like(ex, st, args, kwargs, node):
    """np.empty_like(x, shape=s): an array of shape s (contents irrelevant: it has no elements along a reduced axis)"""
    o = ex.fresh_value("obj:Blk", "empty")
    o.fields["shape"] = kwargs["shape"]
    return o


def _no_candidates(axis_kind, axes):
    @contract(f"{RC_COMMON}::_no_candidates", spec=f"r2-{axis_kind}", props=["C18"])
    class no_candidates:
        """a 2-D block reduced over `axes`: None (NumPy reduces the block itself) exactly when no reduced axis is empty;
        otherwise an array with length 0 along every empty reduced axis, 1 (as with keepdims) along the other reduced axes,
        and the block's own length along the kept axes -- so the partial results concatenate along the reduced axes and the
        empty block contributes no candidate"""
        params = {"x": "obj:Blk", "axis": {"none": "none", "int0": "int", "int1": "int", "tuple01": "tup:int,int", "neg1": "int"}[axis_kind]}
        result = "obj:Blk"
        fields = {"Blk": {"shape": "tup:int,int", "ndim": "const"}}
        consts = {"x.ndim": 2}
        externals = {"np.empty_like": _ext_empty_like}

        def requires(x, axis):
            sh = x.get("shape")
            pre = [S.item(sh, 0) >= 0, S.item(sh, 1) >= 0]
            if axis_kind == "int0":
                pre.append(axis == 0)
            elif axis_kind == "int1":
                pre.append(axis == 1)
            elif axis_kind == "neg1":
                pre.append(axis == -1)
            elif axis_kind == "tuple01":
                pre += [S.item(axis, 0) == 0, S.item(axis, 1) == 1]
            return S.And(pre)

        def ensures(result, x, axis):
            from pyvc.spec import Opt
            sh = x.get("shape")
            some_empty = S.Or([S.item(sh, a) == 0 for a in axes])
            if isinstance(result, Opt):
                return {"none-exactly-when-no-reduced-axis-is-empty": S.Not(some_empty)}
            out = {"array-only-when-a-reduced-axis-is-empty": some_empty}
            rs = result.fields["shape"]
            for a in range(2):
                n = S.item(sh, a)
                want = S.If(n == 0, 0, 1) if a in axes else n
                out[f"axis-{a}-length"] = S.val(S.item(rs, a)) == want
            return out

    no_candidates.__name__ = "no_candidates_" + axis_kind
    return no_candidates


NC0 = _no_candidates("none", (0, 1))
NC1 = _no_candidates("int0", (0,))
NC2 = _no_candidates("int1", (1,))
NC3 = _no_candidates("tuple01", (0, 1))
NC4 = _no_candidates("neg1", (1,))
