"""Record-abstraction contracts (DESIGN 2.1.2) for the materialisation barrier
and the layout barrier.  Objects are immutable records with declared fields;
calls into the optimiser are *assumed contracts* (listed in evidence)."""
from pyvc.contract import contract, Loop
from pyvc import spec as S

z3 = S.z3  # None under /venv/bin/python (concrete mode): these contracts are symbolic-only
from pyvc.spec import ObjV, BoolV, StrV, AbsV

MAT = "dask_array/_materialize.py"
EXPR = "dask_array/_expr.py"

Chunks = S.abs_sort("Chunks") if S.z3 is not None else None
if S.z3 is not None:
    f_cm = z3.Function("chunks_match", Chunks, Chunks, z3.BoolSort())
    f_chunks_of = z3.Function("chunks_of_name", S.StrSort, Chunks)
    f_has_nan = z3.Function("chunks_have_nan", Chunks, z3.BoolSort())


def _cm_axioms():
    a, b, c = z3.Consts("ca cb cc", Chunks)
    return [z3.ForAll([a], f_cm(a, a), patterns=[f_cm(a, a)]),
            z3.ForAll([a, b], f_cm(a, b) == f_cm(b, a), patterns=[f_cm(a, b)])]


def _new_expr(ex, st, base, named=True):
    o = ex.fresh_value("obj:ArrayExpr", base)
    if named:
        # C06 as an assumed naming invariant: an expression's name determines its chunks
        st.pc.append(o.get("chunks") == f_chunks_of(o.get("_name")))
    return o


def ext_lower(ex, st, args, kwargs, node):
    """_lower(expr, optimize_graph) returns some expression; with optimize_graph=False (no simplify) it keeps the
    advertised chunks of its argument"""
    e = args[0]
    og = args[1] if len(args) > 1 else kwargs.get("optimize_graph")
    r = _new_expr(ex, st, "lowered")
    if isinstance(og, BoolV) and z3.is_false(z3.simplify(og.t)):
        st.pc.append(f_cm(r.get("chunks"), e.get("chunks")))
    return r


def ext_chunks_match(ex, st, args, kwargs, node):
    """_chunks_match(a, b): an equivalence on chunk tuples (nan sizes match); verified separately on the small scope"""
    return BoolV(f_cm(args[0].t, args[1].t))


def ext_rootalias(ex, st, args, kwargs, node):
    """RootAlias(array, name): _name is the given name and chunks are the array's chunks (RootAlias._name /
    RootAlias.chunks are one-line properties)"""
    o = ex.fresh_value("obj:ArrayExpr", "rootalias")
    st.pc.append(o.get("_name") == args[1].term())
    st.pc.append(o.get("chunks") == args[0].get("chunks"))
    return o


def ext_config_get(ex, st, args, kwargs, node):
    """config.get(...): any value"""
    return ex.fresh_value("bool", "config")


def m_fuse(ex, st, base, args, kwargs, node):
    """expr.fuse(): some expression"""
    return _new_expr(ex, st, "fused")


def m_rechunk(ex, st, base, args, kwargs, node):
    """expr.rechunk(chunks).chunks == chunks (C14's contract on Rechunk.chunks)"""
    o = _new_expr(ex, st, "rechunked")
    st.pc.append(o.get("chunks") == args[0].t)
    return o


@contract(f"{MAT}::_materialize", props=["C03", "C04"])
class materialize:
    """every return path pins the raw root name and hands back the advertised
    chunks (bridging with a rechunk when optimisation changed the layout), or raises."""
    params = {"expr": "obj:ArrayExpr", "optimize_graph": "bool"}
    result = "obj:ArrayExpr"
    fields = {"ArrayExpr": {"_name": "str", "chunks": "abs:Chunks"}, "__maybe__": {"ArrayExpr": ["RootAlias"]}}
    externals = {"_lower": ext_lower, "_chunks_match": ext_chunks_match, "RootAlias": ext_rootalias,
                 "config.get": ext_config_get}
    methods = {"fuse": m_fuse, "rechunk": m_rechunk}
    havoc = {
        "any(math.isnan(s) for dim in chunks for s in dim)": "bool",
        "any(node._name == name for node in expr.walk())": "bool",
    }
    raises = {"RuntimeError": None}

    def requires(expr, optimize_graph):
        return S.And(*_cm_axioms(), expr.get("chunks") == f_chunks_of(expr.get("_name")))

    def ensures(result, expr, optimize_graph):
        is_alias = expr.fields.get("__isinstance_RootAlias")
        is_alias = is_alias.t if is_alias is not None else z3.BoolVal(False)
        return {
            "name-pinned": result.get("_name") == expr.get("_name"),
            "advertised-chunks": f_cm(result.get("chunks"), expr.get("chunks")),
        }


def m_lower_once(ex, st, base, args, kwargs, node):
    """array.lower_once(lowered): some expression"""
    return _new_expr(ex, st, "lowered_once")


def ext_new_collection(ex, st, args, kwargs, node):
    """new_collection(expr): a collection wrapping expr (`.rechunk(c).expr` is expr.rechunk(c))"""
    o = ex.fresh_value("obj:Array", "coll")
    o.fields["expr"] = args[0]
    return o


def m_coll_rechunk(ex, st, base, args, kwargs, node):
    """Array.rechunk(chunks): a collection whose expression has exactly those chunks (C14)"""
    o = ex.fresh_value("obj:Array", "coll_rechunked")
    e = _new_expr(ex, st, "rechunked")
    st.pc.append(e.get("chunks") == args[0].t)
    o.fields["expr"] = e
    return o


def m_setdefault(ex, st, base, args, kwargs, node):
    """lowered.setdefault(name, value): value itself, or an entry cached earlier under that name, which by the cache
    invariant is a valid lowering of the same node (so it satisfies this barrier's postcondition too)"""
    val = args[1]
    hit = ex.fresh_bool("cache_hit")
    old = _new_expr(ex, st, "cached")
    st.pc.append(z3.Implies(hit, f_cm(old.get("chunks"), ex.params["self"].get("_chunks"))))
    r = ex.fresh_value("obj:ArrayExpr", "setdefault")
    st.pc.append(r.get("chunks") == z3.If(hit, old.get("chunks"), val.get("chunks")))
    st.pc.append(r.get("_name") == z3.If(hit, old.get("_name"), val.get("_name")))
    return r


def _cached_ok(ex, st, val):
    st.pc.append(f_cm(val.get("chunks"), ex.params["self"].get("_chunks")))


@contract(f"{EXPR}::ChunksFreeze.lower_once", props=["C20", "C03"])
class chunksfreeze_lower_once:
    """the layout barrier: what replaces a ChunksFreeze node has the frozen layout, or lowering raises."""
    params = {"self": "obj:ChunksFreeze", "lowered": "obj:Cache"}
    result = "obj:ArrayExpr"
    fields = {
        "ArrayExpr": {"_name": "str", "chunks": "abs:Chunks"},
        "ChunksFreeze": {"_name": "str", "_chunks": "abs:Chunks", "array": "obj:ArrayExpr"},
        "Array": {"expr": "obj:ArrayExpr"},
        "Cache": {},
    }
    externals = {"_chunks_match": ext_chunks_match, "new_collection": ext_new_collection}
    methods = {"ArrayExpr.lower_once": m_lower_once, "Array.rechunk": m_coll_rechunk, "Cache.setdefault": m_setdefault}
    havoc = {
        "lowered[self._name]": "raise:KeyError|obj:ArrayExpr",
        "any(math.isnan(s) for dim in self._chunks for s in dim)": "bool",
    }
    havoc_assume = {"lowered[self._name]": _cached_ok}
    raises = {"RuntimeError": None}
    loops = {"while#1": Loop(invariant=lambda v, v0: {"any-expression": True})}

    def requires(self, lowered):
        return S.And(*_cm_axioms())

    def ensures(result, self, lowered):
        return {"frozen-layout": f_cm(result.get("chunks"), self.get("_chunks"))}


@contract(f"{EXPR}::_chunks_match", spec="rank1", props=["C03", "C04", "C20"])
class chunks_match_rank1:
    """the layout comparison both barriers rely on: true exactly when the block sizes are equal (known sizes)"""
    params = {"a": "tup:seq", "b": "tup:seq"}
    result = "bool"

    def requires(a, b):
        return True

    def ensures(result, a, b):
        e0 = S.seq_equal(S.item(a, 0), S.item(b, 0))
        return {"match-implies-equal": S.Implies(result, e0), "equal-implies-match": S.Implies(e0, result)}

    def domain(tier, rng):
        from contracts.slicing import chunkings
        cs = [c for n, c in chunkings(5)]
        for x in cs:
            for y in cs:
                yield {"a": (x,), "b": (y,)}


@contract(f"{EXPR}::_chunks_match", spec="rank2", props=["C03", "C04", "C20"])
class chunks_match_rank2:
    params = {"a": "tup:seq,seq", "b": "tup:seq,seq"}
    result = "bool"

    def requires(a, b):
        return True

    def ensures(result, a, b):
        e0 = S.seq_equal(S.item(a, 0), S.item(b, 0))
        e1 = S.seq_equal(S.item(a, 1), S.item(b, 1))
        return {"match-implies-equal-axis0": S.Implies(result, e0),
                "match-implies-equal-axis1": S.Implies(result, e1),
                "equal-implies-match": S.Implies(S.And(e0, e1), result)}

    def domain(tier, rng):
        from contracts.slicing import chunkings
        cs = [c for n, c in chunkings(3)]
        for x in cs:
            for y in cs:
                yield {"a": (x, (2, 1)), "b": (y, (2, 1))}
                yield {"a": ((1,), x), "b": ((1,), y)}


# ---------------------------------------------------------------------------
# C20: the grid-preservation gate of pushdowns
# ---------------------------------------------------------------------------
def _m_has_grid_sensitive(ex, st, base, args, kwargs, node):
    """self._has_grid_sensitive_dependent(parent, dependents): some boolean (a walk over the dependents)"""
    v = ex.fresh_value("bool", "grid_sensitive")
    st.env["__grid_sensitive__"] = v
    return v


def _ext_getattr(ex, st, args, kwargs, node):
    """getattr(obj, "chunks", None) on an expression record: its chunks field (expressions always have chunks)"""
    from pyvc.spec import StrV
    if len(args) >= 2 and isinstance(args[1], StrV) and args[1].s == "chunks" and isinstance(args[0], ObjV):
        return args[0].get("chunks") if False else ex.obj_field(args[0], "chunks", node)
    raise Exception("unsupported getattr")


def _grid_gate(spec, maybe_blockwise):
    @contract(f"{EXPR}::ArrayExpr._preserve_grid_contract", spec=spec, props=["C20"])
    class preserve_grid_contract:
        """when a dependent is grid-sensitive (a block_info / block_id consumer without alignment), a pushdown's result is
        let through only if it keeps the parent's chunks exactly -- otherwise the rewrite is declined (None); without such
        a dependent the result is handed back as it is"""
        params = {"self": "obj:Node", "parent": "obj:Expr", "result": "obj:Expr", "dependents": "obj:Deps"}
        result = None
        fields = {"Node": {}, "Expr": {"chunks": "abs:Chunks"}, "Deps": {},
                  "__maybe__": ({"Node": ["Blockwise"]} if maybe_blockwise else {})}
        methods = {"Node._has_grid_sensitive_dependent": _m_has_grid_sensitive}
        externals = {"getattr": _ext_getattr}

        def requires(self, parent, result, dependents):
            return True

        def ensures(result, self, parent, result_arg, dependents, env=None, calls=None):
            g = env.__getattr__("__grid_sensitive__")
            if isinstance(result, ObjV):
                return {"returns-the-pushdown-result-itself": result is result_arg,
                        "grid-sensitive-dependent-keeps-the-parent-grid": S.Implies(g, result.get("chunks") == parent.get("chunks"))}
            return {"declines-only-for-a-grid-sensitive-dependent": g}

    preserve_grid_contract.__name__ = "preserve_grid_contract_" + spec.replace("-", "_")
    return preserve_grid_contract


GG1 = _grid_gate("plain-node", False)
GG2 = _grid_gate("maybe-blockwise", True)
