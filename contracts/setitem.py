"""Contracts for in-place assignment (C11): the per-block slice that `x[a:b:s] = value` writes through."""
from pyvc.contract import contract
from pyvc import spec as S

SI = "dask_array/slicing/_setitem.py"


def _parts(index):
    a, b, c = S.parts(index)
    return S.val(a), S.val(b), S.val(c)


def _sel(q, lo, hi, step):
    """position q is selected by range(lo, hi, step) (step >= 1)"""
    return S.And(lo <= q, q < hi, S.mod(q - lo, step) == 0)


@contract(f"{SI}::setitem_array_expr", spec="block-slice", props=["C11"])
class setitem_block_slice:
    """the part of an assignment key `a:b:s` (s >= 1, as parse_assignment_indices leaves it) that falls into the block
    [loc0, loc1) of an axis: the block-local slice selects exactly the block's share of the positions a, a+s, a+2s, ... < b
    -- in particular the phase of the stride at the block's left edge is the *forward* offset to the next selected
    position --, and the block is skipped (`break`) exactly when it holds none of them"""
    fragment = {"first": "stop = loc1 - loc0", "last": "block_index = slice(start, stop, step)"}
    params = {"index": "slice", "loc0": "int", "loc1": "int", "overlaps": "bool"}
    ghosts = {"q": "int"}
    result = None

    def requires(index, loc0, loc1, overlaps):
        a, b, c = S.parts(index)
        return S.And(S.Not(S.is_none(a)), S.Not(S.is_none(b)), S.Not(S.is_none(c)), S.val(c) >= 1, S.val(a) >= 0, S.val(b) >= 0,
                     0 <= loc0, loc0 <= loc1, overlaps)

    def post_hints(result, index, loc0, loc1, overlaps, q):
        # (q - r - k*s) % s == (q - r) % s with  a - loc0 == k*s + r  (the block starts k < 0 strides after a)
        a, b, s = _parts(index)
        k, r = S.divmod_(a - loc0, s)
        return {"stride-phase": ("lemma", "mod_shift", q - r, -k, s)}

    def ensures(result, index, loc0, loc1, overlaps, q, env=None, calls=None):
        E = env if env is not None else result
        a, b, s = _parts(index)
        inblock = S.And(0 <= q, q < loc1 - loc0)
        if env is None:
            broke = E.fragment_broke
            if broke:
                return {"skipped-block-holds-no-selected-position": (not inblock) or not _sel(loc0 + q, a, b, s)}
            bi = E.block_index
            return {"local-slice-inside-the-block": 0 <= bi.start < bi.stop <= loc1 - loc0 and bi.step == s,
                    "first-local-position-is-a-selected-one": a <= loc0 + bi.start < b,
                    "local-slice-selects-the-blocks-share": (not inblock) or (_sel(q, bi.start, bi.stop, s) == _sel(loc0 + q, a, b, s))}
        import z3
        broke = z3.is_true(z3.simplify(S._t(E.fragment_broke)))
        if broke:
            return {"skipped-block-holds-no-selected-position": S.Implies(inblock, S.Not(_sel(loc0 + q, a, b, s)))}
        st, sp = S.val(E.start), S.val(E.stop)
        return {"local-slice-inside-the-block": S.And(0 <= st, st < sp, sp <= loc1 - loc0, S.val(E.step) == s),
                # what the counting fragment (block-counts) takes as its precondition
                "first-local-position-is-a-selected-one": S.And(a <= loc0 + st, loc0 + st < b),
                "local-slice-selects-the-blocks-share": S.Implies(inblock, _sel(q, st, sp, s) == _sel(loc0 + q, a, b, s))}

    def ghost_domain(index, loc0, loc1, overlaps):
        return {"q": range(0, max(loc1 - loc0, 0) + 1)}

    def domain(tier, rng):
        top = 10 if tier == "quick" else 14
        for a in range(0, top):
            for b in range(0, top + 1):
                for s in (1, 2, 3, 4, 5, 7):
                    for loc0 in range(0, top, 2):
                        for w in (0, 1, 3, 4, 6):
                            yield {"index": slice(a, b, s), "loc0": loc0, "loc1": loc0 + w, "overlaps": True}


def _count(lo, hi, step):
    """number of elements of range(lo, hi, step), step >= 1"""
    n = S.ceildiv(hi - lo, step)
    return S.If(hi > lo, n, 0)


@contract(f"{SI}::setitem_array_expr", spec="block-counts", props=["C11"])
class setitem_block_counts:
    """which elements of the value go to a block: `block_index_size` is the number of positions the block-local slice
    selects, and `n_preceding` the number of positions of the key that lie before the block -- so the block is assigned the
    value elements n_preceding .. n_preceding + block_index_size - 1, in order"""
    fragment = {"first": "block_index_size, rem = divmod(stop - start, step)", "last": "if rem:", "last_nth": 2}
    params = {"index": "slice", "loc0": "int", "start": "int", "stop": "int", "step": "int"}
    result = None

    def requires(index, loc0, start, stop, step):
        a, b, c = S.parts(index)
        return S.And(S.Not(S.is_none(a)), S.Not(S.is_none(b)), S.Not(S.is_none(c)), S.val(c) >= 1, S.val(c) == step,
                     S.val(a) >= 0, S.val(b) >= 0, 0 <= loc0, 0 <= start, start < stop,
                     # what the block-slice fragment establishes before this one runs: the block holds a selected position
                     S.val(a) <= loc0 + start, loc0 + start < S.val(b))

    def ensures(result, index, loc0, start, stop, step, env=None, calls=None):
        E = env if env is not None else result
        a, b, s = _parts(index)
        size = S.val(E.block_index_size) if env is not None else E.block_index_size
        npre = S.val(E.n_preceding) if env is not None else E.n_preceding
        if env is None:
            return {"size-is-the-number-of-selected-local-positions": size == len(range(start, stop, step)),
                    "n_preceding-is-the-number-of-selected-positions-before-the-block": npre == len(range(a, min(b, loc0), s))}
        return {"size-is-the-number-of-selected-local-positions": size == _count(start, stop, step),
                "n_preceding-is-the-number-of-selected-positions-before-the-block": npre == _count(a, S.min_(b, loc0), s)}

    def domain(tier, rng):
        top = 10 if tier == "quick" else 14
        for a in range(0, top):
            for b in range(0, top + 1):
                for s in (1, 2, 3, 5):
                    for loc0 in range(0, top, 3):
                        for st in (0, 1, 2):
                            for sp in (1, 3, 4):
                                if st < sp:
                                    yield {"index": slice(a, b, s), "loc0": loc0, "start": st, "stop": st + sp, "step": s}
