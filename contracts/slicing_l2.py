"""Bounded (L2) contracts for slicing functions outside the verifier's reach
(tuple walks, NumPy objects, float ceil).  Evaluated on the real functions over
an enumerated small scope; labelled bounded, never counted as proved."""
import itertools

from pyvc.contract import contract
from pyvc import spec as S
from contracts.slicing import chunkings, small_slices, UTILS, BASIC


def block_counts(dim, lengths, index):
    """ground truth: number of selected positions per block."""
    sel = range(*index.indices(dim))
    bounds = [0]
    for c in lengths:
        bounds.append(bounds[-1] + c)
    return [sum(1 for p in sel if bounds[j] <= p < bounds[j + 1]) for j in range(len(lengths))]


@contract(f"{UTILS}::new_blockdim", spec="slice", props=["C12", "C13", "C03"])
class new_blockdim__slice:
    """chunk sizes after slicing = per-block piece lengths, in output order."""
    bounded_only = True
    params = {"dim_shape": "int", "lengths": "seq", "index": "slice"}
    scope = "all chunkings (one optional zero chunk) of lengths <= 6 (quick) / 9 (thorough), all normalised slices"

    def requires(dim_shape, lengths, index):
        from contracts.slicing import norm_bounds
        return S.And(len(lengths) >= 1, sum(lengths) == dim_shape, all(c >= 0 for c in lengths), norm_bounds(index, dim_shape))

    def ensures(result, dim_shape, lengths, index):
        from dask_array.slicing._utils import _slice_1d
        keys = sorted(_slice_1d(dim_shape, lengths, index))
        if index.step is not None and index.step < 0:
            keys = keys[::-1]
        truth = block_counts(dim_shape, lengths, index)
        result = list(result)
        return {
            "per-block": result == [truth[k] for k in keys],
            "sum": sum(result) == len(range(*index.indices(dim_shape))),
            "nonneg": all(c >= 0 for c in result),
            "others-empty": all(truth[j] == 0 for j in range(len(lengths)) if j not in keys),
        }

    def domain(tier, rng):
        ch = chunkings(6 if tier == "quick" else 9, maxparts=4 if tier == "quick" else None)
        for n, c in ch:
            vals = [None] + list(range(0, n + 1))
            for s in small_slices(tier, vals, [None, -3, -2, -1, 1, 2, 3]):
                yield {"dim_shape": n, "lengths": c, "index": s}


def _basic_indices(n):
    vals = [None, -n - 1, -n, -1, 0, 1, n - 1, n, n + 1]
    out = [slice(None), 0, -1, n - 1, n, -n, -n - 1]
    for a in vals:
        for b in vals:
            for c in (None, -2, -1, 1, 2):
                out.append(slice(a, b, c))
    return out


@contract(f"{UTILS}::normalize_index", props=["C12"])
class normalize_index__basic:
    """tuple-level normalisation of basic indices: refuses exactly what NumPy
    refuses (IndexError) and otherwise selects what NumPy selects."""
    bounded_only = True
    params = {"idx": "const", "shape": "const"}
    scope = "shapes (n,), (n,m) with n,m <= 3; ints, slices, None, Ellipsis"
    raises = {"IndexError": lambda idx, shape: _numpy_refuses(idx, shape)}

    def requires(idx, shape):
        return True

    def ensures(result, idx, shape):
        import numpy as np
        x = np.arange(int(np.prod(shape))).reshape(shape)
        if _numpy_refuses(idx, shape):
            return {"refused": False}
        want = x[idx]
        got = x[result]
        return {"same-selection": want.shape == got.shape and bool((want == got).all())}

    def domain(tier, rng):
        top = 3 if tier == "quick" else 4
        for n in range(0, top + 1):
            for i in _basic_indices(n):
                yield {"idx": i, "shape": (n,)}
                yield {"idx": (i,), "shape": (n,)}
                yield {"idx": (None, i), "shape": (n,)}
                yield {"idx": (i, Ellipsis), "shape": (n,)}
        small = [slice(None), 0, -1, 1, 2, -3, slice(1, None), slice(None, None, -1), slice(-5, 5, 2), None, Ellipsis]
        for n in range(0, 3):
            for m in range(1, 3):
                for a in small:
                    for b in small:
                        if a is Ellipsis and b is Ellipsis:
                            continue
                        yield {"idx": (a, b), "shape": (n, m)}
                        yield {"idx": (a, b, 0), "shape": (n, m)}


def _numpy_refuses(idx, shape):
    import numpy as np
    x = np.empty(shape)
    try:
        x[idx]
    except IndexError:
        return True
    return False
