"""Contracts for block-id plumbing of blockwise / elemwise tasks (C04: every block a task refers to exists)."""
from pyvc.contract import contract, Loop
from pyvc import spec as S

BW = "dask_array/_blockwise.py"


def mval(d, k):
    """value of an int-valued dict at k (0 when absent: only ever used under `k in d`)"""
    from pyvc.spec import MapV
    if isinstance(d, MapV):
        return S.as_int(d.get(S._i(k)))
    return d.get(k, 0)


@contract(f"{BW}::_broadcast_block_id", props=["C04"])
class broadcast_block_id:
    """block of an elemwise operand that feeds output block `block_id`: the operand's trailing axes line up with the
    output's, an axis with a single block always reads block 0, any other axis reads the output's block number.
    Given the lowering invariant (each operand axis has one block or as many as the output axis it lines up with) the
    referenced block exists: 0 <= result[i] < numblocks[i]."""
    params = {"numblocks": "seq", "block_id": "seq"}
    ghosts = {"out_nb": "seq", "q": "int"}
    result = "seq"

    def requires(numblocks, block_id):
        return S.And(S.slen(block_id) >= S.slen(numblocks))

    def aligned(numblocks, block_id, out_nb):
        """the lowering invariant, over the ghost output grid out_nb"""
        off = S.slen(block_id) - S.slen(numblocks)
        return S.And(S.slen(out_nb) == S.slen(block_id),
                     S.forall_idx(block_id, lambda k: S.And(0 <= S.at(block_id, k), S.at(block_id, k) < S.at(out_nb, k))),
                     S.forall_idx(numblocks, lambda i: S.Or(S.at(numblocks, i) == 1, S.at(numblocks, i) == S.at(out_nb, off + i))))

    def ensures(result, numblocks, block_id, out_nb, q):
        off = S.slen(block_id) - S.slen(numblocks)
        inr = S.And(0 <= q, q < S.slen(numblocks))
        return {
            "rank": S.slen(result) == S.slen(numblocks),
            "broadcast-rule": S.Implies(inr, S.lazy_implies(inr, lambda: S.at(result, q) == S.If(S.at(numblocks, q) == 1, 0, S.at(block_id, off + q)))),
            "referenced-block-exists": S.Implies(S.And(inr, broadcast_block_id.aligned(numblocks, block_id, out_nb)),
                                                 S.lazy_implies(inr, lambda: S.And(0 <= S.at(result, q), S.at(result, q) < S.at(numblocks, q)))),
        }

    loops = {
        "for#1": Loop(invariant=lambda v, v0: {
            "len": S.slen(v.result) == v.it,
            "rule": S.Implies(S.And(0 <= v.q, v.q < v.it),
                              S.at(v.result, v.q) == S.If(S.at(v.numblocks, v.q) == 1, 0, S.at(v.block_id, v.offset + v.q))),
        }),
    }

    def ghost_domain(numblocks, block_id):
        import itertools
        n = len(block_id)
        outs = [tuple(max(b + 1, 1) + d for b in block_id) for d in (0, 1)]
        return {"out_nb": outs, "q": range(0, len(numblocks))}

    def domain(tier, rng):
        import itertools
        grids = [(), (1,), (3,), (1, 2), (2, 1), (2, 3), (1, 1, 2), (3, 1, 2)]
        for out in grids:
            for bid in itertools.product(*[range(n) for n in out]):
                for k in range(len(out) + 1):
                    tail = out[len(out) - k:]
                    for mask in itertools.product((False, True), repeat=k):
                        nb = tuple(1 if m else t for m, t in zip(mask, tail))
                        yield {"numblocks": nb, "block_id": bid}


@contract(f"{BW}::_compute_block_id", props=["C04"])
class compute_block_id:
    """block of a blockwise operand for an output block: every coordinate is in range of the operand's grid (the
    modulo wraps broadcast axes), a contracted axis is only accepted when it has a single block, otherwise ValueError."""
    params = {"ind": "seq", "idx_to_block": "map:int", "numblocks": "seq"}
    ghosts = {"q": "int"}
    result = "seq"
    raises = {"ValueError": lambda ind, idx_to_block, numblocks: S.Not(S.forall_idx(
        ind, lambda d: S.Or(S.mhas(idx_to_block, S.at(ind, d)), S.at(numblocks, d) == 1)))}

    def requires(ind, idx_to_block, numblocks):
        return S.And(S.slen(numblocks) == S.slen(ind), S.forall_idx(numblocks, lambda d: S.at(numblocks, d) >= 1))

    def ensures(result, ind, idx_to_block, numblocks, q):
        inr = S.And(0 <= q, q < S.slen(ind))
        return {
            "rank": S.slen(result) == S.slen(ind),
            "referenced-block-exists": S.Implies(inr, S.lazy_implies(inr, lambda: S.And(0 <= S.at(result, q), S.at(result, q) < S.at(numblocks, q)))),
            "aligned-axis-reads-the-output-block": S.Implies(
                S.And(inr, S.lazy_implies(inr, lambda: S.And(S.mhas(idx_to_block, S.at(ind, q)), 0 <= mval(idx_to_block, S.at(ind, q)),
                                                              mval(idx_to_block, S.at(ind, q)) < S.at(numblocks, q)))),
                S.lazy_implies(inr, lambda: S.at(result, q) == mval(idx_to_block, S.at(ind, q)))),
        }

    loops = {
        "for#1": Loop(invariant=lambda v, v0: {
            "len": S.slen(v.result) == v.it,
            "done": S.forall_idx(v.it, lambda d: S.Or(S.mhas(v.idx_to_block, S.at(v.ind, d)), S.at(v.numblocks, d) == 1)),
            "in-range": S.Implies(S.And(0 <= v.q, v.q < v.it),
                                  S.And(0 <= S.at(v.result, v.q), S.at(v.result, v.q) < S.at(v.numblocks, v.q),
                                        S.Implies(S.And(S.mhas(v.idx_to_block, S.at(v.ind, v.q)), 0 <= mval(v.idx_to_block, S.at(v.ind, v.q)),
                                                        mval(v.idx_to_block, S.at(v.ind, v.q)) < S.at(v.numblocks, v.q)),
                                                  S.at(v.result, v.q) == mval(v.idx_to_block, S.at(v.ind, v.q))))),
        }),
    }

    def ghost_domain(ind, idx_to_block, numblocks):
        return {"q": range(0, len(ind))}

    def domain(tier, rng):
        import itertools
        for ind in [(), (0,), (1, 0), (0, 2), (2, 1, 0), (0, 0)]:
            for nb in itertools.product((1, 2, 3), repeat=len(ind)):
                for m in [{}, {0: 0}, {0: 1, 1: 0}, {0: 2, 1: 1, 2: 0}, {1: 5}, {0: 4, 2: 3}]:
                    yield {"ind": ind, "idx_to_block": m, "numblocks": nb}


def _sorted(seq):
    """non-decreasing (all pairs; the form the cumulative-sum lemma `cum_sorted` delivers at the call site)"""
    if isinstance(seq, (tuple, list)):
        return all(a <= b for a, b in zip(seq, seq[1:]))
    import z3
    t = seq.t
    j, k = z3.Ints("j!srt k!srt")
    return z3.ForAll([j, k], z3.Implies(z3.And(0 <= j, j <= k, k < S.f_len(t)), S.f_at(t, j) <= S.f_at(t, k)),
                     patterns=[z3.MultiPattern(S.f_at(t, j), S.f_at(t, k))])


@contract(f"{BW}::Blockwise._accept_slice_coarse.<locals>.find_block_range", props=["C02", "C04"])
class find_block_range:
    """the blocks a unit-step range [start, stop) of an axis touches, given the axis' cumulative block boundaries
    (0, c0, c0+c1, ...): `first` is the block that holds element `start`, `last` the block that holds element
    `stop - 1` (first - 1 for an empty range); (None, None) exactly when `start` lies at or beyond the end of the axis.
    Every block the range touches lies in first..last, so culling the others loses nothing."""
    params = {"cumsum": "seq", "start": "int", "stop": "int"}
    result = "tup:optint,optint"

    def requires(cumsum, start, stop):
        n = S.slen(cumsum)
        return S.And(n >= 2, S.at(cumsum, 0) == 0, _sorted(cumsum),
                     0 <= start, start <= stop, stop <= S.at(cumsum, n - 1))

    def facts(cumsum, start, stop):
        return []

    def ensures(result, cumsum, start, stop):
        n = S.slen(cumsum)
        first, last = result.items if hasattr(result, "items") else result
        total = S.at(cumsum, n - 1)
        inb = S.Not(S.is_none(first))
        f, l = S.val(first), S.val(last)
        return {
            "none-exactly-when-start-is-past-the-end": S.is_none(first) == (start >= total),
            "both-or-neither": S.is_none(first) == S.is_none(last),
            "first-holds-start": S.Implies(inb, S.lazy_implies(inb, lambda: S.And(
                0 <= f, f < n - 1, S.at(cumsum, f) <= start, start < S.at(cumsum, f + 1)))),
            "last-holds-the-last-element": S.Implies(S.And(inb, stop > start), S.lazy_implies(S.And(inb, stop > start), lambda: S.And(
                f <= l, l < n - 1, S.at(cumsum, l) <= stop - 1, stop - 1 < S.at(cumsum, l + 1)))),
            "empty-range": S.Implies(S.And(inb, stop == start), l == f - 1),
        }

    def call(fn, cumsum, start, stop):
        import numpy as np
        return fn(np.array(cumsum), start, stop)

    def domain(tier, rng):
        from contracts.slicing import chunkings
        for n, c in chunkings(6 if tier == "quick" else 8):
            cs = [0]
            for x in c:
                cs.append(cs[-1] + x)
            for a in range(0, n + 1):
                for b in range(a, n + 1):
                    yield {"cumsum": tuple(cs), "start": a, "stop": b}


def _idx_to_block(rank):
    @contract(f"{BW}::Blockwise._idx_to_block", spec=f"rank{rank}", props=["C20", "C02", "C04"])
    class idx_to_block:
        """label -> block coordinate for one output block of a fused Blockwise: every label of the output maps to the
        output block's own coordinate along that axis -- also a label listed in new_axes (an ArrayBlockwiseDep payload such
        as map_blocks' block_info / block_id is indexed by it) -- and a new axis that is not part of the output maps to 0.
        Labels are abstracted as integers (distinct labels = distinct integers)."""
        params = {"self": "obj:Blockwise", "block_id": "tup:int"}
        ghosts = {"q": "int"}
        params = {"self": "obj:Blockwise", "block_id": "tup:" + ",".join(["int"] * rank)}
        fields = {"Blockwise": {"out_ind": "tup:" + ",".join(["int"] * rank), "new_axes": "map:int"}}
        result = "map:int"

        def call(fn, self, block_id):
            return fn(self, block_id)

        def requires(self, block_id):
            oi = self.get("out_ind")
            return S.And([S.item(oi, a) != S.item(oi, b) for a in range(rank) for b in range(a + 1, rank)])

        def ensures(result, self, block_id, q):
            oi = self.get("out_ind")
            na = self.get("new_axes")
            out = {}
            for d in range(rank):
                out[f"output-axis-{d}-keeps-the-output-coordinate"] = S.And(S.mhas(result, S.item(oi, d)),
                                                                            mval(result, S.item(oi, d)) == S.item(block_id, d))
            not_out = S.And([q != S.item(oi, d) for d in range(rank)])
            out["new-axis-outside-the-output-reads-block-0"] = S.Implies(S.And(S.mhas(na, q), not_out),
                                                                         S.And(S.mhas(result, q), mval(result, q) == 0))
            out["no-other-labels"] = S.Implies(S.And(S.Not(S.mhas(na, q)), not_out), S.Not(S.mhas(result, q)))
            return out

        loops = {
            "for#1": Loop(invariant=lambda v, v0: dict(
                [(f"out-{d}", S.And(S.mhas(v.idx_to_block, S.item(v.self.get("out_ind"), d)),
                                    mval(v.idx_to_block, S.item(v.self.get("out_ind"), d)) == S.item(v.block_id, d)))
                 for d in range(rank)] + [
                    ("visited", S.forall_idx(v.it, lambda i: S.And(
                        S.mhas(v.idx_to_block, S.at(v.itkeys, i)),
                        S.Or([S.at(v.itkeys, i) == S.item(v.self.get("out_ind"), d) for d in range(rank)]
                             + [mval(v.idx_to_block, S.at(v.itkeys, i)) == 0])))),
                    ("others", S.Implies(S.And([v.q != S.item(v.self.get("out_ind"), d) for d in range(rank)]
                                               + [S.Not(S.mhas(v.self.get("new_axes"), v.q))]),
                                         S.Not(S.mhas(v.idx_to_block, v.q)))),
                ])),
        }

        def ghost_domain(self, block_id):
            return {"q": range(0, 6)}

        def domain(tier, rng):
            import itertools
            from pyvc.concrete import Rec
            labels = [0, 1, 2, 3, 4]
            for oi in itertools.permutations(labels, rank):
                if oi[0] > 2:
                    continue
                for na in ({}, {oi[0]: 2} if rank else {5: 1}, {4: 1}, {oi[-1]: 1, 5: 3} if rank else {4: 2, 5: 2}):
                    for bid in itertools.product((0, 1, 2), repeat=rank):
                        yield {"self": Rec(out_ind=oi, new_axes=dict(na)), "block_id": bid}

    idx_to_block.__name__ = f"idx_to_block_rank{rank}"
    return idx_to_block


IDX1 = _idx_to_block(1)
IDX2 = _idx_to_block(2)
IDX3 = _idx_to_block(3)


# ---------------------------------------------------------------------------
# C28: basic indexing refuses a non-trivial index on an axis of unknown size
# ---------------------------------------------------------------------------
SB = "dask_array/slicing/_basic.py"


def _ext_ssi(ex, st, args, kwargs, node):
    """SliceSlicesIntegers(x, index, flag): some expression (constructed only on the non-refusing path)"""
    return ex.fresh_value("obj:Expr", "ssi")


def _ssi_unknown(spec, chunk_types, index_types, unknown_axes):
    @contract(f"{SB}::slice_slices_and_integers", spec=spec, props=["C28"])
    class ssi_unknown:
        """an index other than the full slice on an axis whose size is unknown is refused with ValueError; the full slice
        (and any index on a known axis) is accepted"""
        params = {"x": "obj:Arr", "index": index_types}
        fields = {"Arr": {"chunks": chunk_types}, "Expr": {}}
        result = "obj:Expr"
        externals = {"SliceSlicesIntegers": _ext_ssi}

        def _touches_unknown(index):
            from pyvc.spec import SliceV, TupV
            cs = []
            for ax in unknown_axes:
                ind = index.items[ax] if isinstance(index, TupV) else index[ax]
                if isinstance(ind, SliceV):
                    cs.append(S.Not(S.And(S.is_none(ind.start), S.is_none(ind.stop), S.is_none(ind.step))))
                elif isinstance(ind, slice):
                    cs.append(ind != slice(None, None, None))
                else:
                    cs.append(True)  # an integer is never the full slice
            return S.Or(*cs) if cs else False

        raises = {"ValueError": lambda x, index: ssi_unknown._touches_unknown(index)}

        def requires(x, index):
            return True

        def ensures(result, x, index):
            return {"accepted-only-when-unknown-axes-are-untouched": S.Not(ssi_unknown._touches_unknown(index))}

        def call(fn, x, index):
            # a real expression whose advertised chunks follow the NaN pattern of the record
            import math
            import numpy as np
            import dask_array as da
            pattern = x.get("chunks")
            known = tuple(tuple(2 if (isinstance(c, float) and math.isnan(c)) else int(c) for c in ax) for ax in pattern)
            base = da.ones(tuple(sum(ax) for ax in known), chunks=known)
            arr = da.map_blocks(lambda b: b, base, chunks=pattern, dtype=base.dtype)
            return fn(arr.expr, index)

        def domain(tier, rng):
            import math
            from pyvc.concrete import Rec
            nan = math.nan
            pat = {"tup:(tup:nan,nan)": ((nan, nan),), "tup:(tup:int,int),(tup:int,nan)": ((2, 1), (3, nan)),
                   "tup:(tup:nan),(tup:int,int)": ((nan,), (1, 2))}[chunk_types]
            sl = [slice(None), slice(None, None, None), slice(0, None), slice(None, 2), slice(None, None, 1), slice(1, 2), slice(None, None, -1)]
            kinds = [t.strip() for t in index_types[4:].split(",")]
            import itertools
            for combo in itertools.product(*[(sl if k == "slice" else [0, 1]) for k in kinds]):
                yield {"x": Rec(chunks=pat), "index": tuple(combo)}

    ssi_unknown.__name__ = "ssi_unknown_" + spec.replace("-", "_")
    return ssi_unknown


SSI1 = _ssi_unknown("nan-axis0-slice", "tup:(tup:nan,nan)", "tup:slice", [0])
SSI3 = _ssi_unknown("nan-axis1-of-2", "tup:(tup:int,int),(tup:int,nan)", "tup:slice,slice", [1])
SSI4 = _ssi_unknown("nan-axis0-of-2-int-slice", "tup:(tup:nan),(tup:int,int)", "tup:int,slice", [0])


# ---------------------------------------------------------------------------
# C02: the slice each operand of a plain Blockwise receives when a slice is pushed through it (fragment)
# ---------------------------------------------------------------------------
def _operand_slices(spec, arg_labels, out_labels):
    nd = len(arg_labels)
    no = len(out_labels)

    @contract(f"{BW}::Blockwise._accept_slice", spec=spec, props=["C02"])
    class operand_slices:
        """the part of Blockwise._accept_slice that builds one operand's index: along an axis the operand shares with the
        output it gets the output's slice for that axis -- unless the operand has length 1 there and is broadcast against a
        longer output axis, in which case it is read whole; an axis the output does not have is read whole.  So the sliced
        operand holds exactly the elements the sliced output is computed from"""
        fragment = {"first": "arg_slices = []", "first_nth": 2, "last": "for arg_axis, dim_idx in enumerate(arg_ind):"}
        params = {"arg": "obj:Arr", "self": "obj:BW", "arg_ind": "const", "out_ind": "const",
                  "slice_index": "tup:" + ",".join(["slice"] * no)}
        consts = {"arg_ind": tuple(arg_labels), "out_ind": tuple(out_labels)}
        fields = {"Arr": {"shape": "tup:" + ",".join(["int"] * nd)}, "BW": {"shape": "tup:" + ",".join(["int"] * no)}}
        result = None

        def requires(arg, self, arg_ind, out_ind, slice_index):
            return True

        def ensures(result, arg, self, arg_ind, out_ind, slice_index, env=None, calls=None):
            E = env if env is not None else result
            got = E.arg_slices
            items = got.items if hasattr(got, "items") and not isinstance(got, (list, tuple)) else list(got)
            out = {"one-slice-per-operand-axis": len(items) == nd}
            for a, lab in enumerate(arg_labels):
                if a >= len(items):
                    continue
                if lab not in out_labels:
                    out[f"axis-{a}-absent-from-the-output-is-read-whole"] = _is_full(items[a])
                    continue
                pos = list(out_labels).index(lab)
                bc = S.And(S.item(arg.get("shape"), a) == 1, S.item(self.get("shape"), pos) != 1)
                same = _slice_same(items[a], S.item(slice_index, pos))
                key = f"axis-{a}-gets-the-output-slice-or-is-read-whole-when-broadcast"
                out[key] = S.If(bc, _is_full(items[a]), same) if env is not None else (_is_full(items[a]) if bc else same)
            return out

        def domain(tier, rng):
            from pyvc.concrete import Rec
            sl = [slice(None), slice(1, 3), slice(0, 1), slice(2, None)]
            for ash in ([(4, 6), (1, 6), (4, 1), (1, 1)] if nd == 2 else [(6,), (1,)]):
                for osh in [(4, 6), (1, 6)]:
                    for s0 in sl:
                        for s1 in sl[:3]:
                            yield {"arg": Rec(shape=ash), "self": Rec(shape=osh[:no]), "arg_ind": tuple(arg_labels), "out_ind": tuple(out_labels),
                                   "slice_index": (s0, s1)[:no]}

    operand_slices.__name__ = "operand_slices_" + spec.replace("-", "_")
    return operand_slices


def _is_full(s):
    if isinstance(s, slice):
        return s == slice(None)
    a, b, c = S.parts(s)
    return S.And(S.is_none(a), S.is_none(b), S.is_none(c))


def _slice_same(a, b):
    if isinstance(a, slice) or isinstance(b, slice):
        return a == b
    return S.slice_eq(a, b)


OS1 = _operand_slices("operand-index-ij-of-ij", ("i", "j"), ("i", "j"))
OS2 = _operand_slices("operand-index-ji-of-ij", ("j", "i"), ("i", "j"))
OS3 = _operand_slices("operand-index-j-of-ij", ("j",), ("i", "j"))
OS4 = _operand_slices("operand-index-ik-of-ij", ("i", "k"), ("i", "j"))
