"""Contracts for the rechunk planner (dask_array/_rechunk.py)."""
from pyvc.contract import contract, Loop
from pyvc import spec as S

RC = "dask_array/_rechunk.py"


@contract(f"{RC}::divide_to_width", props=["C15"])
class divide_to_width:
    """splitting keeps the total, never exceeds the width, and only splits
    (every input chunk becomes a run of consecutive pieces)."""
    params = {"desired_chunks": "seq", "max_width": "int"}
    result = "seq"

    def requires(desired_chunks, max_width):
        return S.And(max_width >= 1, S.chunking(desired_chunks))

    def ensures(result, desired_chunks, max_width):
        return {
            "sum": S.ssum(result) == S.ssum(desired_chunks),
            "width": S.forall_idx(result, lambda j: S.And(0 <= S.at(result, j), S.at(result, j) <= max_width)),
        }

    loops = {
        "for#1": Loop(invariant=lambda v, v0: {
            "sum": S.ssum(v.chunks) == S.prefix(v.desired_chunks, v.it),
            "width": S.forall_idx(v.chunks, lambda j: S.And(0 <= S.at(v.chunks, j), S.at(v.chunks, j) <= v.max_width)),
        }),
        "for#2": Loop(invariant=lambda v, v0: {
            "left": S.And(v.c >= 0, v.c <= (v.nb_divides - v.it) * v.max_width),
            "sum": S.ssum(v.chunks) + v.c == S.ssum(v0.chunks) + v0.c,
            "width": S.forall_idx(v.chunks, lambda j: S.And(0 <= S.at(v.chunks, j), S.at(v.chunks, j) <= v.max_width)),
        }),
    }

    def domain(tier, rng):
        from contracts.slicing import chunkings
        for n, c in chunkings(7 if tier == "quick" else 10):
            for w in range(1, 9):
                yield {"desired_chunks": c, "max_width": w}
        for c in [(100,), (64, 1, 17), (1000, 999)]:
            for w in (1, 7, 64, 1000):
                yield {"desired_chunks": c, "max_width": w}


@contract(f"{RC}::merge_to_number", props=["C15"])
class merge_to_number:
    """merging keeps the total, only merges adjacent blocks (the result is a
    coarsening), and lands at or below max_number blocks.  Bounded only: the
    uniform closed form needs a nested-floor argument and the general branch is
    a heap loop (see DESIGN C15)."""
    bounded_only = True
    params = {"desired_chunks": "seq", "max_number": "int"}
    scope = "all chunkings of lengths <= 8 (quick) / 11 (thorough), with zero chunks up to length 6 / 8, uniform tuples up to 40 blocks, max_number 1..15"

    def requires(desired_chunks, max_number):
        return max_number >= 1 and len(desired_chunks) >= 1 and all(c >= 0 for c in desired_chunks)

    def ensures(result, desired_chunks, max_number):
        def bounds(t):
            out, acc = set(), 0
            for c in t:
                acc += c
                out.add(acc)
            return out
        return {
            "sum": sum(result) == sum(desired_chunks),
            "count": len(result) <= max(max_number, 1) or len(desired_chunks) <= max_number,
            "coarsening": bounds(result) <= bounds(desired_chunks),
            "positive": all(c >= 1 for c in result) or not all(c >= 1 for c in desired_chunks),
            "non-negative": all(c >= 0 for c in result),
            "unchanged-when-few": len(desired_chunks) > max_number or tuple(result) == tuple(desired_chunks),
        }

    def domain(tier, rng):
        from contracts.slicing import chunkings
        for w in (1, 2, 3, 7):
            for n in range(1, 14 if tier == "quick" else 40):
                for m in range(1, 16):
                    yield {"desired_chunks": (w,) * n, "max_number": m}
        for n, c in chunkings(8 if tier == "quick" else 11, zero=False):
            if not c:
                continue
            for m in range(1, len(c) + 2):
                yield {"desired_chunks": c, "max_number": m}
        # layouts with zero-width chunks (they arise from explicit chunk tuples and from data-dependent selections)
        for n, c in chunkings(6 if tier == "quick" else 8, zero=True):
            if c and 0 in c:
                for m in range(1, len(c) + 1):
                    yield {"desired_chunks": c, "max_number": m}
        yield {"desired_chunks": (0, 1, 1, 1), "max_number": 2}


def _prefix(t):
    out = [0]
    for c in t:
        out.append(out[-1] + c)
    return out


@contract(f"{RC}::old_to_new", spec="1d", props=["C15", "C14"])
class old_to_new__1d:
    """crosswalk: every new block is covered exactly once, in order, by
    contiguous in-bounds pieces of old blocks.  (`_intersect_1d` is a label
    state machine over merged breakpoints: bounded only.)"""
    bounded_only = True
    params = {"old_chunks": "const", "new_chunks": "const"}
    scope = "all pairs of chunkings (with optional zero chunk) of equal length <= 6 (quick) / 8 (thorough)"

    def requires(old_chunks, new_chunks):
        return sum(old_chunks[0]) == sum(new_chunks[0])

    def ensures(result, old_chunks, new_chunks):
        old, new = old_chunks[0], new_chunks[0]
        po, pn = _prefix(old), _prefix(new)
        cross = result[0]
        ok_len = len(cross) == len(new)
        if not ok_len:
            return {"one-entry-per-new-block": False}
        inb = True
        exact = True
        for k, pieces in enumerate(cross):
            covered = []
            for (oi, sl) in pieces:
                if not (0 <= oi < len(old)):
                    inb = False
                    continue
                a, b = sl.start, sl.stop
                if not (sl.step in (None, 1) and 0 <= a <= b <= old[oi]):
                    inb = False
                covered.extend(range(po[oi] + a, po[oi] + b))
            if covered != list(range(pn[k], pn[k + 1])):
                exact = False
        return {"one-entry-per-new-block": True, "pieces-in-bounds": inb, "covers-each-new-block-exactly-once-in-order": exact}

    def domain(tier, rng):
        from contracts.slicing import chunkings
        by_n = {}
        for n, c in chunkings(6 if tier == "quick" else 8, maxparts=4 if tier == "quick" else None):
            by_n.setdefault(n, []).append(c)
        for n, cs in by_n.items():
            for a in cs:
                for b in cs:
                    yield {"old_chunks": (a,), "new_chunks": (b,)}


def _config_call(fn, old_chunks, new_chunks, itemsize, threshold, block_size_limit, degree_limit):
    import dask
    with dask.config.set({"array.rechunk.degree-limit": degree_limit}):
        return fn(old_chunks, new_chunks, itemsize, threshold, block_size_limit)


@contract(f"{RC}::plan_rechunk", props=["C15"])
class plan_rechunk:
    """a plan is a finite list of chunkings of the same shape ending in the new
    chunking; steps stay within the block-size budget (known finding F3 for the
    degree pass under small degree limits)."""
    bounded_only = True
    params = {"old_chunks": "const", "new_chunks": "const", "itemsize": "const", "threshold": "const",
              "block_size_limit": "const", "degree_limit": "const"}
    scope = ("1-D and 2-D pairs of chunkings of extents <= 6x6 (quick: sampled with VERIF_SEED) ; itemsize {1,4,8}; "
             "threshold {1,2,4}; block_size_limit {8,32,1000} bytes; degree limit {2,4,100}")
    call = staticmethod(_config_call)

    def requires(old_chunks, new_chunks, itemsize, threshold, block_size_limit, degree_limit):
        return all(sum(o) == sum(n) for o, n in zip(old_chunks, new_chunks))

    def ensures(result, old_chunks, new_chunks, itemsize, threshold, block_size_limit, degree_limit):
        import math
        shape = tuple(sum(o) for o in old_chunks)
        steps = list(result)
        out = {"finite-nonempty-list": len(steps) >= 1}
        if not steps:
            return out
        out["ends-in-new-chunking"] = tuple(steps[-1]) == tuple(new_chunks)
        out["steps-are-chunkings-of-the-shape"] = all(
            len(s) == len(shape) and all(len(ax) >= 1 and all(isinstance(c, int) and c >= 0 for c in ax) and sum(ax) == n
                                         for ax, n in zip(s, shape)) for s in steps)
        if all(new_chunks) and len(new_chunks) >= 1:
            big = lambda ch: math.prod(max(ax) for ax in ch)
            budget = max(block_size_limit / itemsize, big(old_chunks), big(new_chunks))
            within = all(big(s) <= budget for s in steps[:-1])
            if degree_limit >= 100:
                out["budget"] = within
            else:
                out["budget-under-small-degree-limit"] = within
        return out

    def domain(tier, rng):
        from contracts.slicing import chunkings
        by_n = {}
        for n, c in chunkings(6, zero=False):
            if c:
                by_n.setdefault(n, []).append(c)
        cfgs = [(i, t, b, d) for i in (1, 4, 8) for t in (1, 2, 4) for b in (8, 32, 1000) for d in (2, 4, 100)]
        # the recorded witness of known finding F3 first
        yield {"old_chunks": ((4,), (3, 3, 1)), "new_chunks": ((3, 1), (4, 1, 2)), "itemsize": 4, "threshold": 4,
               "block_size_limit": 8, "degree_limit": 4}
        for n in (4, 6):
            for a in by_n[n]:
                for b in by_n[n]:
                    for cfg in (cfgs if tier != "quick" else rng.sample(cfgs, 4)):
                        yield {"old_chunks": (a,), "new_chunks": (b,), "itemsize": cfg[0], "threshold": cfg[1],
                               "block_size_limit": cfg[2], "degree_limit": cfg[3]}
        # zero-width chunks in the old layout, small degree limits (the degree pass merges the finer endpoint)
        zs = [c for n, c in chunkings(4, zero=True) if c and 0 in c and n == 3]
        for a in zs:
            for b in by_n[3]:
                for d in (2, 4, 100):
                    yield {"old_chunks": (a,), "new_chunks": (b,), "itemsize": 8, "threshold": 4, "block_size_limit": 1000, "degree_limit": d}
                    yield {"old_chunks": (b,), "new_chunks": (a,), "itemsize": 8, "threshold": 4, "block_size_limit": 1000, "degree_limit": d}
        two = [(a, b) for n in (3, 4, 6) for a in by_n[n] for b in by_n[n]]
        count = 3000 if tier == "quick" else 60000
        for _ in range(count):
            (a0, b0), (a1, b1) = rng.choice(two), rng.choice(two)
            cfg = rng.choice(cfgs)
            yield {"old_chunks": (a0, a1), "new_chunks": (b0, b1), "itemsize": cfg[0], "threshold": cfg[1],
                   "block_size_limit": cfg[2], "degree_limit": cfg[3]}


def _mtn_hints(result, desired_chunks, max_number):
    """proof script for the closed form: k = (n*w // M) // w equals n // M, and adjust = n - k*M"""
    n = S.slen(desired_chunks)
    w = S.at(desired_chunks, 0)
    M = max_number
    dw = S.div(n * w, M)
    k = S.div(dw, w)
    r = n - k * M
    return {
        "mono-a": S.Implies(S.And(k * M >= n + 1, w >= 1), (k * M) * w >= (n + 1) * w),
        "chain-a": S.And(k * w <= dw, (k * w) * M <= dw * M, dw * M <= n * w),
        "k-lower": k * M <= n,
        "mono-b": S.Implies(S.And((k + 1) * M <= n, w >= 1), ((k + 1) * M) * w <= n * w),
        "chain-b": S.And(dw + 1 <= (k + 1) * w, (dw + 1) * M <= ((k + 1) * w) * M, n * w < (dw + 1) * M),
        "k-upper": n < (k + 1) * M,
        "k-nonneg": k >= 0,
        "factor": n * w - M * (w * k) == w * r,
        "mult-r": ("lemma", "mod_multiple", r, w),
        "adjust": S.div(n * w - M * (w * k), w) == r,
        "mult-k": ("lemma", "mod_multiple", k, w),
        "mult-k1": ("lemma", "mod_multiple", k + 1, w),
        "mult-1": ("lemma", "mod_multiple", S._i(1) if S.z3 is not None else 1, w),
    }


@contract(f"{RC}::merge_to_number", spec="uniform", props=["C15"])
class merge_to_number__uniform:
    """uniform input (the closed-form branch): exactly max_number blocks, total kept, every block a whole number of input
    blocks, sizes differ by at most one input block"""
    params = {"desired_chunks": "seq", "max_number": "int"}
    result = "seq"
    post_hints = _mtn_hints

    def requires(desired_chunks, max_number):
        return S.And(max_number >= 1, S.slen(desired_chunks) >= 1, S.at(desired_chunks, 0) >= 1,
                     S.forall_idx(desired_chunks, lambda j: S.at(desired_chunks, j) == S.at(desired_chunks, 0)))

    def facts(desired_chunks, max_number):
        return [("uniform_prefix", desired_chunks)]

    def ensures(result, desired_chunks, max_number):
        w = S.at(desired_chunks, 0)
        n = S.slen(desired_chunks)
        return {
            "count": S.slen(result) == S.min_(n, max_number),
            "sum": S.ssum(result) == n * w,
            # every block is a whole number of input blocks: k*w or (k+1)*w with k = n // min(n, max_number)
            "whole-blocks": S.forall_idx(result, lambda j: S.Or(S.at(result, j) == w * S.div(n, S.min_(n, max_number)),
                                                                S.at(result, j) == w * (S.div(n, S.min_(n, max_number)) + 1))),
        }

    def domain(tier, rng):
        for w in (1, 2, 3, 7):
            for n in range(1, 14 if tier == "quick" else 40):
                for m in range(1, 16):
                    yield {"desired_chunks": (w,) * n, "max_number": m}


# ---------------------------------------------------------------------------
# C14: "x.rechunk(spec) has the chunks that normalising the spec against x's shape gives" -- the expression's advertised
# chunks, by record abstraction at rank 1 for an integer (or -1) specification, on the real Rechunk.chunks property.
# ---------------------------------------------------------------------------
@contract(f"{RC}::_validate_rechunk", spec="rank1", props=["C14", "C28"])
class validate_rechunk_r1:
    """with all sizes known, a rechunk is accepted exactly when old and new layouts describe the same extent"""
    params = {"old_chunks": "tup:seq", "new_chunks": "tup:seq"}
    raises = {"ValueError": lambda old_chunks, new_chunks: S.ssum(S.item(old_chunks, 0)) != S.ssum(S.item(new_chunks, 0))}

    def requires(old_chunks, new_chunks):
        return True

    def ensures(result, old_chunks, new_chunks):
        return {"same-extent": S.ssum(S.item(old_chunks, 0)) == S.ssum(S.item(new_chunks, 0))}

    def domain(tier, rng):
        from contracts.slicing import chunkings
        cs = chunkings(5)
        for n, a in cs:
            for m, b in cs:
                yield {"old_chunks": (a,), "new_chunks": (b,)}


def _validate_unknown(spec, old_t, new_t, must_raise):
    @contract(f"{RC}::_validate_rechunk", spec=spec, props=["C28", "C14"])
    class validate_rechunk_unknown:
        """along an axis with unknown (NaN) sizes a rechunk is accepted only when the layout is left exactly as it is
        (same number of blocks, NaN against NaN); anything else raises ValueError instead of dropping or inventing blocks"""
        params = {"old_chunks": old_t, "new_chunks": new_t}
        raises = {"ValueError": (lambda old_chunks, new_chunks: True) if must_raise else (lambda old_chunks, new_chunks: False)}

        def requires(old_chunks, new_chunks):
            return True

        def ensures(result, old_chunks, new_chunks):
            return {"accepted-only-when-the-unknown-axis-is-unchanged": not must_raise}

        def domain(tier, rng):
            import math
            nan = math.nan

            def mk(t):
                axes = []
                for ax in t[4:].replace("(", "").replace(")", "").split("tup:")[1:]:
                    axes.append(tuple(nan if k.strip() == "nan" else 2 for k in ax.strip(" ,").split(",")))
                return tuple(axes)
            yield {"old_chunks": mk(old_t), "new_chunks": mk(new_t)}

    validate_rechunk_unknown.__name__ = "validate_rechunk_" + spec.replace("-", "_")
    return validate_rechunk_unknown


VRU1 = _validate_unknown("nan2-to-nan1", "tup:(tup:nan,nan)", "tup:(tup:nan)", True)
VRU2 = _validate_unknown("nan2-to-nan2", "tup:(tup:nan,nan)", "tup:(tup:nan,nan)", False)
VRU3 = _validate_unknown("nan1-to-nan3", "tup:(tup:nan)", "tup:(tup:nan,nan,nan)", True)
VRU4 = _validate_unknown("int-nan-to-nan", "tup:(tup:int,nan)", "tup:(tup:nan)", True)
VRU5 = _validate_unknown("nan2-to-int2", "tup:(tup:nan,nan)", "tup:(tup:int,int)", True)
VRU6 = _validate_unknown("r2-known-axis-and-nan3-to-nan2", "tup:(tup:int,int),(tup:nan,nan,nan)", "tup:(tup:int,int),(tup:nan,nan)", True)


from contracts.chunks import uniform_axis, _full_or  # noqa: E402


@contract(f"{RC}::Rechunk.chunks", spec="r1-int", props=["C14", "C03"])
class rechunk_chunks_r1_int:
    """an integer (or -1) specification: the advertised chunks of the rechunk are the uniform layout of that size over
    x's extent (blocks of size c, a smaller positive last one; -1 = one block), whatever x's own chunks were"""
    params = {"self": "obj:Rechunk"}
    result = "tup:seq"
    raises = {}  # an accepted specification is never refused
    fields = {"Rechunk": {"array": "obj:Arr", "_chunks": "tup:int", "block_size_limit": "optint", "balance": "const"},
              "Arr": {"chunks": "tup:seq", "shape": "tup:int", "ndim": "const", "dtype": "abs:DType"}}
    consts = {"self.balance": False, "self.array.ndim": 1}

    def requires(self):
        x = self.get("array")
        c, s = S.item(self.get("_chunks"), 0), S.item(x.get("shape"), 0)
        # class invariant of x (its chunks are a chunking of its extent) and an accepted integer specification
        return S.And(s >= 0, S.chunking(S.item(x.get("chunks"), 0), s), S.Or(c >= 1, c == -1), S.Or(s >= 1, c != -1))

    def ensures(result, self):
        x = self.get("array")
        c, s = S.item(self.get("_chunks"), 0), S.item(x.get("shape"), 0)
        return uniform_axis(S.item(result, 0), s, _full_or(c, s))


@contract(f"{RC}::_get_chunks", props=["C14"])
class get_chunks:
    """the uniform layout of an axis of length n with blocks of `chunksize`: the blocks add up to n, every block is positive
    and at most chunksize, all but the last equal chunksize, and there are ceil(n / chunksize) of them (the candidates
    _balance_chunksizes chooses from: whichever it picks covers the axis exactly)"""
    params = {"n": "int", "chunksize": "int"}
    ghosts = {"q": "int"}
    result = "seq"

    def requires(n, chunksize):
        return S.And(n >= 0, chunksize >= 1)

    def ensures(result, n, chunksize, q):
        k = S.slen(result)
        inr = S.And(0 <= q, q < k)
        return {
            "adds-up": S.ssum(result) == n,
            "count": k == S.ceildiv(n, chunksize),
            "blocks": S.Implies(inr, S.lazy_implies(inr, lambda: S.And(1 <= S.at(result, q), S.at(result, q) <= chunksize,
                                                                       S.Implies(q < k - 1, S.at(result, q) == chunksize)))),
        }

    def ghost_domain(n, chunksize):
        return {"q": range(0, n + 1)}

    def domain(tier, rng):
        for n in range(0, 30):
            for c in range(1, 12):
                yield {"n": n, "chunksize": c}


# ---------------------------------------------------------------------------
# Rechunk pushed through a transpose (C14): the inner rechunk gets the target chunks permuted back, and the planner
# arguments travel with it
# ---------------------------------------------------------------------------
def _ext_arr_rechunk(ex, st, args, kwargs, node):
    """arr.rechunk(chunks, threshold=, block_size_limit=, method=): a node with those chunks (Rechunk.chunks, proved for
    explicit layouts by normalize_chunks[explicit]) that remembers the planner arguments it was given"""
    o = ex.fresh_value("obj:Arr", "rechunked")
    o.fields["chunks"] = args[1]
    o.fields["__rechunk_of__"] = args[0]
    o.fields["__planner__"] = dict(kwargs)
    return o


def _ext_arr_rechunk_kw(ex, st, args, kwargs, node):
    return _ext_arr_rechunk(ex, st, args, kwargs, node)


def _ext_transpose(ex, st, args, kwargs, node):
    """Transpose(array, axes): a record of its operands"""
    o = ex.fresh_value("obj:Transpose", "moved")
    o.fields["array"] = args[0]
    o.fields["axes"] = args[1]
    return o


def _pushdown_T(axes):
    rank = len(axes)
    tys = ",".join(["seq"] * rank)

    @contract(f"{RC}::Rechunk._pushdown_through_transpose", spec="axes" + "".join(map(str, axes)), props=["C14", "C02"])
    class pushdown_transpose:
        """Rechunk(Transpose(y, axes), target) -> Transpose(y.rechunk(inner), axes) with inner[axes[i]] == target[i] for
        every output axis i -- so that the transpose of the inner rechunk has exactly the requested chunks --, over the same
        y and the same axes"""
        params = {"self": "obj:Rechunk"}
        result = "obj:Transpose"
        fields = {"Rechunk": {"array": "obj:Transpose", "chunks": "tup:" + tys, "threshold": "abs:Any", "block_size_limit": "abs:Any",
                              "method": "abs:Any"},
                  "Transpose": {"array": "obj:Arr", "axes": "const"}, "Arr": {}}
        consts = {"self.array.axes": tuple(axes)}
        externals = {"Transpose": _ext_transpose, "Arr.rechunk": _ext_arr_rechunk}

        def requires(self):
            return True

        def ensures(result, self):
            inner = result.fields["array"]
            out = {"same-axes": tuple(S.val(a) if not isinstance(a, int) else a for a in _items(result.fields["axes"])) == tuple(axes),
                   "rechunk-of-the-same-input": inner.fields.get("__rechunk_of__") is self.get("array").get("array")}
            import z3
            planner = inner.fields.get("__planner__", {})
            for k in ("threshold", "block_size_limit", "method"):
                a, b = planner.get(k), self.get(k)
                ta = a if z3.is_expr(a) else getattr(a, "t", None)
                tb = b if z3.is_expr(b) else getattr(b, "t", None)
                out[f"planner-argument-{k}-travels"] = ta is not None and tb is not None and ta.eq(tb)
            for i, ax in enumerate(axes):
                out[f"output-axis-{i}-gets-its-requested-chunks"] = S.seq_equal(S.item(inner.fields["chunks"], ax), S.item(self.get("chunks"), i))
            return out

    pushdown_transpose.__name__ = "pushdown_transpose_" + "".join(map(str, axes))
    return pushdown_transpose


def _items(v):
    return v.items if hasattr(v, "items") and not isinstance(v, dict) else list(v)


PT10 = _pushdown_T((1, 0))
PT201 = _pushdown_T((2, 0, 1))
PT120 = _pushdown_T((1, 2, 0))
PT021 = _pushdown_T((0, 2, 1))


def _ext_rechunk_node(ex, st, args, kwargs, node):
    """Rechunk(array, chunks, threshold, block_size_limit, balance, method): a node with those chunks (explicit layouts:
    normalize_chunks[explicit]) that remembers its operands"""
    o = ex.fresh_value("obj:Arr", "rechunked")
    o.fields["chunks"] = args[1]
    o.fields["__rechunk_of__"] = args[0]
    o.fields["__planner__"] = {"threshold": args[2], "block_size_limit": args[3], "method": args[5]}
    return o


def _ext_expand_dims(ex, st, args, kwargs, node):
    """ExpandDims(array, axes): a record of its operands"""
    o = ex.fresh_value("obj:ExpandDims", "expanded")
    o.fields["array"] = args[0]
    o.fields["axes"] = args[1]
    return o


def _pushdown_E(rank_out, new_axes):
    tys = ",".join(["seq"] * rank_out)
    inner_axes = [a for a in range(rank_out) if a not in new_axes]

    @contract(f"{RC}::Rechunk._pushdown_through_expand_dims", spec=f"r{rank_out}-new" + "".join(map(str, new_axes)), props=["C14", "C02"])
    class pushdown_expand_dims:
        """Rechunk(ExpandDims(y, axes), target) -> ExpandDims(Rechunk(y, inner), axes) where `inner` is the target without
        the expanded axes, in order -- taken only when the target gives every expanded axis the chunks (1,), the only chunks
        ExpandDims can produce there; otherwise the rewrite declines"""
        params = {"self": "obj:Rechunk"}
        result = "obj:ExpandDims"
        fields = {"Rechunk": {"array": "obj:ExpandDims", "chunks": "tup:" + tys, "threshold": "abs:Any", "block_size_limit": "abs:Any",
                              "method": "abs:Any"},
                  "ExpandDims": {"array": "obj:Arr", "axes": "const"}, "Arr": {}}
        consts = {"self.array.axes": tuple(new_axes)}
        externals = {"ExpandDims": _ext_expand_dims, "Rechunk": _ext_rechunk_node}

        def requires(self):
            return True

        def ensures(result, self):
            from pyvc.spec import Opt
            import z3
            target = self.get("chunks")
            unit = S.And([S.And(S.slen(S.item(target, a)) == 1, S.at(S.item(target, a), 0) == 1) for a in new_axes])
            if isinstance(result, Opt):
                return {"declines-only-when-an-expanded-axis-is-not-one-unit-block": S.Not(unit)}
            inner = result.fields["array"]
            out = {"taken-only-when-every-expanded-axis-is-one-unit-block": unit,
                   "rechunk-of-the-same-input": inner.fields.get("__rechunk_of__") is self.get("array").get("array")}
            for pos, a in enumerate(inner_axes):
                out[f"inner-axis-{pos}-gets-the-target-of-output-axis-{a}"] = S.seq_equal(S.item(inner.fields["chunks"], pos), S.item(target, a))
            planner = inner.fields.get("__planner__", {})
            for k in ("threshold", "block_size_limit", "method"):
                a_, b_ = planner.get(k), self.get(k)
                ta = a_ if z3.is_expr(a_) else getattr(a_, "t", None)
                tb = b_ if z3.is_expr(b_) else getattr(b_, "t", None)
                out[f"planner-argument-{k}-travels"] = ta is not None and tb is not None and ta.eq(tb)
            return out

    pushdown_expand_dims.__name__ = f"pushdown_expand_dims_r{rank_out}_" + "".join(map(str, new_axes))
    return pushdown_expand_dims


PE0 = _pushdown_E(2, (0,))
PE1 = _pushdown_E(3, (1,))
PE02 = _pushdown_E(3, (0, 2))


# ---------------------------------------------------------------------------
# A slice pushed through a transpose (C02): the input is sliced with the index permuted back
# ---------------------------------------------------------------------------
TR = "dask_array/manipulation/_transpose.py"


def _ext_new_collection(ex, st, args, kwargs, node):
    """new_collection(expr): the collection of that expression"""
    o = ex.fresh_value("obj:Coll", "coll")
    o.fields["of"] = args[0]
    return o


def _ext_coll_getitem(ex, st, args, kwargs, node):
    """collection[index]: a collection whose expression is the basic slice of the operand with that index (the slice node
    itself is under contract: SliceSlicesIntegers / _slice_1d)"""
    base, key = args
    sl = ex.fresh_value("obj:Sliced", "sliced")
    sl.fields["array"] = base.fields["of"]
    sl.fields["index"] = key
    o = ex.fresh_value("obj:Coll", "coll")
    o.fields["of"] = sl
    o.fields["expr"] = sl
    return o


def _slice_T(axes):
    rank = len(axes)

    @contract(f"{TR}::Transpose._accept_slice", spec="slices-axes" + "".join(map(str, axes)), props=["C02", "C13"])
    class transpose_accept_slice:
        """Slice(Transpose(x, axes), index) with a full-length index of slices -> Transpose(Slice(x, inner), axes) where
        inner[axes[i]] == index[i] for every output axis i: the input is sliced with the index permuted back, and the same
        axes are applied afterwards"""
        params = {"self": "obj:Transpose", "slice_expr": "obj:SliceExpr"}
        result = "obj:Transpose"
        fields = {"Transpose": {"array": "obj:Arr", "axes": "const", "ndim": "const"}, "Arr": {},
                  "SliceExpr": {"index": "tup:" + ",".join(["slice"] * rank)}, "Coll": {}, "Sliced": {}}
        consts = {"self.axes": tuple(axes), "self.ndim": rank}
        externals = {"new_collection": _ext_new_collection, "Coll.__getitem__": _ext_coll_getitem, "Transpose": _ext_transpose}

        def requires(self, slice_expr):
            return True

        def ensures(result, self, slice_expr):
            sl = result.fields["array"]
            out = {"same-axes": tuple(S.val(a) if not isinstance(a, int) else a for a in _items(result.fields["axes"])) == tuple(axes),
                   "slice-of-the-same-input": sl.fields.get("array") is self.get("array")}
            inner = sl.fields["index"]
            for i, ax in enumerate(axes):
                out[f"input-axis-{ax}-gets-the-index-of-output-axis-{i}"] = S.slice_eq(S.item(inner, ax), S.item(slice_expr.get("index"), i))
            return out

    transpose_accept_slice.__name__ = "transpose_accept_slice_" + "".join(map(str, axes))
    return transpose_accept_slice


ST10 = _slice_T((1, 0))
ST201 = _slice_T((2, 0, 1))
ST120 = _slice_T((1, 2, 0))
ST021 = _slice_T((0, 2, 1))
