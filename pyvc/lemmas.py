"""Prelude lemmas that need induction.  Each lemma is a quantified fact about
the axiomatised IntSeq sort, *proved* by the engine's induction schema
(lemma-base / lemma-step obligations, discharged by SMT on every run) and only
then usable as a hypothesis in unit obligations (`facts` in a contract).

The induction schema itself (P(i,i) and P(i,k) => P(i,k+1) give P for all
i <= k) is the one thing trusted here.
"""
from __future__ import annotations

import z3

from . import spec as S


def nonneg(s):
    j = z3.Int("j!nn")
    return z3.ForAll([j], z3.Implies(z3.And(0 <= j, j < S.f_len(s)), S.f_at(s, j) >= 0), patterns=[S.f_at(s, j)])


def mono_prefix(s):
    """non-negative entries => prefix sums are non-decreasing."""
    i, k = z3.Ints("i!mp k!mp")
    return z3.Implies(
        nonneg(s),
        z3.ForAll([i, k], z3.Implies(z3.And(0 <= i, i <= k, k <= S.f_len(s)), S.f_prefix(s, i) <= S.f_prefix(s, k)),
                  patterns=[z3.MultiPattern(S.f_prefix(s, i), S.f_prefix(s, k))]))


def mono_prefix_proof():
    s = z3.Const("s!l", S.SeqSort)
    i, k = z3.Ints("i!l k!l")
    hyp = [nonneg(s), 0 <= i, i <= k, k < S.f_len(s)]
    return [
        ("lemma-base", "mono_prefix", [nonneg(s), 0 <= i, i <= S.f_len(s)], S.f_prefix(s, i) <= S.f_prefix(s, i)),
        ("lemma-step", "mono_prefix", hyp + [S.f_prefix(s, i) <= S.f_prefix(s, k)], S.f_prefix(s, i) <= S.f_prefix(s, k + 1)),
    ]


def prefix_nonneg(s):
    i = z3.Int("i!pn")
    return z3.Implies(nonneg(s), z3.ForAll([i], z3.Implies(z3.And(0 <= i, i <= S.f_len(s)), S.f_prefix(s, i) >= 0),
                                           patterns=[S.f_prefix(s, i)]))


def prefix_nonneg_proof():
    s = z3.Const("s!l", S.SeqSort)
    k = z3.Int("k!l")
    return [
        ("lemma-base", "prefix_nonneg", [nonneg(s)], S.f_prefix(s, 0) >= 0),
        ("lemma-step", "prefix_nonneg", [nonneg(s), 0 <= k, k < S.f_len(s), S.f_prefix(s, k) >= 0], S.f_prefix(s, k + 1) >= 0),
    ]


def cum_sorted(s):
    """cumsum of a non-negative sequence is sorted (bisect precondition)."""
    j, k = z3.Ints("j!cs k!cs")
    c = S.f_cum(s)
    return z3.Implies(nonneg(s), z3.ForAll([j, k], z3.Implies(z3.And(0 <= j, j <= k, k < S.f_len(s)), S.f_at(c, j) <= S.f_at(c, k)),
                                           patterns=[z3.MultiPattern(S.f_at(c, j), S.f_at(c, k))]))


def cum_sorted_proof():
    s = z3.Const("s!l", S.SeqSort)
    j, k = z3.Ints("j!l k!l")
    c = S.f_cum(s)
    # follows from mono_prefix (used as a hypothesis, itself proved above)
    return [("lemma-step", "cum_sorted", [mono_prefix(s), nonneg(s), 0 <= j, j <= k, k < S.f_len(s)], S.f_at(c, j) <= S.f_at(c, k))]


def _moddefs(a, b):
    q, r = S.f_pydiv(a, b), S.f_pymod(a, b)
    return [z3.Implies(b > 0, z3.And(a == q * b + r, 0 <= r, r < b)),
            z3.Implies(b < 0, z3.And(a == q * b + r, b < r, r <= 0))]


def mod_shift(y, m, st):
    """(y + m*st) % st == y % st for st != 0 (Python floor semantics)."""
    return z3.Implies(st != 0, S.f_pymod(y + m * st, st) == S.f_pymod(y, st))


def mod_shift_proof():
    y, m, st = z3.Ints("y!l m!l st!l")
    hyps = _moddefs(y + m * st, st) + _moddefs(y, st)
    q1, q2 = S.f_pydiv(y + m * st, st), S.f_pydiv(y, st)
    # (q1 - q2 - m) * st = r2 - r1 with |r2 - r1| < |st|  =>  both are zero.
    # Two-step script: four product-monotonicity facts (each proved on its own), then the lemma from them.
    t = z3.Int("t!l")
    mono = [z3.Implies(z3.And(t >= 1, st > 0), t * st >= st), z3.Implies(z3.And(t <= -1, st > 0), t * st <= -st),
            z3.Implies(z3.And(t >= 1, st < 0), t * st <= st), z3.Implies(z3.And(t <= -1, st < 0), t * st >= -st)]
    out = [("lemma-base", f"mod_shift:mono{i}", [], f) for i, f in enumerate(mono)]
    inst = [z3.substitute(f, (t, q1 - q2 - m)) for f in mono]
    out.append(("lemma-step", "mod_shift", hyps + inst, mod_shift(y, m, st)))
    return out


def mod_small(y, st):
    r = S.f_pymod(y, st)
    return z3.Implies(st > 0, z3.And(z3.Implies(z3.And(0 <= y, y < st), r == y),
                                     z3.Implies(z3.And(-st <= y, y < 0), r == y + st)))


def mod_small_proof():
    y, st = z3.Ints("y!l st!l")
    return [("lemma-step", "mod_small", _moddefs(y, st), mod_small(y, st))]


def mod_small_neg(y, st):
    """for st < 0: y % st is y when st < y <= 0 and y + st when 0 < y <= -st."""
    r = S.f_pymod(y, st)
    return z3.Implies(st < 0, z3.And(z3.Implies(z3.And(st < y, y <= 0), r == y),
                                     z3.Implies(z3.And(0 < y, y <= -st), r == y + st)))


def mod_small_neg_proof():
    y, st = z3.Ints("y!l st!l")
    return [("lemma-step", "mod_small_neg", _moddefs(y, st), mod_small_neg(y, st))]


def uniform_prefix(s):
    """all entries equal to the first => prefix(s, i) == i * s[0]"""
    j, i = z3.Ints("j!up i!up")
    w = S.f_at(s, 0)
    uni = z3.ForAll([j], z3.Implies(z3.And(0 <= j, j < S.f_len(s)), S.f_at(s, j) == w), patterns=[S.f_at(s, j)])
    return z3.Implies(uni, z3.ForAll([i], z3.Implies(z3.And(0 <= i, i <= S.f_len(s)), S.f_prefix(s, i) == i * w),
                                     patterns=[S.f_prefix(s, i)]))


def uniform_prefix_proof():
    s = z3.Const("s!l", S.SeqSort)
    k, j = z3.Ints("k!l j!up2")
    w = S.f_at(s, 0)
    uni = z3.ForAll([j], z3.Implies(z3.And(0 <= j, j < S.f_len(s)), S.f_at(s, j) == w), patterns=[S.f_at(s, j)])
    return [
        ("lemma-base", "uniform_prefix", [uni], S.f_prefix(s, 0) == 0 * w),
        ("lemma-step", "uniform_prefix", [uni, 0 <= k, k < S.f_len(s), S.f_prefix(s, k) == k * w], S.f_prefix(s, k + 1) == (k + 1) * w),
    ]


def mod_multiple(m, w):
    """(m*w) % w == 0 and (m*w) // w == m for w > 0"""
    return z3.Implies(w > 0, z3.And(S.f_pymod(m * w, w) == 0, S.f_pydiv(m * w, w) == m))


def mod_multiple_proof():
    m, w, t = z3.Ints("m!l w!l t!l")
    hyps = _moddefs(m * w, w)
    q = S.f_pydiv(m * w, w)
    mono = [z3.Implies(z3.And(t >= 1, w > 0), t * w >= w), z3.Implies(z3.And(t <= -1, w > 0), t * w <= -w)]
    out = [("lemma-base", f"mod_multiple:mono{i}", [], f) for i, f in enumerate(mono)]
    inst = [z3.substitute(f, (t, m - q)) for f in mono]
    out.append(("lemma-step", "mod_multiple", hyps + inst, mod_multiple(m, w)))
    return out


def mod_neg_zero(y, st):
    """for st > 0: (-y) % st == 0 iff y % st == 0"""
    return z3.Implies(st > 0, (S.f_pymod(-y, st) == 0) == (S.f_pymod(y, st) == 0))


def mod_neg_zero_proof():
    y, st, t = z3.Ints("y!l st!l t!l")
    hyps = _moddefs(y, st) + _moddefs(-y, st)
    q1, q2 = S.f_pydiv(y, st), S.f_pydiv(-y, st)
    mono = [z3.Implies(z3.And(t >= 1, st > 0), t * st >= st), z3.Implies(z3.And(t <= -2, st > 0), t * st <= -2 * st),
            z3.Implies(z3.And(t == -1), t * st == -st), z3.Implies(t == 0, t * st == 0)]
    out = [("lemma-base", f"mod_neg_zero:mono{i}", [], f) for i, f in enumerate(mono)]
    inst = [z3.substitute(f, (t, q1 + q2)) for f in mono]
    out.append(("lemma-step", "mod_neg_zero", hyps + inst, mod_neg_zero(y, st)))
    return out


def ceil_identity(x, d):
    """for d > 0 and x >= 1: (x-1)//d + 1 == -((-x)//d)   (count of a range == ceiling of length/step)"""
    return z3.Implies(z3.And(d > 0, x >= 1), S.f_pydiv(x - 1, d) + 1 == -S.f_pydiv(-x, d))


def ceil_identity_proof():
    x, d, t = z3.Ints("x!l d!l t!l")
    hyps = _moddefs(x - 1, d) + _moddefs(-x, d)
    q1, q2 = S.f_pydiv(x - 1, d), S.f_pydiv(-x, d)
    mono = [z3.Implies(z3.And(t >= 1, d > 0), t * d >= d), z3.Implies(z3.And(t <= -1, d > 0), t * d <= -d), z3.Implies(t == 0, t * d == 0)]
    out = [("lemma-base", f"ceil_identity:mono{i}", [], f) for i, f in enumerate(mono)]
    inst = [z3.substitute(f, (t, q1 + q2 + 1)) for f in mono]
    out.append(("lemma-step", "ceil_identity", hyps + inst, ceil_identity(x, d)))
    return out


def div_neg(x, c):
    """x // c == (-x) // (-c) for c != 0 (Python floor division)"""
    return z3.Implies(c != 0, S.f_pydiv(x, c) == S.f_pydiv(-x, -c))


def div_neg_proof():
    x, c, t = z3.Ints("x!l c!l t!l")
    hyps = _moddefs(x, c) + _moddefs(-x, -c)
    q1, q2 = S.f_pydiv(x, c), S.f_pydiv(-x, -c)
    mono = [z3.Implies(z3.And(t >= 1, c > 0), t * c >= c), z3.Implies(z3.And(t <= -1, c > 0), t * c <= -c),
            z3.Implies(z3.And(t >= 1, c < 0), t * c <= c), z3.Implies(z3.And(t <= -1, c < 0), t * c >= -c)]
    out = [("lemma-base", f"div_neg:mono{i}", [], f) for i, f in enumerate(mono)]
    inst = [z3.substitute(f, (t, q1 - q2)) for f in mono]
    out.append(("lemma-step", "div_neg", hyps + inst, div_neg(x, c)))
    return out


def _pointwise_le(a, b):
    j = z3.Int("j!sm")
    return z3.And(S.f_len(a) == S.f_len(b),
                  z3.ForAll([j], z3.Implies(z3.And(0 <= j, j < S.f_len(a)), S.f_at(a, j) <= S.f_at(b, j)),
                            patterns=[S.f_at(a, j), S.f_at(b, j)]))


def sum_mono(a, b):
    """equal lengths and a[j] <= b[j] everywhere => every prefix sum of a is <= that of b (in particular the sums)"""
    i = z3.Int("i!sm")
    return z3.Implies(_pointwise_le(a, b),
                      z3.ForAll([i], z3.Implies(z3.And(0 <= i, i <= S.f_len(a)), S.f_prefix(a, i) <= S.f_prefix(b, i)),
                                patterns=[S.f_prefix(a, i), S.f_prefix(b, i)]))


def sum_mono_proof():
    a = z3.Const("a!l", S.SeqSort)
    b = z3.Const("b!l", S.SeqSort)
    k = z3.Int("k!l")
    pw = _pointwise_le(a, b)
    return [
        ("lemma-base", "sum_mono", [pw], S.f_prefix(a, 0) <= S.f_prefix(b, 0)),
        ("lemma-step", "sum_mono", [pw, 0 <= k, k < S.f_len(a), S.f_prefix(a, k) <= S.f_prefix(b, k)],
         S.f_prefix(a, k + 1) <= S.f_prefix(b, k + 1)),
    ]


def positive(s):
    j = z3.Int("j!ps")
    return z3.ForAll([j], z3.Implies(z3.And(0 <= j, j < S.f_len(s)), S.f_at(s, j) >= 1), patterns=[S.f_at(s, j)])


def strict_prefix(s):
    """positive entries => prefix sums are strictly increasing"""
    i, k = z3.Ints("i!sp k!sp")
    return z3.Implies(
        positive(s),
        z3.ForAll([i, k], z3.Implies(z3.And(0 <= i, i < k, k <= S.f_len(s)), S.f_prefix(s, i) < S.f_prefix(s, k)),
                  patterns=[z3.MultiPattern(S.f_prefix(s, i), S.f_prefix(s, k))]))


def strict_prefix_proof():
    s = z3.Const("s!l", S.SeqSort)
    i, k = z3.Ints("i!l k!l")
    hyp = [positive(s), 0 <= i, i <= k, k < S.f_len(s)]
    # induction on k from i+1: base P(i, i+1); step P(i,k) => P(i,k+1)
    return [
        ("lemma-base", "strict_prefix", [positive(s), 0 <= i, i < S.f_len(s)], S.f_prefix(s, i) < S.f_prefix(s, i + 1)),
        ("lemma-step", "strict_prefix", hyp + [i < k, S.f_prefix(s, i) < S.f_prefix(s, k)], S.f_prefix(s, i) < S.f_prefix(s, k + 1)),
    ]


def nested_ceil(n, a, b):
    """ceil(ceil(n / a) / b) == ceil(n / (a*b)) for a, b >= 1 (ceil(x / y) written -((-x) // y))"""
    q1 = S.f_pydiv(-n, a)  # ceil(n / a) == -q1
    return z3.Implies(z3.And(a >= 1, b >= 1), -S.f_pydiv(q1, b) == -S.f_pydiv(-n, a * b))


def nested_ceil_proof():
    n, a, b = z3.Ints("n!l a!l b!l")
    q1 = S.f_pydiv(-n, a)
    hyps = _moddefs(-n, a) + _moddefs(q1, b) + _moddefs(-n, a * b)
    return [("lemma-step", "nested_ceil", hyps, nested_ceil(n, a, b))]


def ceil_within_one(n, d):
    """1 <= n <= d  =>  ceil(n / d) == 1"""
    return z3.Implies(z3.And(1 <= n, n <= d), -S.f_pydiv(-n, d) == 1)


def ceil_within_one_proof():
    n, d = z3.Ints("n!l d!l")
    return [("lemma-step", "ceil_within_one", _moddefs(-n, d), ceil_within_one(n, d))]


def power_fn():
    """ghost function group_size_power(k, j) = k ** j"""
    return z3.Function("group_size_power", z3.IntSort(), z3.IntSort(), z3.IntSort())


def power_def(k):
    """definition of k ** j for k >= 1 by its recurrence (a definitional extension: the recurrence has a model, namely
    exponentiation; positivity is part of it only under k >= 1, where it follows by induction)"""
    pw = power_fn()
    j = z3.Int("j!pw")
    return z3.Implies(k >= 1, z3.And(pw(k, 0) == 1, z3.ForAll([j], z3.Implies(j >= 0, z3.And(pw(k, j + 1) == pw(k, j) * k, pw(k, j) >= 1)),
                                                                 patterns=[pw(k, j)])))


def power_mono(k):
    """for k >= 1 the powers of k are non-decreasing in the exponent"""
    pw = power_fn()
    i, j = z3.Ints("i!pm j!pm")
    return z3.Implies(k >= 1, z3.ForAll([i, j], z3.Implies(z3.And(0 <= i, i <= j), pw(k, i) <= pw(k, j)),
                                        patterns=[z3.MultiPattern(pw(k, i), pw(k, j))]))


def power_mono_proof():
    pw = power_fn()
    k, i, j = z3.Ints("k!l i!l j!l")
    # induction on j from i, with the two instances of the recurrence that the step needs spelled out
    inst = [pw(k, j + 1) == pw(k, j) * k, pw(k, j) >= 1]
    return [
        ("lemma-base", "power_mono", [k >= 1, 0 <= i], pw(k, i) <= pw(k, i)),
        ("lemma-step", "power_mono", [k >= 1, 0 <= i, i <= j, pw(k, i) <= pw(k, j)] + inst, pw(k, i) <= pw(k, j + 1)),
    ]


def power_above(k, m, n):
    """k >= 1, m >= 0 and k ** m >= n  =>  k ** d >= n for every d >= m"""
    pw = power_fn()
    d = z3.Int("d!pa")
    return z3.Implies(z3.And(k >= 1, m >= 0, pw(k, m) >= n),
                      z3.ForAll([d], z3.Implies(d >= m, pw(k, d) >= n), patterns=[pw(k, d)]))


def power_above_proof():
    pw = power_fn()
    k, m, n, d = z3.Ints("k!l m!l n!l d!l")
    # from monotonicity (proved above by induction), instantiated by the solver at (m, d)
    return [("lemma-step", "power_above", [power_mono(k), k >= 1, m >= 0, pw(k, m) >= n, d >= m], pw(k, d) >= n)] + power_mono_proof()


def _seq_eq(a, b):
    j = z3.Int("j!eq")
    return z3.And(S.f_len(a) == S.f_len(b),
                  z3.ForAll([j], z3.Implies(z3.And(0 <= j, j < S.f_len(a)), S.f_at(a, j) == S.f_at(b, j)),
                            patterns=[S.f_at(a, j), S.f_at(b, j)]))


def eq_sums(a, b):
    """equal sequences have equal prefix sums (in particular equal sums)"""
    i = z3.Int("i!es")
    return z3.Implies(_seq_eq(a, b),
                      z3.ForAll([i], z3.Implies(z3.And(0 <= i, i <= S.f_len(a)), S.f_prefix(a, i) == S.f_prefix(b, i)),
                                patterns=[S.f_prefix(a, i), S.f_prefix(b, i)]))


def eq_sums_proof():
    a = z3.Const("a!l", S.SeqSort)
    b = z3.Const("b!l", S.SeqSort)
    k = z3.Int("k!l")
    eq = _seq_eq(a, b)
    return [
        ("lemma-base", "eq_sums", [eq], S.f_prefix(a, 0) == S.f_prefix(b, 0)),
        ("lemma-step", "eq_sums", [eq, 0 <= k, k < S.f_len(a), S.f_prefix(a, k) == S.f_prefix(b, k)],
         S.f_prefix(a, k + 1) == S.f_prefix(b, k + 1)),
    ]


def mul_mono(a, g, t):
    """a >= 0 and g <= t  =>  a * g <= a * t, and the products are non-negative when g is (also read as reals)"""
    ra, rg, rt = z3.ToReal(a), z3.ToReal(g), z3.ToReal(t)
    return z3.Implies(z3.And(a >= 0, g <= t), z3.And(a * g <= a * t, ra * rg <= ra * rt, ra * rt == z3.ToReal(a * t),
                                                      z3.Implies(g >= 0, z3.And(a * g >= 0, ra * rg >= 0, ra * rt >= 0))))


def mul_mono_proof():
    a, g, t = z3.Ints("a!l g!l t!l")
    return [("lemma-step", "mul_mono", [], mul_mono(a, g, t))]


LEMMAS = {
    "eq_sums": (eq_sums, eq_sums_proof),
    "mul_mono": (mul_mono, mul_mono_proof),
    "power_above": (power_above, power_above_proof),
    "power_mono": (power_mono, power_mono_proof),
    "nested_ceil": (nested_ceil, nested_ceil_proof),
    "ceil_within_one": (ceil_within_one, ceil_within_one_proof),
    "strict_prefix": (strict_prefix, strict_prefix_proof),
    "sum_mono": (sum_mono, sum_mono_proof),
    "ceil_identity": (ceil_identity, ceil_identity_proof),
    "div_neg": (div_neg, div_neg_proof),
    "mod_neg_zero": (mod_neg_zero, mod_neg_zero_proof),
    "mod_multiple": (mod_multiple, mod_multiple_proof),
    "uniform_prefix": (uniform_prefix, uniform_prefix_proof),
    "mod_shift": (mod_shift, mod_shift_proof),
    "mod_small": (mod_small, mod_small_proof),
    "mod_small_neg": (mod_small_neg, mod_small_neg_proof),
    "mono_prefix": (mono_prefix, mono_prefix_proof),
    "prefix_nonneg": (prefix_nonneg, prefix_nonneg_proof),
    "cum_sorted": (cum_sorted, cum_sorted_proof),
}
