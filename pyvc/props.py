"""Per-property orchestration: L1 proof obligations, L2 bounded stand-ins,
L3 frame analyses, known findings, evidence."""
from __future__ import annotations

import json
import os
import subprocess
import sys
import time
import traceback
from concurrent.futures import ThreadPoolExecutor

from . import driver as D

VERIF = D.VERIF


def jdump(x):
    return json.dumps(x, sort_keys=True, default=str)


class Report:
    def __init__(self, prop, tier, seed):
        self.prop, self.tier, self.seed = prop, tier, seed
        self.t0 = time.time()
        self.lines = []
        self.violations = []  # (what, replay path)
        self.known_printed = []
        self.undecided = []
        self.errors = []
        self.cov = {}
        self.assumptions = list(D.ASSUMPTIONS)

    def say(self, s):
        print(s, flush=True)


RETRY_TIMEOUTS = (120, 30, 120)  # second-attempt budgets (z3 5.1, cvc5, z3 4.8), seconds; preferred solver of the group first
RETRY_MAX = 16                   # at most this many obligations get a second attempt (4 at a time): bounds the cost


def run_property(prop, tier, seed, opts):
    from . import verify as V
    from . import concrete as C
    from . import propcfg

    if prop not in propcfg.PROPS:
        print(f"no check is built for {prop}")
        return 3
    cfg = propcfg.PROPS[prop]
    rep = Report(prop, tier, seed)
    known, fixed = D.load_known(prop)
    baseline = D.load_baseline()
    outdir = os.path.join(os.environ.get("VERIF_OUT") or os.path.join(VERIF, "out"), "obl", prop)
    if os.path.isdir(outdir):
        import shutil
        shutil.rmtree(outdir)
    os.makedirs(outdir, exist_ok=True)

    reg = V.load_contracts()
    mine = [c for c in reg.values() if prop in c.props]
    if opts.only:
        mine = [c for c in mine if opts.only in c.key]
    l1 = [c for c in mine if not c.trusted and not c.bounded_only]
    exit_code = 0

    # ---- 0. prelude validation against the running CPython -----------------
    from . import validate
    try:
        pv = validate.validate_prelude(quick=(tier == "quick"))
    except Exception as e:
        print(f"CHECKER-FAILURE prelude validation crashed: {e}\n{traceback.format_exc()}")
        return 3
    if pv["failures"]:
        print("CHECKER-FAILURE prelude axiom disagrees with CPython:", pv["failures"][:3])
        return 3

    # ---- 1. L1: generate + discharge ---------------------------------------
    from . import discharge as _DD
    _DD.PREFERRED.clear()
    _DD.PREFERRED.update(baseline.get("solver", {}))
    # budgets per solver (z3 5.1, cvc5, z3 4.8), seconds.  The slowest obligation of the pinned tree takes 10 s alone and
    # 18 s with 16 solvers running; the first budget leaves a factor of three over that, and an obligation still
    # `unknown`, with no failing input found by the bounded runner either, gets a second attempt at low concurrency and
    # with RETRY_TIMEOUTS before it is reported (see step 3b): a time-out caused by machine load is not a lost proof.
    timeouts = (60, 20, 60) if tier == "quick" else (90, 60, 120)
    if os.environ.get("VERIF_SOLVER_BUDGET"):  # debugging aid: "z3new,cvc5,z3old" seconds for the first attempt
        timeouts = tuple(int(x) for x in os.environ["VERIF_SOLVER_BUDGET"].split(","))
    results, tm = V.verify_units(l1, D.REPO, outdir, timeouts=timeouts, group=getattr(opts, "group", None))
    n_obl = n_dis = 0
    by_solver = {}
    solver_time = 0.0
    functions = []
    failing = []
    samples = []
    group_status = {}
    assumed_all = set()
    for r in results:
        c = r["contract"]
        if r.get("skipped"):
            continue
        if r["error"]:
            rep.errors.append(r["error"])
            continue
        ex = r["ex"]
        canary = r.get("canary")
        if canary is not None and canary.status == "unsat":
            rep.errors.append(f"VACUOUS {c.key}: requires is unsatisfiable")
            continue
        if not r["obls"]:
            rep.errors.append(f"ZERO-OBLIGATIONS {c.key}")
            continue
        functions.append({
            "contract": c.key, "function": c.target, "paths": ex.paths, "obligations": len(r["obls"]),
            "calls_under_contract": sorted(ex.called),
            "dropped_lines": [{"lines": [a, b], "why": why} for a, b, why in ex.dropped],
            "canary": canary.status if canary is not None else None,
            "fragment_lines": getattr(ex, "fragment_lines", None),
            "assumed_dependency_contracts": sorted(getattr(ex, "assumed", [])),
            "havocked_expressions": sorted(getattr(ex, "havocked", [])),
            "lemmas_used": sorted(getattr(ex, "lemmas_used", [])),
            "unsupported_but_proved_unreachable": [f"line {ln}: {why[:100]}" for ln, why in getattr(ex, "unsupported", [])],
        })
        for a_ in getattr(ex, "assumed", []):
            assumed_all.add(f"assumed contract on a dependency ({c.name}): {a_}")
        for h_ in getattr(ex, "havocked", []):
            assumed_all.add(f"expression abstracted to an arbitrary value ({c.name}): {h_}")
        for o in r["obls"]:
            n_obl += 1
            solver_time += o.time
            if opts.verbose and (o.time > 2 or o.status != "unsat"):
                tried = o.note[1] if isinstance(o.note, tuple) and len(o.note) > 1 else ""
                rep.say(f"  [{o.status}] {o.group} line {o.line} {o.solver} {o.time:.1f}s {tried} {os.path.basename(o.smt2 or '')}")
            gs = group_status.setdefault(o.group, [])
            gs.append(o.status)
            if o.status == "unsat":
                n_dis += 1
                by_solver[o.solver] = by_solver.get(o.solver, 0) + 1
                if len(samples) < 12 and (n_obl % 7 == 1):
                    samples.append({"obligation": o.group, "line": o.line, "status": "unsat", "solver": o.solver,
                                    "time_s": round(o.time, 3), "smt2": os.path.relpath(o.smt2, VERIF)})
            elif o.kind == "unreachable":
                rep.errors.append(f"UNSUPPORTED construct reachable in {c.key} at line {o.line}: {o.note[0] if isinstance(o.note, tuple) else o.note}")
            else:
                failing.append((r, o))

    # ---- 2. triage of undischarged obligations -------------------------------
    replay_items = []
    for r, o in failing:
        args = None
        if o.status == "sat" and o.model is not None:
            try:
                args, ghosts = V.concretize(r["ex"], o.model)
            except V.NotConcretizable:
                args = None
        replay_items.append((r, o, args))
    replayed = {}
    todo = [(i, r["contract"].key, C.enc(args)) for i, (r, o, args) in enumerate(replay_items) if args is not None]
    if todo:
        p = D.run_concrete(["replay-many"], stdin=json.dumps([[k, a] for _, k, a in todo]))
        if p.returncode != 0:
            rep.errors.append("replay harness failed: " + p.stderr[-1500:])
        else:
            outs = json.loads(p.stdout.strip().splitlines()[-1])
            for (i, _, _), out in zip(todo, outs):
                replayed[i] = out
    need_bounded = {}
    for i, (r, o, args) in enumerate(replay_items):
        c = r["contract"]
        out = replayed.get(i)
        if out is not None and out.get("status") == "violation":
            handle_violation(rep, known, c, out.get("clause") or f"{o.kind}:{o.clause}", C.enc(args), out,
                             obligation=o.group, solver=o.solver, source="counter-model replayed on the real function")
            continue
        need_bounded.setdefault(c.key, []).append((r, o, args, out))

    # ---- 3. L2 bounded stand-ins ------------------------------------------------
    bounded_targets = [c for c in mine if c.domain is not None and not getattr(opts, "no_bounded", False)]
    for key in need_bounded:
        c = reg[key]
        if c.domain is not None and c not in bounded_targets:
            bounded_targets.append(c)
    bounded_results = run_bounded_many(bounded_targets, tier, seed)
    bounded_cov = []
    for c, br in bounded_results:
        if br.get("error"):
            rep.errors.append(f"bounded runner {c.key}: {br['error']}")
            continue
        bounded_cov.append({k: br[k] for k in ("key", "evaluations", "pre_true", "distinct", "wall_s", "scope") if k in br}
                           | {"samples": br.get("samples", [])[:3], "violations": len(br.get("violations", []))})
        seen = set()
        for v in br.get("violations", []):
            tag = (c.key, v.get("clause"))
            if tag in seen:
                continue
            seen.add(tag)
            # a contract shared by several properties may say which of them a clause states (clause_props); a clause
            # that belongs to another property is reported by that property's check, not by this one
            cp = getattr(c.cls, "clause_props", None) or {}
            owners = cp.get((v.get("clause") or "").split(":", 1)[-1])
            if owners and rep.prop not in owners:
                continue
            handle_violation(rep, known, c, v.get("clause"), v.get("args"), v, obligation=f"{c.key}::{v.get('clause')}",
                             solver=None, source="bounded enumeration of the executable contract on the real function")
    # ---- 3b. second attempt for obligations that were proved on the pinned tree and are now `unknown` -------------
    # Only `unknown` answers are retried (sat / unsat are final), only where neither a replayed counter-model nor the
    # bounded runner produced a failing input for the contract, four solver processes at a time.
    from concurrent.futures import ThreadPoolExecutor
    retry = []
    # a function that already has a failing input (under any of its contracts) is broken for certain: its `unknown`
    # obligations are reported as they stand, without spending the second attempt on them
    broken = {reg[w[0]].target for w in rep.violations if w[0] in reg}
    for key, items in need_bounded.items():
        if reg[key].target in broken:
            continue
        for r, o, args, out in items:
            if o.status == "unknown" and o.smt2 and o.group in baseline.get("proved", []):
                retry.append(o)
    if retry:
        t_retry = time.time()

        def again(o):
            note0, time0 = o.note, o.time
            o.note = note0[0] if isinstance(note0, tuple) else note0
            _DD.discharge_one(o, open(o.smt2).read(), outdir, RETRY_TIMEOUTS)
            tried0 = list(note0[1]) if isinstance(note0, tuple) and len(note0) > 1 else []
            if isinstance(o.note, tuple) and len(o.note) > 1:
                o.note = (o.note[0], tried0 + [("second-attempt", "", 0.0)] + list(o.note[1])) + tuple(o.note[2:])
            o.time += time0
            return o
        with ThreadPoolExecutor(max_workers=4) as pool:
            list(pool.map(again, retry[:RETRY_MAX]))
        tm["solve_s"] += time.time() - t_retry
        for o in retry:
            if o.status == "unsat":
                n_dis += 1
                by_solver[o.solver] = by_solver.get(o.solver, 0) + 1
                sts = group_status[o.group]
                sts[sts.index("unknown")] = "unsat"
                rep.say(f"NOTE obligation {o.group} (line {o.line}) discharged on the second attempt by {o.solver} "
                        f"in {o.time:.0f}s total (first attempt timed out)")
        for key in list(need_bounded):
            need_bounded[key] = [it for it in need_bounded[key] if it[1].status != "unsat"]

    for key, items in need_bounded.items():
        c = reg[key]
        already = any(w[0] == key for w in rep.violations) or any(w[0] == key for w in rep.known_printed)
        for r, o, args, out in items:
            if already:
                continue
            note = o.note if isinstance(o.note, tuple) else (o.note,)
            payload = {"property": rep.prop, "contract": key, "obligation": o.group, "line": o.line, "args": None,
                       "status": o.status, "solver_output": note, "smt2": os.path.relpath(o.smt2, VERIF) if o.smt2 else None,
                       "spurious_model": C.enc(args) if args is not None else None}
            if o.group in baseline.get("proved", []):
                kf = match_known(known, key, f"{o.kind}:{o.clause}")
                if kf is not None and kf.get("witness") is None:
                    rep.known_printed.append((key, kf))
                    rep.say(f"KNOWN-FINDING: property={rep.prop} {kf['what']}")
                    continue
                path = D.write_replay(rep.prop, o.group, payload)
                rep.violations.append((key, path))
                rep.say(f"VIOLATION property={rep.prop} replay={path} no-failing-input-found")
                rep.say(f"  obligation {o.group} (line {o.line}) was discharged on the pinned tree and is now {o.status}")
            else:
                rep.undecided.append(o.group)
                rep.say(f"UNDECIDED obligation {o.group} (line {o.line}): {o.status}; not in the baseline of proved obligations")
            already = True

    # ---- 4. L3 frame analyses ------------------------------------------------------
    frame_cov = None
    if cfg.get("frame"):
        from frame import analyses
        frame_cov = analyses.run(rep, cfg["frame"], D.REPO, known, tier)

    # ---- 4b. thorough tier: mutation self-test of contract strength + second-solver re-discharge --------
    selftest = None
    recheck = None
    if tier == "thorough" and not opts.only and l1 and not rep.violations:
        from . import selftest as ST
        try:
            selftest = ST.run(l1, tier, seed, per_function=int(os.environ.get("VERIF_MUTANTS", "8")))
        except Exception as e:
            rep.errors.append(f"self-test crashed: {e}\n{traceback.format_exc()}")
        # every discharged obligation is re-checked by a second solver; a disagreement (sat) is a checker failure
        from . import discharge as DD
        todo = []
        for r in results:
            for o in r.get("obls", []):
                if o.status == "unsat" and o.smt2 and o.solver:
                    todo.append(o)
        agree = disagree = undecided2 = 0

        def second(o):
            idx = 1 if o.solver.startswith("z3-5") else 0
            return o, DD.run_solver(idx, o.smt2, 20)
        with ThreadPoolExecutor(max_workers=16) as ex:
            for o, (name, res, out_, dt) in ex.map(second, todo):
                if res == "unsat":
                    agree += 1
                elif res == "sat":
                    disagree += 1
                    rep.errors.append(f"solver disagreement on {o.group}: {o.solver} unsat, {name} sat")
                else:
                    undecided2 += 1
        recheck = {"rechecked": len(todo), "second_solver_unsat": agree, "second_solver_undecided": undecided2,
                   "disagreements": disagree}

    # ---- 5. known findings that did not show up (still print if witness fails) --------
    # (a KNOWN-FINDING line is printed only when the listed witness still fails)

    # ---- 6. evidence ------------------------------------------------------------------
    if rep.errors:
        for e in rep.errors:
            rep.say("CHECKER-FAILURE " + e.splitlines()[0])
            if opts.verbose:
                rep.say(e)
    level = cfg["level"]
    trusted = sorted({f"assumed contract (not verified here): {c.key} -- {c.note}" for c in mine if c.trusted})
    trusted += sorted({f"bounded only (not proved): {c.key}" for c in mine if c.bounded_only})
    trusted += ["prelude axioms: IntSeq (len/at/prefix/append/rev/cumsum/concat/subseq/update/rep), slice.indices, len(range), "
                "floor div/mod witnesses, bisect -- validated against CPython this run on %d cases" % pv["cases"]]
    trusted += cfg.get("trusted", [])
    trusted += sorted(assumed_all)
    cov = {
        "obligations": n_obl,
        "discharged": n_dis,
        "checker_cmd": f"./check {prop} --tier {tier}",
        "trusted_base": trusted,
        "samples": samples or [{"note": "no L1 obligations for this property"}],
        "by_solver": by_solver,
        "solver_time_s": round(solver_time, 2),
        "vc_generation_s": round(tm["gen_s"], 2),
        "functions_under_contract": functions,
        "obligation_groups": len(group_status),
        "bounded": bounded_cov,
        "bounded_note": "L2 bounded stand-ins: evaluated on the real functions, never counted in obligations/discharged",
        "prelude_validation_cases": pv["cases"],
        "known_findings_reported": [k[1].get("what") for k in rep.known_printed],
        "explanation": cfg.get("explanation", ""),
    }
    if frame_cov is not None:
        cov["frame"] = frame_cov
    if selftest is not None:
        cov["mutation_selftest"] = selftest
        cov["mutation_selftest_note"] = ("AST mutants of the functions under L1 contracts on a scratch copy: killed_by_proof = some "
                                         "obligation no longer discharges; survivors are weak-contract / equivalent-mutant reports")
    if recheck is not None:
        cov["second_solver_recheck"] = recheck
    if level != "proof":
        cov["evaluations"] = sum(b.get("pre_true", 0) for b in bounded_cov) + (frame_cov or {}).get("sites", 0)
        cov["distinct_nontrivial"] = sum(b.get("distinct", 0) for b in bounded_cov) + (frame_cov or {}).get("sites", 0)
        cov["rule"] = "bounded: distinct argument tuples satisfying the contract's requires; frame: distinct write/effect sites analysed"
    ev = {
        "property_id": prop, "tier": tier if tier in ("quick", "thorough") else "quick", "seed": seed, "level": level,
        "coverage": cov, "assumptions": rep.assumptions + cfg.get("assumptions", []),
        "wall_s": round(time.time() - rep.t0, 2), "violations": len(rep.violations),
    }
    evdir = os.environ.get("VERIF_EVIDENCE_DIR", os.path.join(VERIF, "evidence"))
    os.makedirs(evdir, exist_ok=True)
    with open(os.path.join(evdir, f"{prop}.json"), "w") as f:
        json.dump(ev, f, indent=1, default=str)

    if opts.update_baseline:
        base = D.load_baseline()
        proved = set(base.get("proved", []))
        for g, sts in group_status.items():
            if all(s == "unsat" for s in sts):
                proved.add(g)
        base["proved"] = sorted(proved)
        solv = dict(base.get("solver", {}))
        for r in results:
            for o in r.get("obls", []):
                if o.status == "unsat" and o.solver and o.solver != "z3-5.1":
                    solv[o.group] = o.solver
                elif o.status == "unsat" and o.group in solv and o.solver == "z3-5.1" and o.time < 5:
                    solv.pop(o.group, None)
        base["solver"] = solv
        os.makedirs(os.path.join(VERIF, "baseline"), exist_ok=True)
        json.dump(base, open(os.path.join(VERIF, "baseline", "obligations.json"), "w"), indent=0)

    rep.say(f"{prop} [{tier}] obligations={n_obl} discharged={n_dis} groups={len(group_status)} "
            f"bounded_evals={sum(b.get('pre_true', 0) for b in bounded_cov)} violations={len(rep.violations)} "
            f"known={len(rep.known_printed)} undecided={len(rep.undecided)} errors={len(rep.errors)} "
            f"gen={tm['gen_s']:.1f}s solve={tm['solve_s']:.1f}s wall={time.time() - rep.t0:.1f}s")
    if rep.violations:
        return 1
    if rep.errors:
        return 3
    if rep.undecided:
        return 2
    if level == "proof" and n_obl == 0:
        rep.say("CHECKER-FAILURE zero obligations for a proof-level property")
        return 3
    return 0


def match_known(known, key, clause):
    for k in known:
        if k.get("contract") == key and (k.get("clause") in (None, clause) or clause in (k.get("clauses") or [])):
            return k
    return None


_known_state = {}


def handle_violation(rep, known, c, clause, args, out, obligation, solver, source):
    """a violation observed on the real code: known finding (listed witness still fails) or VIOLATION."""
    kf = match_known(known, c.key, clause)
    if kf is not None:
        st = _known_state.get(id(kf))
        if st is None:
            st = witness_still_fails(kf)
            _known_state[id(kf)] = st
        if st:
            if not any(k[1] is kf for k in rep.known_printed):
                rep.known_printed.append((c.key, kf))
                rep.say(f"KNOWN-FINDING: property={rep.prop} {kf['what']}")
            return
    if any(w[0] == c.key and w[2] == clause for w in [(v[0], v[1], v[2] if len(v) > 2 else None) for v in rep.violations]):
        return
    payload = {"property": rep.prop, "contract": c.key, "function": c.target, "obligation": obligation, "clause": clause,
               "args": args, "observed": out.get("observed"), "expected": out.get("expected"), "ghosts": out.get("ghosts"),
               "found_by": source, "solver": solver,
               "reproduce": f"./check --replay <this file>   (runs {c.target} on args under /venv/bin/python, cwd=/repo)"}
    path = D.write_replay(rep.prop, f"{c.name}-{clause}", payload)
    rep.violations.append((c.key, path, clause))
    rep.say(f"VIOLATION property={rep.prop} replay={path}")
    rep.say(f"  {c.target}: clause {clause} fails on args={args} observed={str(out.get('observed'))[:200]}")


def witness_still_fails(kf):
    if kf.get("witness") is None:
        return True
    p = D.run_concrete(["replay", kf["contract"], json.dumps(kf["witness"])])
    try:
        r = json.loads(p.stdout.strip().splitlines()[-1])
    except Exception:
        return False
    return r.get("status") == "violation"


def run_bounded_many(contracts, tier, seed):
    if not contracts:
        return []

    def one(c):
        try:
            p = D.run_concrete(["bounded", c.key, tier, str(seed)], timeout=7200)
            if p.returncode != 0:
                return c, {"error": p.stderr[-1500:]}
            return c, json.loads(p.stdout.strip().splitlines()[-1])
        except Exception as e:
            return c, {"error": f"{type(e).__name__}: {e}"}

    with ThreadPoolExecutor(max_workers=14) as ex:
        return list(ex.map(one, contracts))
