"""Discharge obligations with a solver portfolio (z3 5.1 -> cvc5 -> z3 4.8)."""
from __future__ import annotations

import hashlib
import os
import re
import subprocess
import time
from concurrent.futures import ThreadPoolExecutor

import z3

from . import spec as S

SOLVERS = [
    ("z3-5.1", ["z3-new", "-smt2"], lambda t: [f"-T:{t}"]),
    ("cvc5-1.0", ["/usr/bin/cvc5", "--lang=smt2", "--produce-models"], lambda t: [f"--tlimit={t * 1000}"]),
    ("z3-4.8", ["/usr/bin/z3", "-smt2"], lambda t: [f"-T:{t}"]),
]

_AXIOMS = None
PREFERRED = {}  # obligation group -> solver name (from baseline/obligations.json)


def axioms():
    global _AXIOMS
    if _AXIOMS is None:
        _AXIOMS = S.seq_axioms()
    return _AXIOMS


def subterm_ids(terms, seen):
    stack = list(terms)
    while stack:
        e = stack.pop()
        i = e.get_id()
        if i in seen:
            continue
        seen.add(i)
        if z3.is_quantifier(e):
            stack.append(e.body())
        else:
            stack.extend(e.children())
    return seen


def relevant_defs(obl, defs):
    """definitions whose anchor term occurs in the obligation (closed transitively)."""
    anchors = getattr(defs, "anchors", None)
    if anchors is None:
        return list(defs)
    seen = subterm_ids(list(obl.hyps) + [obl.goal], set())
    chosen = [False] * len(defs)
    changed = True
    while changed:
        changed = False
        for i, (d, a) in enumerate(zip(defs, anchors)):
            if chosen[i]:
                continue
            if a is None or any(x.get_id() in seen for x in a):
                chosen[i] = True
                changed = True
                subterm_ids([d], seen)
    return [d for d, c in zip(defs, chosen) if c]


def to_smt2(obl, defs, values_of=()):
    s = z3.Solver()
    body = list(obl.hyps) + relevant_defs(obl, defs)
    neg = z3.Not(obl.goal)
    txt_probe = " ".join(x.sexpr() for x in body[:0])
    s.add(*body)
    s.add(neg)
    txt = s.to_smt2()
    if "IntSeq" in txt:
        s2 = z3.Solver()
        s2.add(*axioms())
        s2.add(*body)
        s2.add(neg)
        txt = s2.to_smt2()
    txt = txt.replace("(check-sat)\n", "")
    head = "(set-logic ALL)\n(set-option :produce-models true)\n"
    tail = "(check-sat)\n"
    values_of = [v for v in values_of if f"(declare-fun {v} " in txt]
    if values_of:
        tail += "(get-value (" + " ".join(values_of) + "))\n"
    return head + txt + tail


def run_solver(idx, path, timeout):
    name, cmd, tl = SOLVERS[idx]
    t0 = time.time()
    try:
        p = subprocess.run(cmd + tl(timeout) + [path], capture_output=True, text=True, timeout=timeout + 10)
        out = p.stdout.strip()
    except subprocess.TimeoutExpired:
        out = "timeout"
    dt = time.time() - t0
    first = out.split("\n", 1)[0].strip() if out else "error"
    if first not in ("sat", "unsat", "unknown", "timeout"):
        first = "unknown" if "unknown" in out or "timeout" in out else ("error:" + out[:200])
    return name, first, out, dt


def parse_values(out):
    """parse `(get-value ...)` output: ((name val) ...) for Int/Bool names."""
    vals = {}
    for m in re.finditer(r"\(\s*(\|[^|]+\||[^\s()]+)\s+(\(-\s*\d+\)|-?\d+|true|false)\s*\)", out):
        k, v = m.group(1), m.group(2)
        k = k.strip("|")
        if v in ("true", "false"):
            vals[k] = v == "true"
        else:
            vals[k] = int(v.replace("(", "").replace(")", "").replace(" ", ""))
    return vals


def discharge_one(obl, smt2, outdir, timeouts):
    h = hashlib.sha1(smt2.encode()).hexdigest()[:16]
    path = os.path.join(outdir, f"{h}.smt2")
    with open(path, "w") as f:
        f.write(smt2)
    obl.smt2 = path
    tried = []
    total = 0.0
    if obl.expect_sat:
        timeouts = (3, 0, 0)
    order = list(range(len(timeouts)))
    pref = PREFERRED.get(obl.group)
    if pref is not None:
        # the solver that discharged this obligation group on the pinned tree goes first
        for i, (nm, _, _) in enumerate(SOLVERS):
            if nm == pref and i in order:
                order.remove(i)
                order.insert(0, i)
    for idx in order:
        tmo = timeouts[idx]
        if tmo <= 0:
            continue
        name, res, out, dt = run_solver(idx, path, tmo)
        total += dt
        tried.append((name, res, round(dt, 3)))
        if res == "unsat":
            obl.status, obl.solver, obl.time = "unsat", name, total
            obl.model = None
            obl.note = (obl.note, tried)
            return obl
        if res == "sat":
            obl.status, obl.solver, obl.time = "sat", name, total
            obl.model = parse_values(out)
            obl.note = (obl.note, tried, out[:4000])
            return obl
    obl.status, obl.solver, obl.time = "unknown", None, total
    obl.note = (obl.note, tried)
    return obl


def discharge_all(obls_with_text, outdir, timeouts=(10, 20, 40), workers=16):
    os.makedirs(outdir, exist_ok=True)
    with ThreadPoolExecutor(max_workers=workers) as ex:
        futs = [ex.submit(discharge_one, o, txt, outdir, timeouts) for o, txt in obls_with_text]
        return [f.result() for f in futs]
