"""./check driver: decide one property on /repo's current working tree.

exit 0  property held on everything explored (KNOWN-FINDING lines allowed)
exit 1  VIOLATION property=<id> replay=<path>
exit 2  undecided (an obligation could not be discharged and is not in the
        baseline of obligations proved on the pinned tree)
exit 3  checker failure (unsupported construct, prelude axiom refuted by
        CPython, zero obligations, contradictory requires)
"""
from __future__ import annotations

import argparse
import json
import os
import shutil
import subprocess
import sys
import tempfile
import time
import traceback

VERIF = os.path.dirname(os.path.dirname(os.path.abspath(__file__)))
REPO = os.environ.get("VERIF_REPO", "/repo")
VENV_PY = "/venv/bin/python"

ASSUMPTIONS = [
    "A1 Python ints are mathematical integers (true of CPython; no overflow obligations needed)",
    "A2 builtins follow their documented semantics (slice.indices, len(range), floor // and %, divmod, bisect on sorted input, "
    "min/max, tuple slicing); each model is re-validated against the running CPython on a small scope at the start of every run",
    "A3 int-valued float accumulators are exact below 2**52 and are modelled as reals",
    "A4 basic indexing of one axis of length n with slice s selects range(*s.indices(n)) in that order (NumPy/list semantics)",
    "the AST->SMT translation in /verif/pyvc (symbolic executor, path merging, loop cutting at invariants, modular calls) is trusted; "
    "it is cross-checked each run by replaying counter-models on the real function and by the bounded runner evaluating the same contracts",
    "SMT solvers (z3 5.1.0, cvc5 1.0.3, z3 4.8.12) are trusted for `unsat` answers",
]


def env_for_repo():
    e = dict(os.environ)
    e["PYTHONPATH"] = VERIF + os.pathsep + REPO
    e["MROCKLIN_DASK_ARRAY_VERIF"] = "1"
    e.setdefault("OMP_NUM_THREADS", "1")
    e.setdefault("OPENBLAS_NUM_THREADS", "1")
    return e


def run_concrete(args, stdin=None, timeout=3600):
    p = subprocess.run([VENV_PY, "-m", "pyvc.concrete"] + args, cwd=REPO, env=env_for_repo(), input=stdin,
                       capture_output=True, text=True, timeout=timeout)
    return p


def load_known(prop):
    path = os.path.join(VERIF, "known_findings.jsonl")
    known, fixed = [], []
    if os.path.exists(path):
        for line in open(path):
            line = line.strip()
            if not line or line.startswith("#"):
                continue
            if line.startswith("fixed:"):
                fixed.append(line)
                continue
            rec = json.loads(line)
            if rec.get("property") == prop:
                known.append(rec)
    return known, fixed


def load_baseline():
    path = os.path.join(VERIF, "baseline", "obligations.json")
    if os.path.exists(path):
        return json.load(open(path))
    return {}


def write_replay(prop, name, payload):
    d = os.path.join(os.environ.get("VERIF_OUT") or os.path.join(VERIF, "out"), "replay")
    os.makedirs(d, exist_ok=True)
    safe = "".join(ch if ch.isalnum() or ch in "-_." else "_" for ch in name)[:120]
    path = os.path.join(d, f"{prop}-{safe}.json")
    with open(path, "w") as f:
        json.dump(payload, f, indent=1, default=str)
    return path


def replay_file(path):
    """./check --replay <file>: re-run the recorded input on the real code."""
    rec = json.load(open(path))
    if rec.get("args") is None:
        print(f"replay: obligation {rec.get('obligation')} has no concrete failing input; solver output follows")
        print(json.dumps(rec.get("solver_output"), indent=1)[:4000])
        return 1
    if rec.get("kind") == "frame":
        print(json.dumps(rec, indent=1)[:4000])
        return 1
    p = run_concrete(["replay", rec["contract"], json.dumps(rec["args"])])
    print(p.stdout.strip())
    if p.returncode != 0:
        print(p.stderr[-2000:])
        return 3
    r = json.loads(p.stdout.strip().splitlines()[-1])
    if r["status"] == "violation":
        print(f"VIOLATION property={rec['property']} replay={path}")
        return 1
    return 0


def main(argv=None):
    ap = argparse.ArgumentParser()
    ap.add_argument("prop", nargs="?")
    ap.add_argument("--tier", default=os.environ.get("VERIF_TIER", "quick"))
    ap.add_argument("--replay")
    ap.add_argument("--update-baseline", action="store_true")
    ap.add_argument("--verbose", "-v", action="store_true")
    ap.add_argument("--group", help="substring filter on obligation groups (debugging)")
    ap.add_argument("--no-bounded", action="store_true", help="skip the L2 bounded runs (debugging)")
    ap.add_argument("--only", help="substring filter on contract keys (debugging)")
    a = ap.parse_args(argv)
    if a.replay:
        return replay_file(a.replay)
    seed = int(os.environ.get("VERIF_SEED", "0"))
    from . import props
    return props.run_property(a.prop, a.tier, seed, a)


if __name__ == "__main__":
    sys.exit(main())
