"""Models of the Python / stdlib / dask builtins the verified functions call.

Each model is a small axiom (assumption A2 of DESIGN.md); `pyvc.validate`
re-checks every one of them against the running CPython on a small scope.
"""
from __future__ import annotations

import ast
import z3

from . import spec as S
from .spec import Opt, BoolV, RealV, SliceV, SeqV, TupV, MapV, StrV, NanV, ObjV, AbsV, SliceSeqV, SortedItemsV, TupSeqV, RowsV
from . import engine as E

I = E.I
NONE = E.NONE

INT_TYPES = {"Integral", "int", "Number", "numbers.Integral", "np.integer"}


def type_names(ex, node):
    if isinstance(node, ast.Tuple):
        out = []
        for e in node.elts:
            out += type_names(ex, e)
        return out
    d = ex.dotted(node)
    if d is None:
        raise E.Unsupported("isinstance with computed type")
    return [d]


def isinstance_(ex, v, names):
    res = z3.BoolVal(False)
    for n in names:
        if n in INT_TYPES:
            if isinstance(v, BoolV):
                return z3.BoolVal(True)
            if isinstance(v, Opt):
                res = z3.Or(res, z3.Not(S._b(v.n)))
        elif n == "bool":
            if isinstance(v, BoolV):
                return z3.BoolVal(True)
        elif n == "slice":
            if isinstance(v, SliceV):
                return z3.BoolVal(True)
        elif n == "tuple":
            if isinstance(v, (TupV, SeqV)) and v.kind == "tuple":
                return z3.BoolVal(True)
        elif n == "list":
            if isinstance(v, (TupV, SeqV)) and v.kind == "list":
                return z3.BoolVal(True)
        elif n in ("float", "np.floating"):
            if isinstance(v, (RealV, NanV)):
                return z3.BoolVal(True)
        elif n == "str":
            if isinstance(v, StrV) and v.s != "...":
                return z3.BoolVal(True)
        elif n in ("np.ndarray", "ndarray", "Array", "dict") and not (
                isinstance(v, ObjV) and n in ex.c.fields.get("__maybe__", {}).get(v.cls, [])):
            if n == "dict" and isinstance(v, MapV):
                return z3.BoolVal(True)
            if isinstance(v, ObjV) and v.cls == n:
                return z3.BoolVal(True)
        else:
            if isinstance(v, ObjV):
                bases = ex.c.fields.get("__bases__", {}).get(v.cls, [v.cls])
                if n in bases or n == v.cls:
                    return z3.BoolVal(True)
                if n in ex.c.fields.get("__maybe__", {}).get(v.cls, []):
                    # the dynamic class of an abstract record may or may not be n: a stable unknown
                    key = f"__isinstance_{n}"
                    if key not in v.fields:
                        v.fields[key] = BoolV(ex.fresh_bool(f"{getattr(v, 'base', v.cls)}.is_{n}"))
                    res = z3.Or(res, v.fields[key].t)
            elif isinstance(v, (Opt, BoolV, SliceV, TupV, SeqV, MapV, StrV, RealV, NanV)):
                continue
            else:
                raise E.Unsupported(f"isinstance(_, {n}) on {v!r}")
    return z3.simplify(res)


def call(ex, node, name, st):
    f = node.func
    # ---- methods on values -------------------------------------------------
    if isinstance(f, ast.Attribute):
        base_is_module = isinstance(f.value, ast.Name) and f.value.id not in st.env and (
            f.value.id in ex.mod.imports or f.value.id in ("math", "np", "bisect", "itertools", "operator", "dict"))
        if not base_is_module:
            base = ex.eval(f.value, st)
            args = [ex.eval(a, st) for a in node.args]
            return method(ex, base, f.attr, args, st, node)
    if name is None:
        raise E.Unsupported(f"call form line {node.lineno}")
    if isinstance(f, ast.Name) and name in st.env:
        fv = st.env[name]
        if isinstance(fv, tuple) and fv[0] == "localfn":
            return inline_local(ex, fv[1], node, st)
        raise E.Unsupported(f"call of local value {name}")

    def A(i):
        return ex.eval(node.args[i], st)

    def AI(i):
        return S.as_int(ex.need_int(A(i), st, node))

    nargs = len(node.args)
    if name in ("builtins.max", "builtins.min", "builtins.sum", "builtins.any", "builtins.all", "builtins.abs"):
        name = name.split(".", 1)[1]
    if name == "isinstance":
        return BoolV(isinstance_(ex, A(0), type_names(ex, node.args[1])))
    if name == "len":
        a0 = node.args[0]
        if isinstance(a0, ast.Call) and ex.dotted(a0.func) == "range":
            rargs = []
            for x in a0.args:
                if isinstance(x, ast.Starred):
                    tv = ex.eval(x.value, st)
                    if not isinstance(tv, TupV):
                        raise E.Unsupported("range(*symbolic)")
                    rargs.extend(tv.items)
                else:
                    rargs.append(ex.eval(x, st))
            r = [S.as_int(ex.need_int(x, st, node)) for x in rargs]
            if len(r) == 1:
                r = [z3.IntVal(0), r[0], z3.IntVal(1)]
            elif len(r) == 2:
                r = r + [z3.IntVal(1)]
            ex.oblige(st, "safe", "range-step", r[2] != 0, node.lineno)
            return I(S.rlen(*r))
        v = A(0)
        if isinstance(v, SeqV):
            return I(S.f_len(v.t))
        if isinstance(v, TupV):
            return I(len(v.items))
        if isinstance(v, (SliceSeqV, TupSeqV, RowsV)):
            return I(v.n)
        if isinstance(v, tuple) and v and v[0] == "range":
            return I(S.rlen(v[1], v[2], v[3]))
        if isinstance(v, tuple) and v and v[0] == "set":
            # number of distinct values: partial axiomatisation (0 iff empty, 1 iff all equal, <= len)
            t = v[1]
            n = ex.fresh_int("ndistinct")
            j = z3.Int("j!sd")
            alleq = z3.ForAll([j], z3.Implies(z3.And(0 <= j, j < S.f_len(t)), S.f_at(t, j) == S.f_at(t, 0)),
                              patterns=[S.f_at(t, j)])
            st.pc.append(z3.And(n >= 0, n <= S.f_len(t), (n == 0) == (S.f_len(t) == 0),
                                (n == 1) == z3.And(S.f_len(t) >= 1, alleq)))
            return I(n)
        raise E.Unsupported(f"len of {v!r} line {node.lineno}")
    if name in ("min", "max"):
        if nargs == 1:
            v = A(0)
            if isinstance(v, TupV):
                vals = [S.as_int(ex.need_int(x, st, node)) for x in v.items]
            elif isinstance(v, SeqV):
                # max/min of a symbolic sequence: fresh m, attained and bounding
                ex.oblige(st, "safe", "nonempty", S.f_len(v.t) > 0, node.lineno)
                m = ex.fresh_int(name)
                w = ex.fresh_int(name + "_at")
                j = z3.Int("j!mm")
                cmp = (S.f_at(v.t, j) <= m) if name == "max" else (S.f_at(v.t, j) >= m)
                st.pc.append(z3.And(0 <= w, w < S.f_len(v.t), S.f_at(v.t, w) == m))
                st.pc.append(z3.ForAll([j], z3.Implies(z3.And(0 <= j, j < S.f_len(v.t)), cmp),
                                       patterns=[S.f_at(v.t, j)]))
                return I(m)
            else:
                raise E.Unsupported(f"{name} of {v!r}")
        else:
            raw = [A(i) for i in range(nargs)]
            if any(isinstance(x, RealV) for x in raw):
                vals = [x.t if isinstance(x, RealV) else z3.ToReal(S.as_int(ex.need_int(x, st, node))) for x in raw]
                r = vals[0]
                for x in vals[1:]:
                    r = z3.If(x < r, x, r) if name == "min" else z3.If(x > r, x, r)
                return RealV(r)
            vals = [S.as_int(ex.need_int(x, st, node)) for x in raw]
        r = vals[0]
        for x in vals[1:]:
            r = S.min_(r, x) if name == "min" else S.max_(r, x)
        return I(r)
    if name == "abs":
        return I(S.abs_(AI(0)))
    if name == "int":
        v = A(0)
        if isinstance(v, RealV):
            # int() truncates toward zero
            return I(z3.If(v.t >= 0, z3.ToInt(v.t), -z3.ToInt(-v.t)))
        return I(S.as_int(ex.need_int(v, st, node)))
    if name == "float":
        v = A(0)
        if isinstance(v, RealV):
            return v
        return RealV(z3.ToReal(S.as_int(ex.need_int(v, st, node))))
    if name == "bool":
        return BoolV(ex.truth(A(0)))
    if name == "slice":
        xs = [A(i) for i in range(nargs)]
        if nargs == 1:
            xs = [NONE, xs[0], NONE]
        elif nargs == 2:
            xs = [xs[0], xs[1], NONE]
        for x in xs:
            if not isinstance(x, Opt):
                raise E.Unsupported("slice() of non-int")
        return SliceV(*xs)
    if name == "range":
        r = [AI(i) for i in range(nargs)]
        if nargs == 1:
            r = [z3.IntVal(0), r[0], z3.IntVal(1)]
        elif nargs == 2:
            r = r + [z3.IntVal(1)]
        return ("range", r[0], r[1], r[2])
    if name in ("tuple", "list"):
        if nargs == 0:
            return SeqV(S.c_empty, name) if name == "list" else TupV([], "tuple")
        a0 = node.args[0]
        if isinstance(a0, ast.GeneratorExp):
            v = ex.comprehension(a0, st, name)
        else:
            v = A(0)
        if isinstance(v, SeqV):
            return SeqV(v.t, name)
        if isinstance(v, TupV):
            return TupV(v.items, name)
        if isinstance(v, TupSeqV):
            return TupSeqV(v.n, v.comps, name)
        if isinstance(v, SliceSeqV):
            return v
        if isinstance(v, tuple) and v and v[0] == "range":
            # tuple(range(a, b, c)) with compile-time bounds: the listed integers
            vals = [z3.simplify(S.as_int(t)) if not isinstance(t, int) else z3.IntVal(t) for t in v[1:4]]
            if all(z3.is_int_value(t) for t in vals):
                lo, hi, stp = (t.as_long() for t in vals)
                return TupV([E.I(z3.IntVal(i)) for i in range(lo, hi, stp)], name)
        raise E.Unsupported(f"{name}() of {v!r}")
    if name == "product":
        # itertools.product of symbolic sequences: only the single-factor case (a sequence of 1-tuples) is modelled
        facs = []
        for x in node.args:
            if isinstance(x, ast.Starred):
                tv = ex.eval(x.value, st)
                if not isinstance(tv, TupV):
                    raise E.Unsupported("product(*symbolic)")
                facs.extend(tv.items)
            else:
                facs.append(ex.eval(x, st))
        if len(facs) == 1 and isinstance(facs[0], SliceSeqV) and not node.keywords:
            return TupSeqV(facs[0].n, [facs[0]], "tuple")
        raise E.Unsupported(f"product of {len(facs)} factors")
    if name == "set" and nargs == 1:
        v = A(0)
        if isinstance(v, TupV):
            return ("sset", tuple(v.items))  # set(<fixed-length tuple>): its members, statically known
        # (a symbolic sequence falls through to the models below, e.g. len(set(seq)) == 1)
    if name == "set" and nargs == 0:
        return ("sset", ())  # an empty set that is only ever extended with .add(x) and tested with `in`: a finite list
    if name in ("partition_all", "toolz.partition_all", "tlz.partition_all") and nargs == 2:
        # partition_all(k, seq): consecutive groups of k items, the last one possibly shorter: ceil(len/k) groups
        k = AI(0)
        ex.oblige(st, "safe", "partition-size-positive", k >= 1, node.lineno, note="partition_all needs a positive group size")
        v = A(1)
        if isinstance(v, SeqV):
            n = S.f_len(v.t)
        elif isinstance(v, TupV):
            n = z3.IntVal(len(v.items))
        elif isinstance(v, tuple) and v and v[0] == "range":
            n = S.rlen(v[1], v[2], v[3])
        else:
            raise E.Unsupported(f"partition_all of {v!r}")
        return ("parts", k, n)
    if name in ("toolz.partition", "partition") and nargs == 2:
        # toolz.partition(n, seq) on a fixed-length sequence: consecutive n-tuples (a trailing remainder is dropped)
        nv = z3.simplify(AI(0))
        seq = A(1)
        if z3.is_int_value(nv) and isinstance(seq, TupV):
            k = nv.as_long()
            return TupV([TupV(seq.items[i:i + k], "tuple") for i in range(0, len(seq.items) - k + 1, k)], "tuple")
        raise E.Unsupported("partition of a symbolic sequence")
    if name == "set":
        v = A(0)
        if isinstance(v, (SeqV, TupV)):
            return ("set", ex.to_seq(v))
        raise E.Unsupported("set() of this value")
    if name == "dict":
        if nargs == 0 and not node.keywords:
            return ("emptydict",)
        a0 = node.args[0] if nargs == 1 else None
        if isinstance(a0, ast.Call) and ex.dotted(a0.func) == "zip" and len(a0.args) == 2 and not node.keywords:
            # dict(zip(keys, values)) over fixed-length sequences of ints: successive insertions (later keys win)
            ks, vs = ex.eval(a0.args[0], st), ex.eval(a0.args[1], st)
            if isinstance(ks, TupV) and isinstance(vs, TupV):
                m = MapV.empty("int")
                for k_, v_ in zip(ks.items, vs.items):
                    m = m.set(S.as_int(ex.need_int(k_, st, node)), ex.need_int(v_, st, node))
                return m
        raise E.Unsupported("dict(...)")
    if name == "sum":
        a0 = node.args[0]
        v = ex.comprehension(a0, st, "tuple") if isinstance(a0, ast.GeneratorExp) else A(0)
        if nargs == 2:
            start = A(1)
            if isinstance(start, TupV) and isinstance(v, TupV) and all(isinstance(x, TupV) for x in v.items):
                items = list(start.items)
                for x in v.items:
                    items.extend(x.items)
                return TupV(items, "tuple")
            raise E.Unsupported("sum(..., start) form")
        if isinstance(v, SeqV):
            return I(S.f_prefix(v.t, S.f_len(v.t)))
        if isinstance(v, TupV):
            tot = z3.IntVal(0)
            for x in v.items:
                if isinstance(x, RealV):
                    raise E.Unsupported("sum of reals")
                tot = tot + S.as_int(ex.need_int(x, st, node))
            return I(tot)
        raise E.Unsupported(f"sum of {v!r}")
    if name in ("math.isnan", "np.isnan", "isnan"):
        v = A(0)
        if isinstance(v, NanV):
            return BoolV(z3.BoolVal(True))
        if isinstance(v, (Opt, BoolV)):
            ex.need_int(v, st, node)
            return BoolV(z3.BoolVal(False))
        if isinstance(v, RealV):
            return BoolV(S._b(v.nan))
        raise E.Unsupported(f"isnan of {v!r}")
    if name in ("math.ceil", "np.ceil"):
        v = A(0)
        if isinstance(v, RealV) and v.ratio is not None:
            # ceil of an exact integer quotient (assumption A3: magnitudes below 2**52)
            num, den = v.ratio
            ex.oblige(st, "safe", "div-zero", den != 0, node.lineno)
            return I(S.ceildiv(num, den))
        if isinstance(v, RealV):
            return I(-z3.ToInt(-v.t))
        return I(S.as_int(ex.need_int(v, st, node)))
    if name in ("math.floor", "np.floor"):
        v = A(0)
        if isinstance(v, RealV):
            return I(z3.ToInt(v.t))
        return I(S.as_int(ex.need_int(v, st, node)))
    if name in ("reduce", "functools.reduce") and nargs in (2, 3) and ex.dotted(node.args[0]) in ("mul", "operator.mul"):
        # reduce(mul, xs[, initial]) over a fixed-length tuple of ints: the product
        v = A(1)
        if isinstance(v, TupV):
            r = AI(2) if nargs == 3 else None
            for x in v.items:
                t = S.as_int(ex.need_int(x, st, node))
                r = t if r is None else r * t
            if r is None:
                raise E.Unsupported("reduce of an empty sequence without initial value")
            return I(r)
        raise E.Unsupported("reduce(mul, symbolic sequence)")
    if name in ("math.prod",):
        v = A(0)
        if isinstance(v, TupV):
            r = z3.IntVal(1)
            for x in v.items:
                r = r * S.as_int(ex.need_int(x, st, node))
            return I(r)
        raise E.Unsupported("prod of symbolic sequence")
    if name in ("is_dask_collection", "is_arraylike"):
        v = A(0)
        if isinstance(v, (Opt, BoolV, SliceV, StrV, RealV, NanV)):
            return BoolV(z3.BoolVal(False))
        if isinstance(v, (TupV, SeqV)):
            return BoolV(z3.BoolVal(False))
        raise E.Unsupported(f"{name} of {v!r}")
    if name == "map":
        fn = ex.dotted(node.args[0])
        seqs = [A(i) for i in range(1, nargs)]
        if not all(isinstance(x, TupV) for x in seqs):
            raise E.Unsupported("map over a symbolic sequence")
        n = min(len(x.items) for x in seqs)
        out = []
        for i in range(n):
            out.append(apply_named(ex, fn, [x.items[i] for x in seqs], st, node))
        return TupV(out, "tuple")
    if name in ("all", "any"):
        a0 = node.args[0]
        v = ex.comprehension(a0, st, "tuple") if isinstance(a0, (ast.GeneratorExp, ast.ListComp)) else A(0)
        if isinstance(v, TupV):
            ts = [ex.truth(x) for x in v.items]
            if name == "all":
                return BoolV(z3.And(*ts) if ts else z3.BoolVal(True))
            return BoolV(z3.Or(*ts) if ts else z3.BoolVal(False))
        if isinstance(v, SeqV):
            j = z3.Int("j!aa")
            body = S.f_at(v.t, j) != 0
            q = z3.ForAll([j], z3.Implies(z3.And(0 <= j, j < S.f_len(v.t)), body), patterns=[S.f_at(v.t, j)])
            if name == "all":
                return BoolV(q)
            q2 = z3.ForAll([j], z3.Implies(z3.And(0 <= j, j < S.f_len(v.t)), z3.Not(body)), patterns=[S.f_at(v.t, j)])
            return BoolV(z3.Not(q2))
        raise E.Unsupported(f"{name} of {v!r}")
    if name in ("is_integer",):
        v = A(0)
        if isinstance(v, (Opt, BoolV)):
            return BoolV(z3.Not(S._b(v.n)) if isinstance(v, Opt) else z3.BoolVal(True))
        return BoolV(z3.BoolVal(False))
    if name == "divmod":
        x, y = AI(0), AI(1)
        ex.oblige(st, "safe", "div-zero", y != 0, node.lineno)
        q, r = S.divmod_(x, y)
        return TupV([I(q), I(r)])
    if name in ("np.array_equal", "numpy.array_equal"):
        # np.array_equal(a, b, equal_nan=True) on layouts: same length and, position by position, equal sizes or both NaN
        a, b = A(0), A(1)
        eqnan = any(k.arg == "equal_nan" and isinstance(k.value, ast.Constant) and k.value.value is True for k in node.keywords)
        if isinstance(a, TupV) and isinstance(b, TupV):
            if len(a.items) != len(b.items):
                return BoolV(z3.BoolVal(False))
            ts = []
            for x, y in zip(a.items, b.items):
                if isinstance(x, NanV) or isinstance(y, NanV):
                    ts.append(z3.BoolVal(eqnan and isinstance(x, NanV) and isinstance(y, NanV)))
                else:
                    ts.append(S.as_int(ex.need_int(x, st, node)) == S.as_int(ex.need_int(y, st, node)))
            return BoolV(z3.And(*ts) if ts else z3.BoolVal(True))
        if isinstance(a, (SeqV, TupV)) and isinstance(b, (SeqV, TupV)):
            if any(isinstance(x, NanV) for v in (a, b) if isinstance(v, TupV) for x in v.items):
                return BoolV(z3.BoolVal(False))  # a NaN entry against an integer layout
            return BoolV(ex.seq_eq(ex.to_seq(a), ex.to_seq(b)))
        raise E.Unsupported(f"np.array_equal of {a!r}, {b!r}")
    if name == "cached_cumsum":
        v = A(0)
        iz = False
        for k in node.keywords:
            if k.arg == "initial_zero":
                iz = bool(k.value.value)
        if isinstance(v, TupV) and any(isinstance(x, NanV) for x in v.items):
            # a fixed-length layout with unknown (NaN) sizes: every running total from the first NaN on is NaN
            out, acc, bad = ([I(0)] if iz else []), z3.IntVal(0), False
            for x in v.items:
                bad = bad or isinstance(x, NanV)
                if not bad:
                    acc = acc + S.as_int(ex.need_int(x, st, node))
                out.append(NanV() if bad else I(acc))
            return TupV(out, "tuple")
        t = ex.to_seq(v)
        if iz:
            return SeqV(S.f_concat(S.f_append(S.c_empty, z3.IntVal(0)), S.f_cum(t)), "tuple")
        return SeqV(S.f_cum(t), "tuple")
    if name in ("bisect.bisect_right", "bisect.bisect_left", "bisect_right", "bisect_left", "bisect"):
        seq = A(0)
        x = AI(1)
        t = ex.to_seq(seq)
        return I(bisect(ex, st, t, x, right=not name.endswith("left"), line=node.lineno))
    if name == "np.searchsorted":
        # np.searchsorted(a, v, side=...) on a 1-D sorted array and a scalar: bisect_left / bisect_right
        side = "left"
        for kw in node.keywords:
            if kw.arg == "side" and isinstance(kw.value, ast.Constant) and kw.value.value in ("left", "right"):
                side = kw.value.value
            else:
                raise E.Unsupported(f"np.searchsorted keyword {kw.arg} line {node.lineno}")
        if nargs != 2:
            raise E.Unsupported("np.searchsorted arity")
        t = ex.to_seq(A(0))
        return I(bisect(ex, st, t, AI(1), right=(side == "right"), line=node.lineno))
    if name == "dict.fromkeys":
        keys = A(0)
        v = A(1)
        if isinstance(keys, TupV) and isinstance(v, (Opt, BoolV)):
            m = MapV.empty("int")
            for k_ in keys.items:
                m = m.set(S.as_int(ex.need_int(k_, st, node)), ex.need_int(v, st, node))
            return m
        if isinstance(keys, tuple) and keys[0] == "range" and isinstance(v, SliceV):
            lo, hi, stp = keys[1:]
            if not z3.is_int_value(z3.simplify(stp)) or z3.simplify(stp).as_long() != 1:
                raise E.Unsupported("fromkeys over stepped range")
            m = ex.fresh_value("map:slice", "fromkeys")
            k = z3.Int("k!fk")
            st.pc.append(z3.ForAll([k], z3.Select(m.has, k) == z3.And(lo <= k, k < hi), patterns=[z3.Select(m.has, k)]))
            got = m.get(k)
            st.pc.append(z3.ForAll([k], z3.Implies(z3.And(lo <= k, k < hi), S.slice_eq(got, v)),
                                   patterns=[z3.Select(m.f["n0"], k)]))
            return m
        raise E.Unsupported("dict.fromkeys form")
    if name == "sorted":
        v = A(0)
        if isinstance(v, tuple) and v and v[0] == "items" and isinstance(v[1], MapV):
            m = v[1]
            ex.nfresh += 1
            ks = z3.Const(f"sortedkeys!{ex.nfresh}", S.SeqSort)
            n = S.f_len(ks)
            rank = z3.Function(f"rank!{ex.nfresh}", z3.IntSort(), z3.IntSort())
            a_, b_, k_ = z3.Ints("a!sk b!sk k!sk")
            st.pc.append(z3.ForAll([a_, b_], z3.Implies(z3.And(0 <= a_, a_ < b_, b_ < n), S.f_at(ks, a_) < S.f_at(ks, b_)),
                                   patterns=[z3.MultiPattern(S.f_at(ks, a_), S.f_at(ks, b_))]))
            st.pc.append(z3.ForAll([a_], z3.Implies(z3.And(0 <= a_, a_ < n), z3.Select(m.has, S.f_at(ks, a_))),
                                   patterns=[S.f_at(ks, a_)]))
            st.pc.append(z3.ForAll([k_], z3.Implies(z3.Select(m.has, k_), z3.And(0 <= rank(k_), rank(k_) < n, S.f_at(ks, rank(k_)) == k_)),
                                   patterns=[z3.Select(m.has, k_)]))
            return SortedItemsV(m, ks, n)
        raise E.Unsupported("sorted() of this value")
    if name == "enumerate" or name == "zip":
        raise E.Unsupported(f"{name} outside a for loop")
    raise E.Unsupported(f"call to unknown function {name!r} at line {node.lineno}")


def apply_named(ex, fn, args, st, node):
    """apply a builtin named `fn` to already-evaluated values (used by map)."""
    if fn == "int":
        v = args[0]
        if isinstance(v, RealV):
            return I(z3.If(v.t >= 0, z3.ToInt(v.t), -z3.ToInt(-v.t)))
        return I(S.as_int(ex.need_int(v, st, node)))
    if fn == "is_integer":
        v = args[0]
        if isinstance(v, Opt):
            return BoolV(z3.Not(S._b(v.n)))
        return BoolV(z3.BoolVal(isinstance(v, BoolV)))
    if fn == "tuple":
        v = args[0]
        if isinstance(v, SeqV):
            return SeqV(v.t, "tuple")
        if isinstance(v, TupV):
            return TupV(v.items, "tuple")
    if fn == "sum":
        v = args[0]
        if isinstance(v, SeqV):
            return I(S.f_prefix(v.t, S.f_len(v.t)))
        if isinstance(v, TupV) and any(isinstance(x, NanV) for x in v.items):
            return NanV()  # a sum with an unknown (NaN) term is NaN
        if isinstance(v, TupV):
            tot = z3.IntVal(0)
            for x in v.items:
                tot = tot + S.as_int(ex.need_int(x, st, node))
            return I(tot)
    if fn == "len":
        v = args[0]
        if isinstance(v, SeqV):
            return I(S.f_len(v.t))
        if isinstance(v, TupV):
            return I(len(v.items))
    if fn in ("max", "min"):
        v = args[0]
        if isinstance(v, SeqV):
            return seq_extreme(ex, st, v, fn, node)
    raise E.Unsupported(f"map/apply of {fn!r} line {node.lineno}")


def seq_extreme(ex, st, v, name, node):
    ex.oblige(st, "safe", "nonempty", S.f_len(v.t) > 0, node.lineno)
    m = ex.fresh_int(name)
    w = ex.fresh_int(name + "_at")
    j = z3.Int("j!mm")
    cmp = (S.f_at(v.t, j) <= m) if name == "max" else (S.f_at(v.t, j) >= m)
    st.pc.append(z3.And(0 <= w, w < S.f_len(v.t), S.f_at(v.t, w) == m))
    st.pc.append(z3.ForAll([j], z3.Implies(z3.And(0 <= j, j < S.f_len(v.t)), cmp), patterns=[S.f_at(v.t, j)]))
    return I(m)


def bisect(ex, st, t, x, right, line):
    """bisect on a non-decreasing sequence: the sortedness precondition is a
    proof obligation; the result is characterised by its two neighbours and
    the global facts."""
    if "ite" in t.sexpr():
        # keep `ite` (from normalised slice bounds) out of quantifier patterns: name the sequence
        ex.nfresh += 1
        alias = z3.Const(f"bisect_seq!{ex.nfresh}", S.SeqSort)
        st.pc.append(alias == t)
        t = alias
    n = S.f_len(t)
    j, k = z3.Ints("j!bs k!bs")
    sorted_ = z3.ForAll([j, k], z3.Implies(z3.And(0 <= j, j <= k, k < n), S.f_at(t, j) <= S.f_at(t, k)),
                        patterns=[z3.MultiPattern(S.f_at(t, j), S.f_at(t, k))])
    ex.oblige(st, "safe", "bisect-sorted", sorted_, line, note="bisect requires a sorted sequence")
    i = ex.fresh_int("bisect")
    st.pc.append(z3.And(0 <= i, i <= n))
    if right:
        below = lambda e: e <= x
    else:
        below = lambda e: e < x
    st.pc.append(z3.ForAll([j], z3.Implies(z3.And(0 <= j, j < i), below(S.f_at(t, j))), patterns=[S.f_at(t, j)]))
    st.pc.append(z3.ForAll([j], z3.Implies(z3.And(i <= j, j < n), z3.Not(below(S.f_at(t, j)))), patterns=[S.f_at(t, j)]))
    st.pc.append(z3.Implies(i > 0, below(S.f_at(t, i - 1))))
    st.pc.append(z3.Implies(i < n, z3.Not(below(S.f_at(t, i)))))
    return i


def method(ex, base, attr, args, st, node):
    if isinstance(base, S.ObjV):
        # an assumed model of a record's method, declared by the contract as externals["Cls.method"]
        ext = getattr(ex.c.cls, "externals", None) or {}
        key = f"{base.cls}.{attr}"
        if key in ext:
            ex.assumed.add(f"{key}: {(ext[key].__doc__ or '').strip()}")
            kwargs = {k.arg: ex.eval(k.value, st) for k in getattr(node, "keywords", []) if k.arg is not None}
            return E.wrap_any(ext[key](ex, st, [base] + list(args), kwargs, node))
    if isinstance(base, SliceV) and attr == "indices":
        n = S.as_int(ex.need_int(args[0], st, node))
        ex.oblige(st, "safe", "slice-step-nonzero", S.step_ok(base), node.lineno,
                  note="slice.indices raises ValueError for step 0")
        for o in (base.start, base.stop, base.step):
            pass
        lo, hi, stp = S.idx3(base, n)
        return TupV([I(lo), I(hi), I(stp)])
    if isinstance(base, tuple) and base and base[0] == "set" and attr == "pop":
        t = base[1]
        ex.oblige(st, "safe", "nonempty", S.f_len(t) > 0, node.lineno, note="set.pop() of an empty set raises KeyError")
        w = ex.fresh_int("popidx")
        st.pc.append(z3.And(0 <= w, w < S.f_len(t)))
        return I(S.f_at(t, w))
    if isinstance(base, tuple) and base and base[0] == "sset" and attr == "add":
        raise E.Unsupported("set.add used as an expression")
    if isinstance(base, MapV):
        if attr == "items":
            return ("items", base)
        if attr == "keys":
            return ("keys", base)
        if attr == "get":
            k = S.as_int(ex.need_int(args[0], st, node))
            dflt = args[1] if len(args) > 1 else NONE
            got = base.get(k)
            m = ex.merge_val(z3.Select(base.has, k), got, dflt)
            if m is None:
                raise E.Unsupported("dict.get with heterogeneous default")
            return m
    if base == ("emptydict",) and attr == "items":
        return ("items", MapV.empty("slice"))
    if isinstance(base, SeqV):
        if attr == "index":
            raise E.Unsupported("list.index")
        if attr == "copy":
            return base
    if isinstance(base, TupV) and attr == "copy":
        return TupV(list(base.items), base.kind)
    if isinstance(base, TupV) and attr == "index" and len(args) == 1:
        # tuple.index(x) where membership is decided at compile time (constant labels): the position, or ValueError
        hits = []
        for i, it in enumerate(base.items):
            if E._same_static(it, args[0]):
                hits.append(i)
            elif not (_is_static_const(it) and _is_static_const(args[0])):
                raise E.Unsupported(f"tuple.index on values that are not compile-time constants line {node.lineno}")
        if hits:
            return E.I(z3.IntVal(hits[0]))
        s2 = st.copy()
        s2.trail.append((node.lineno, "raises ValueError"))
        if not hasattr(ex, "pending_raises"):
            ex.pending_raises = []
        ex.pending_raises.append(("raise", s2, ("ValueError", node.lineno)))
        raise E.RaisedInExpr()
    if isinstance(base, ObjV) and attr == "operand" and len(args) == 1 and isinstance(args[0], StrV) and args[0].s is not None:
        return ex.obj_field(base, args[0].s, node)
    if isinstance(base, ObjV):
        ms = getattr(ex.c.cls, "methods", None) or {}
        m = ms.get(f"{base.cls}.{attr}") or ms.get(attr)
        if m is not None:
            kwargs = {k.arg: ex.eval(k.value, st) for k in node.keywords}
            ex.assumed.add(f"{base.cls}.{attr}: {(m.__doc__ or '').strip()}")
            return E.wrap_any(m(ex, st, base, args, kwargs, node))
    raise E.Unsupported(f"method .{attr} on {base!r} line {node.lineno}")


def _is_static_const(v):
    if isinstance(v, StrV):
        return v.s is not None
    if isinstance(v, Opt):
        return v.n is True or (v.n is False and z3.is_int_value(z3.simplify(S._i(v.v))))
    return False


def inline_local(ex, fn, node, st):
    """call of a closed local helper: executed symbolically in place (it is
    part of the enclosing unit's text)."""
    args = [ex.eval(a, st) for a in node.args]
    s = st.copy()
    for a, v in zip(fn.args.args, args):
        s.env[a.arg] = v
    outs = list(ex.exec_block(fn.body, s))
    rets = [(k, s2, p) for k, s2, p in outs if k in ("return", "fall")]
    if len(outs) != 1 or len(rets) != 1:
        raise E.Unsupported(f"local helper {fn.name} with several paths")
    k, s2, p = rets[0]
    st.pc[:] = s2.pc
    return p[0] if k == "return" else NONE
