"""Re-validate every prelude model (assumption A2) against the running CPython
on a small scope.  A disagreement is a checker failure (exit 3), never a pass."""
from __future__ import annotations

import bisect as pybisect
import itertools
import random

import z3

from . import spec as S
from . import discharge as D


def validate_prelude(quick=True):
    fails = []
    cases = 0
    S.reset_ctx()
    # --- slice.indices / len(range) ------------------------------------------------
    vals = [None] + list(range(-6, 7))
    steps = [None, -3, -2, -1, 1, 2, 3]
    sn, en, tn = z3.Bools("sn en tn")
    sv, ev, tv, n = z3.Ints("sv ev tv n")
    sl = S.SliceV(S.Opt(sn, sv), S.Opt(en, ev), S.Opt(tn, tv))
    lo, hi, st = S.idx3(sl, n)
    rng = range(0, 4) if quick else range(0, 7)
    vsub = vals if not quick else [None, -6, -3, -1, 0, 1, 2, 5]
    for nn in rng:
        for a, b, c in itertools.product(vsub, vsub, steps):
            plo, phi, pst = slice(a, b, c).indices(nn)
            sub = [(sn, z3.BoolVal(a is None)), (sv, z3.IntVal(a or 0)), (en, z3.BoolVal(b is None)), (ev, z3.IntVal(b or 0)),
                   (tn, z3.BoolVal(c is None)), (tv, z3.IntVal(c or 0)), (n, z3.IntVal(nn))]
            got = [z3.simplify(z3.substitute(x, *sub)).as_long() for x in (lo, hi, st)]
            cases += 1
            if got != [plo, phi, pst]:
                fails.append(("slice.indices", (a, b, c, nn), got, (plo, phi, pst)))
    # rlen / divmod with symbolic operands (witness encodings)
    x, y, z = z3.Ints("vx vy vz")
    S.reset_ctx()
    r = S.rlen(x, y, z)
    q, m = S.divmod_(x, z)
    defs = list(S.CTX.defs)
    R = range(-5, 6) if quick else range(-9, 10)
    grid = [(a, b, c) for a in R for b in R for c in (-3, -2, -1, 1, 2, 3, 4)]
    # (i) CPython's values satisfy the defining constraints (cheap: substitute + simplify)
    for a, b, c in grid:
        sub = [(x, z3.IntVal(a)), (y, z3.IntVal(b)), (z, z3.IntVal(c)), (r, z3.IntVal(len(range(a, b, c)))),
               (q, z3.IntVal(a // c)), (m, z3.IntVal(a % c))]
        cases += 1
        if not all(z3.is_true(z3.simplify(z3.substitute(d, *sub))) for d in defs):
            fails.append(("rlen/divmod-defs", (a, b, c)))
    # (ii) the defining constraints admit no other value (solver; a sample in quick tier)
    s = z3.Solver()
    s.add(*defs)
    rnd0 = random.Random(7)
    sample = grid if not quick else rnd0.sample(grid, 60)
    for a, b, c in sample:
        s.push()
        s.add(x == a, y == b, z == c)
        s.add(z3.Or(r != len(range(a, b, c)), q != a // c, m != a % c))
        cases += 1
        if s.check() != z3.unsat:
            fails.append(("rlen/divmod-unique", (a, b, c)))
        s.pop()
    # constant-divisor paths
    for c in (1, 2, 3, 7):
        for a in range(-15, 16):
            S.reset_ctx()
            qq, mm = S.divmod_(z3.IntVal(a) + x - x, c)
            cases += 1
            if z3.simplify(qq).as_long() != a // c or z3.simplify(mm).as_long() != a % c:
                fails.append(("divmod-const", (a, c)))
    # --- sequences -------------------------------------------------------------------
    rnd = random.Random(1)
    seqs = [(), (0,), (3,), (1, 2), (2, 0, 5), (4, 4, 4, 1), (0, 0, 3, 0, 2)]
    ax = D.axioms()

    def term(t):
        e = S.c_empty
        for v in t:
            e = S.f_append(e, z3.IntVal(v))
        return e

    for t in seqs:
        e = term(t)
        facts = [S.f_len(e) == len(t)]
        for i, v in enumerate(t):
            facts.append(S.f_at(e, i) == v)
        for i in range(len(t) + 1):
            facts.append(S.f_prefix(e, i) == sum(t[:i]))
        rv = S.f_rev(e)
        cm = S.f_cum(e)
        for i, v in enumerate(t):
            facts.append(S.f_at(rv, i) == t[::-1][i])
            facts.append(S.f_at(cm, i) == sum(t[:i + 1]))
        for i in range(len(t) + 1):
            facts.append(S.f_prefix(rv, i) == sum(t[::-1][:i]))
        for a in range(len(t) + 1):
            for b in range(a, len(t) + 1):
                sub = S.f_slice(e, a, b)
                facts.append(S.f_len(sub) == b - a)
                for i in range(b - a):
                    facts.append(S.f_at(sub, i) == t[a + i])
                facts.append(S.f_prefix(sub, b - a) == sum(t[a:b]))
        u = (7, 1)
        cc = S.f_concat(e, term(u))
        tu = t + u
        facts.append(S.f_len(cc) == len(tu))
        for i, v in enumerate(tu):
            facts.append(S.f_at(cc, i) == v)
        for i in range(len(tu) + 1):
            facts.append(S.f_prefix(cc, i) == sum(tu[:i]))
        if t:
            up = S.f_update(e, len(t) - 1, 9)
            facts.append(S.f_at(up, len(t) - 1) == 9)
            facts.append(S.f_at(up, 0) == (9 if len(t) == 1 else t[0]))
            for i in range(len(t)):
                upi = S.f_update(e, i, 9)
                tt = list(t)
                tt[i] = 9
                for k in range(len(t) + 1):
                    facts.append(S.f_prefix(upi, k) == sum(tt[:k]))
        rp = S.f_rep(z3.IntVal(3), z3.IntVal(len(t)))
        facts.append(S.f_len(rp) == len(t))
        facts.append(S.f_prefix(rp, len(t)) == 3 * len(t))
        s = z3.Solver()
        s.set("timeout", 20000)
        s.add(*ax)
        s.add(z3.Not(z3.And(*facts)))
        cases += len(facts)
        if s.check() != z3.unsat:
            fails.append(("seq-axioms", t))
    # --- bisect ---------------------------------------------------------------------------
    from . import engine as E

    class _Ex:
        def __init__(self):
            self.k = 0
            self.obl = []

        def fresh_int(self, b):
            self.k += 1
            return z3.Int(f"{b}!v{self.k}")

        def oblige(self, st, kind, clause, goal, line, note=""):
            self.obl.append(goal)

    from . import builtins as B
    for t in [(), (1,), (1, 1, 3), (0, 2, 2, 2, 5), (3, 4, 9)]:
        for xval in range(-1, 11):
            for right in (True, False):
                ex = _Ex()
                st = E.State()
                i = B.bisect(ex, st, term(t), z3.IntVal(xval), right, 0)
                want = pybisect.bisect_right(t, xval) if right else pybisect.bisect_left(t, xval)
                s = z3.Solver()
                s.set("timeout", 20000)
                s.add(*ax)
                s.add(*st.pc)
                s.add(i != want)
                cases += 1
                if s.check() != z3.unsat:
                    fails.append(("bisect", t, xval, right))
    S.reset_ctx()
    return {"cases": cases, "failures": fails}


if __name__ == "__main__":
    import time
    t = time.time()
    r = validate_prelude(quick=True)
    print(r["cases"], r["failures"][:5], round(time.time() - t, 2))
