"""Thorough-tier self-test of contract strength: AST mutation of every function under
an L1 contract, on a scratch copy outside /repo and /verif (removed afterwards).

A mutant is *killed by L1* when some obligation of the unit is no longer discharged
(or the unit leaves the supported subset), *killed by L2* when the bounded runner of
the same contract finds a violating input on the mutated function.  A mutant killed
by neither is reported as a survivor (equivalent mutant or weak contract) -- a
report about the contracts, never a property violation.
"""
from __future__ import annotations

import ast
import copy
import json
import os
import random
import shutil
import subprocess
import tempfile
import time

from . import driver as D

SWAP_CMP = {ast.Lt: ast.LtE, ast.LtE: ast.Lt, ast.Gt: ast.GtE, ast.GtE: ast.Gt, ast.Eq: ast.NotEq, ast.NotEq: ast.Eq}
SWAP_BIN = {ast.Add: ast.Sub, ast.Sub: ast.Add, ast.FloorDiv: ast.Mod, ast.Mod: ast.FloorDiv}
SWAP_NAME = {"min": "max", "max": "min", "bisect_left": "bisect_right", "bisect_right": "bisect_left"}


class Sites(ast.NodeVisitor):
    def __init__(self):
        self.sites = []

    def generic_visit(self, node):
        if isinstance(node, ast.Compare) and len(node.ops) == 1 and type(node.ops[0]) in SWAP_CMP:
            self.sites.append(("cmp", node))
        if isinstance(node, ast.BinOp) and type(node.op) in SWAP_BIN:
            self.sites.append(("bin", node))
        if isinstance(node, ast.Constant) and isinstance(node.value, int) and not isinstance(node.value, bool) and node.value in (0, 1, -1):
            self.sites.append(("const", node))
        if isinstance(node, ast.Call):
            f = node.func
            n = f.id if isinstance(f, ast.Name) else (f.attr if isinstance(f, ast.Attribute) else None)
            if n in SWAP_NAME:
                self.sites.append(("name", node))
        if isinstance(node, ast.BoolOp):
            self.sites.append(("bool", node))
        if isinstance(node, ast.If):
            self.sites.append(("negate-if", node))
        super().generic_visit(node)


def _stmt_line(fn, node):
    """line of the innermost statement containing `node`"""
    best = None
    for stn in ast.walk(fn):
        if isinstance(stn, ast.stmt) and hasattr(stn, "lineno"):
            if stn.lineno <= node.lineno <= getattr(stn, "end_lineno", stn.lineno):
                if best is None or stn.lineno >= best.lineno:
                    if any(sub is node for sub in ast.walk(stn)):
                        best = stn
    return best.lineno if best is not None else node.lineno


def find_function(tree, qualname):
    parts = [p for p in qualname.split(".") if p != "<locals>"]
    body = tree.body
    node = None
    for p in parts:
        node = next((n for n in body if isinstance(n, (ast.FunctionDef, ast.ClassDef)) and n.name == p), None)
        if node is None:
            return None
        body = node.body
    return node


def mutate(node, kind):
    if kind == "cmp":
        node.ops = [SWAP_CMP[type(node.ops[0])]()]
    elif kind == "bin":
        node.op = SWAP_BIN[type(node.op)]()
    elif kind == "const":
        node.value = {0: 1, 1: 0, -1: 1}[node.value]
    elif kind == "name":
        f = node.func
        if isinstance(f, ast.Name):
            f.id = SWAP_NAME[f.id]
        else:
            f.attr = SWAP_NAME[f.attr]
    elif kind == "bool":
        node.op = ast.Or() if isinstance(node.op, ast.And) else ast.And()
    elif kind == "negate-if":
        node.test = ast.UnaryOp(op=ast.Not(), operand=node.test)


def describe(kind, node):
    try:
        return f"{kind} at line {node.lineno}: {ast.unparse(node)[:70]}"
    except Exception:
        return f"{kind} at line {getattr(node, 'lineno', '?')}"


def run(contracts, tier, seed, per_function=10, budget_s=1500):
    """-> list of per-function records"""
    from . import verify as V
    rng = random.Random(seed)
    t0 = time.time()
    out = []
    scratch = tempfile.mkdtemp(prefix="pyvc_selftest_")
    try:
        shutil.copytree(os.path.join(D.REPO, "dask_array"), os.path.join(scratch, "dask_array"),
                        ignore=shutil.ignore_patterns("__pycache__", "tests"))
        by_func = {}
        for c in contracts:
            if c.trusted or c.bounded_only:
                continue
            by_func.setdefault((c.file, c.qualname), []).append(c)
        for (rel, qual), cs in sorted(by_func.items()):
            if time.time() - t0 > budget_s:
                break
            path = os.path.join(scratch, rel)
            original = open(os.path.join(D.REPO, rel)).read()
            tree = ast.parse(original)
            fn = find_function(tree, qual)
            if fn is None:
                continue
            v = Sites()
            v.visit(fn)
            # statements actually executed by at least one specialisation of this function on the unmutated source:
            # a mutation elsewhere is outside the verified text (lines dropped by the typed specialisations)
            covered = set()
            for c in cs:
                ex0, _, err0 = V.gen_unit(c, D.REPO)
                if ex0 is not None:
                    covered |= ex0.covered
            stmt_of = {}
            for stn in ast.walk(fn):
                if isinstance(stn, ast.stmt):
                    for sub in ast.walk(stn):
                        if hasattr(sub, "lineno") and not isinstance(sub, ast.stmt):
                            stmt_of.setdefault(id(sub), stn.lineno)
            idxs = [i for i in range(len(v.sites)) if _stmt_line(fn, v.sites[i][1]) in covered]
            outside = len(v.sites) - len(idxs)
            rng.shuffle(idxs)
            idxs = idxs[:per_function]
            rec = {"function": f"{rel}::{qual}", "sites": len(v.sites), "sites_outside_verified_text": outside, "mutants": 0,
                   "killed_by_proof": 0,
                   "killed_by_bounded_only": 0, "survivors": []}
            for i in idxs:
                if time.time() - t0 > budget_s:
                    break
                t2 = ast.parse(original)
                f2 = find_function(t2, qual)
                v2 = Sites()
                v2.visit(f2)
                kind, node = v2.sites[i]
                desc = describe(kind, node)
                mutate(node, kind)
                ast.fix_missing_locations(t2)
                try:
                    src = ast.unparse(t2)
                    compile(src, rel, "exec")
                except Exception:
                    continue
                with open(path, "w") as fh:
                    fh.write(src)
                rec["mutants"] += 1
                # L1 on the mutant (each specialisation of the function)
                V.E._MODCACHE.clear()
                outdir = os.path.join(scratch, "obl")
                results, _ = V.verify_units(cs, scratch, outdir, timeouts=(5, 8, 0))
                killed = False
                for r in results:
                    if r.get("error"):
                        killed = True
                    for o in r["obls"]:
                        if o.status != "unsat":
                            killed = True
                if killed:
                    rec["killed_by_proof"] += 1
                else:
                    # L2: does the bounded runner of the same contracts see it?
                    l2 = False
                    for c in cs:
                        if c.domain is None:
                            continue
                        env = D.env_for_repo()
                        env["PYTHONPATH"] = D.VERIF + os.pathsep + scratch
                        p = subprocess.run([D.VENV_PY, "-m", "pyvc.concrete", "bounded", c.key, "quick", str(seed)], cwd=scratch,
                                           env=env, capture_output=True, text=True, timeout=900)
                        try:
                            br = json.loads(p.stdout.strip().splitlines()[-1])
                            if br.get("violations") or br.get("error"):
                                l2 = True
                        except Exception:
                            pass
                    if l2:
                        rec["killed_by_bounded_only"] += 1
                        rec["survivors"].append({"mutant": desc, "note": "semantic (bounded runner sees it) but every obligation still "
                                                                        "discharges: weak contract"})
                    else:
                        rec["survivors"].append({"mutant": desc, "note": "not observed by the bounded runner either: equivalent on the "
                                                                        "scope, or outside both"})
                with open(path, "w") as fh:
                    fh.write(original)
            out.append(rec)
    finally:
        shutil.rmtree(scratch, ignore_errors=True)
        V.E._MODCACHE.clear()
    return out
