"""Per-property configuration: claimed level and what decides it."""

PROPS = {
    "C13": {
        "level": "proof",
        "explanation": "slice algebra helpers: VCs generated from the real source of slicing/_utils.py and slicing/_basic.py",
    },
    "C16": {
        "level": "proof",
        "explanation": "chunk normalisation: uniform layouts proved; normalize_chunks / auto_chunks bounded",
    },
    "C15": {
        "level": "proof",
        "explanation": "rechunk planner helpers proved; plan-level clauses bounded",
    },
    "C27": {
        "level": "proof",
        "explanation": "transfer estimates: range and ordering obligations from the real loops",
    },
    "C17": {
        "level": "proof",
        "explanation": "chunk unification helpers",
    },
    "C03": {
        "level": "proof",
        "explanation": "advertised chunks: chunk formulas proved against the block plans; materialisation bridge by record abstraction",
    },
    "C04": {
        "level": "proof",
        "explanation": "keys and names: materialisation pins the name on every path; key grids bounded",
    },
    "C20": {
        "level": "proof",
        "explanation": "layout barrier (ChunksFreeze.lower_once) by record abstraction; block_info payload bounded",
    },
    "C24": {
        "level": "proof",
        "explanation": "source reads: region composition and sliced chunk sizes proved; request bounds on recording sources bounded",
    },
    "C25": {
        "level": "proof",
        "explanation": "store: the region/block index composition store relies on (fuse_slice, slice and integer cases) is proved from the "
                       "real source for all inputs; end-to-end writes (whole target, offset and strided regions, several pairs, delayed, "
                       "return_stored) are a bounded stand-in over the catalogue",
    },
    "C28": {
        "level": "exploration",
        "explanation": "unknown chunk sizes: compute_chunk_sizes bounded over the catalogue",
    },
    "C29": {
        "level": "other",
        "frame": ["srcreads"],
        "explanation": "static analysis of the real AST: every read of a from_array source (subscript, np.asarray, copy, __array__) in "
                       "io/_from_array.py is confined to the `is_ndarray` branches, for all inputs; plus a bounded run of builders and "
                       "metadata accessors over recording sources",
    },
    "C10": {
        "level": "other",
        "frame": ["kernels"],
        "explanation": "static ownership analysis of the real AST of every chunk-level kernel: each in-place write site (element store, "
                       "augmented assignment, out=, in-place method, np.copyto) targets storage that is freshly allocated on every "
                       "path reaching it, so no task modifies a value it borrowed; schedule independence then follows from purity (B3, assumed). Bounded additions: a "
                       "source registered with a lock is only ever read while that lock is held (whatever rewrites moved into the read), and "
                       "executing a random collection's graph twice gives the same numbers (tasks do not advance generators stored in the graph)",
        "assumptions": ["B3 a task graph of pure functions evaluates to the same values in every topological order (not machine-checked)",
                        "the catalogue of aliasing vs allocating NumPy operations in frame/analyses.py",
                        "declared frames / owned parameters / fresh callables listed in coverage.frame"],
    },
    "C11": {
        "level": "other",
        "frame": ["inplace", "kernels"],
        "explanation": "frame of in-place operations: Array._expr is assigned only in __init__/_replace_expr/__setstate__, no expression "
                       "mutates its operands, and the setitem kernel writes only into a fresh copy. Proved (L1, a fragment of the real "
                       "setitem_array_expr): the block-local slice of a strided assignment key selects exactly the block's share of the "
                       "selected positions, or the block is skipped exactly when it holds none. The reversed-slice recasting, keys that mix "
                       "integers / lists / reversed slices on n-d arrays and multi-chunk dask values are bounded",
    },
    "C01": {
        "level": "exploration",
        "explanation": "bounded contract on the real API: randomly composed programs (a base array of a drawn shape, dtype and chunking, "
                       "then up to four / six of 60 operations) compute NumPy's values, shape and dtype with graph optimisation on and off. "
                       "Nothing is proved: the statement is an induction over an unbounded program space whose step cases are NumPy kernels; "
                       "the integer lemmas it rests on are proved under C12-C19 and C24",
    },
    "C05": {
        "level": "exploration",
        "frame": ["inplace"],
        "explanation": "frame (L3, all inputs): the expression of a collection is replaced only through _replace_expr, which drops every "
                       "cached derivation unconditionally, so the method entry points (which read the cached materialization) and the dask.* "
                       "entry points (which read the expression) cannot see different programs after an in-place update. Values: "
                       "bounded contract on the real collection protocol: for catalogue and rewrite-target programs, x.compute(), "
                       "dask.compute with other collections, x.persist(), dask.persist, dask.optimize, x.optimize() and x.to_delayed() "
                       "yield the same values, the persisted / dask-optimised collections keep name, chunks and dtype, and five follow-on "
                       "operations on each returned collection compute what they compute on x. Nothing is proved: the entry points go "
                       "through dask's generic optimiser and scheduler, outside any contract on dask-array code",
    },
    "C06": {
        "level": "exploration",
        "explanation": "bounded contract on the real naming code: every node of every catalogue / rewrite-target program in its raw, "
                       "simplified, lowered and fused form is registered by name in one process; two nodes with one name must have the same "
                       "shape, chunks and dtype and, where their operands differ structurally, the same values. Nothing is proved: global "
                       "injectivity of tokenize-derived names over all program pairs is not a per-function postcondition",
    },
    "C07": {
        "level": "exploration",
        "explanation": "bounded contract on the real naming / pickling code: every catalogue and rewrite-target program, built again in "
                       "the same process and in a fresh interpreter, has the same collection name, chunks, dtype, output keys and optimised "
                       "graph keys, and its cloudpickle round trip keeps all of those and computes the same values. Nothing is proved: the "
                       "names come from dask.tokenize and cloudpickle, outside any contract on dask-array code",
    },
    "C08": {
        "level": "exploration",
        "explanation": "bounded contract on the real optimiser over the catalogue: simplify / lower / fuse terminate without error, a second "
                       "application of simplify, of lower_completely and of optimize returns an expression of the same name, and the optimised "
                       "form of a program that computes un-optimised still computes (to the same value). Termination and idempotence for ALL "
                       "expression trees are whole-system fixpoint properties on which function contracts are silent: nothing is proved",
    },
    "C09": {
        "level": "exploration",
        "explanation": "bounded contracts on the real materializer: every catalogue / rewrite-target program computes the same values "
                       "(NumPy's) under 16 settings of the optimiser and planner options in effect at construction, at graph-build time or "
                       "both, and in groups sharing subtrees, singleton nodes and the name-keyed lowering cache, whatever the compute order "
                       "and whatever setting the cache entries were made under. Nothing is proved: the property quantifies over histories "
                       "of whole programs and over configurations of whole runs, on which function contracts are silent",
    },
    "C21": {
        "level": "exploration",
        "explanation": "bounded contract on the real records walk: for catalogue and rewrite-target programs the task records of "
                       "__frisky_graph__() / __frisky_records_chunks__() are declined or complete and well-formed (no dangling dependency, "
                       "output keys defined, every TaskRef declared as a dependency), and an in-process executor ordering records by their "
                       "declared deps computes the block values of __dask_graph__(); pairs walked with a shared `seen` set form one "
                       "complete graph. The native extension is not built, so every layer goes through the generic GraphRecordsLayer "
                       "translation; binary layer chunks are never produced here and are not covered. Nothing is proved",
    },
    "C23": {
        "level": "exploration",
        "frame": ["rngreads"],
        "explanation": "bounded contracts on the real random routines: a seeded Generator / RandomState array is one realization -- "
                       "recomputing, every derived program (slice, rechunk, transpose, elementwise, reduction, fused), either compute order, "
                       "scalar / NumPy-array / dask-array distribution parameters (whose rewrites re-create the node), pickle and deepcopy "
                       "round trips and rebuilding from the same seed give the same values; later draws do not depend on earlier computes; "
                       "executing a graph does not advance generators stored in it and the next draw from the same generator differs. A "
                       "syntactic frame analysis (L3, for all inputs) shows the part function contracts can reach: inside the random node "
                       "classes the generator operand is read only through copy.deepcopy, and every construction site hands the node a "
                       "state of its own, so a node is a function of its operands however often it is re-created. The value clauses are "
                       "bounded: nothing about the realized numbers is proved",
    },
    "C26": {
        "level": "other",
        "frame": ["importfx"],
        "explanation": "static import-effect analysis over every dask_array module: the statements executed at import time (module top "
                       "levels, class bodies, decorators, defaults), closed under the init-time import graph, never load dask_array._xarray, "
                       "never call _ensure_registered/list_chunkmanagers/register, use no dynamic import; _ensure_registered has the single "
                       "caller dask_array.xarray.register; pyproject.toml declares no xarray entry point. Order-free, for all import orders. "
                       "The value clause (registered objects compute what NumPy-backed ones do) rests on the moving-window rewrite that "
                       "exists only for xarray's rolling path: its guard and block plan are proved (L1, shared with C19) and rolling / "
                       "cumulative samples are compared in fresh interpreters (bounded)",
    },
    "C02": {
        "level": "proof",
        "explanation": "rewrites whose body is index arithmetic are proved (slice-of-slice fusion, slice into source region, sliced chunk "
                       "sizes); every rewrite that fires on the rewrite-target catalogue is validated (before/after values) as a bounded stand-in",
    },
    "C14": {
        "level": "exploration",
        "explanation": "rechunk: requested chunks and unchanged values over the catalogue (bounded); proved pieces: _validate_rechunk, the "
                       "normalize_chunks forms Rechunk.chunks calls, _get_chunks, and the pushdowns through transpose and expand_dims by "
                       "record abstraction; crosswalk and plan contracts under C15",
    },
    "C18": {
        "level": "exploration",
        "explanation": "reductions: bounded contracts against NumPy over chunkings, axes, keepdims and split_every; the block structure of the "
                       "reduction tree (one layer at rank 1-3; the cascade reaching one block on every reduced axis at rank 1 and rank 2; the "
                       "fan-in >= 2) is proved given the depth bound, which is validated on the real function",
    },
    "C19": {
        "level": "proof",
        "explanation": "ensure_minimum_chunksize proved from the real loop; windowed / scan operations bounded against the NumPy definitions",
    },
    "C12": {
        "level": "proof",
        "explanation": "indexing: normalisation, bounds refusal, per-block slice plan, chunk sizes",
    },
}
