"""Per-property configuration: claimed level and what decides it."""

PROPS = {
    "C13": {
        "level": "proof",
        "explanation": "slice algebra helpers: VCs generated from the real source of slicing/_utils.py and slicing/_basic.py",
    },
    "C16": {
        "level": "proof",
        "explanation": "chunk normalisation: uniform layouts proved; normalize_chunks / auto_chunks bounded",
    },
    "C15": {
        "level": "proof",
        "explanation": "rechunk planner helpers proved; plan-level clauses bounded",
    },
    "C12": {
        "level": "proof",
        "explanation": "indexing: normalisation, bounds refusal, per-block slice plan, chunk sizes",
    },
}
