"""Per-property configuration: claimed level and what decides it."""

PROPS = {
    "C13": {
        "level": "proof",
        "explanation": "slice algebra helpers: VCs generated from the real source of slicing/_utils.py and slicing/_basic.py",
    },
    "C16": {
        "level": "proof",
        "explanation": "chunk normalisation: uniform layouts proved; normalize_chunks / auto_chunks bounded",
    },
    "C15": {
        "level": "proof",
        "explanation": "rechunk planner helpers proved; plan-level clauses bounded",
    },
    "C27": {
        "level": "proof",
        "explanation": "transfer estimates: range and ordering obligations from the real loops",
    },
    "C17": {
        "level": "proof",
        "explanation": "chunk unification helpers",
    },
    "C03": {
        "level": "proof",
        "explanation": "advertised chunks: chunk formulas proved against the block plans; materialisation bridge by record abstraction",
    },
    "C04": {
        "level": "proof",
        "explanation": "keys and names: materialisation pins the name on every path; key grids bounded",
    },
    "C20": {
        "level": "proof",
        "explanation": "layout barrier (ChunksFreeze.lower_once) by record abstraction; block_info payload bounded",
    },
    "C24": {
        "level": "proof",
        "explanation": "source reads: region composition and sliced chunk sizes proved; request bounds on recording sources bounded",
    },
    "C25": {
        "level": "exploration",
        "explanation": "store: region/block index composition (fuse_slice) proved under C13; end-to-end writes bounded over the catalogue",
    },
    "C28": {
        "level": "exploration",
        "explanation": "unknown chunk sizes: compute_chunk_sizes bounded over the catalogue",
    },
    "C29": {
        "level": "exploration",
        "explanation": "no data access at build/inspect time: recording sources over the catalogue",
    },
    "C12": {
        "level": "proof",
        "explanation": "indexing: normalisation, bounds refusal, per-block slice plan, chunk sizes",
    },
}
