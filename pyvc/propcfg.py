"""Per-property configuration: claimed level and what decides it."""

PROPS = {
    "C13": {
        "level": "proof",
        "explanation": "slice algebra helpers: VCs generated from the real source of slicing/_utils.py and slicing/_basic.py",
    },
    "C12": {
        "level": "proof",
        "explanation": "indexing: normalisation, bounds refusal, per-block slice plan, chunk sizes",
    },
}
