"""Sidecar contract objects.

A contract is a plain class in /verif/contracts/*.py decorated with
``@contract(target, ...)``.  Nothing in /repo is edited: the target names the
real function by file and qualified name and the engine reads its AST from the
working tree on every run.

Parameter / result type strings
    int        definite Python int
    optint     int or None
    bool
    slice      slice of three optints
    seq        tuple of ints, symbolic length    (list: 'lseq')
    seqseq     tuple of tuples of ints (symbolic outer length)  [abstract]
    tup:<t1>,<t2>,...   fixed-length tuple with typed items
    map:slice / map:int   dict[int -> slice|int]
    nan        the float NaN (unknown size marker)
    real       float modelled as a real (assumption A3)
    const      a concrete Python constant given in ``consts``
    obj:<Class>  opaque record; fields declared in ``fields``
"""
from __future__ import annotations

REGISTRY = {}  # name -> Contract


class Loop:
    def __init__(self, invariant=None, ghosts=None, ghost_init=None, ghost_update=None,
                 decreases=None, hints=None, mapiter=None):
        self.invariant = invariant
        self.ghosts = ghosts or {}
        self.ghost_init = ghost_init
        self.ghost_update = ghost_update
        self.decreases = decreases
        self.hints = hints
        self.mapiter = mapiter


class Contract:
    def __init__(self, cls, target, spec, props):
        self.cls = cls
        self.target = target
        self.file, self.qualname = target.split("::")
        self.spec = spec
        self.name = f"{self.qualname}[{spec}]" if spec else self.qualname
        self.key = f"{self.file}::{self.name}"
        self.props = list(props)
        g = lambda n, d=None: getattr(cls, n, d)
        self.params = dict(g("params", {}))
        self.ghosts = dict(g("ghosts", {}))
        self.consts = dict(g("consts", {}))
        self.fields = dict(g("fields", {}))
        self.result = g("result", None)
        self.requires = g("requires", None)
        self.ensures = g("ensures", None)
        self.raises = dict(g("raises", {}))
        self.loops = dict(g("loops", {}))
        self.inline = list(g("inline", []))
        self.use = dict(g("use", {}))  # callee qualname -> spec name to use at call sites
        self.hints = g("hints", None)
        self.ghost_domain = g("ghost_domain", None)  # concrete mode: ranges of ghosts
        self.domain = g("domain", None)  # bounded enumerator of concrete inputs
        self.trusted = g("trusted", False)  # contract assumed, body not verified
        self.bounded_only = g("bounded_only", False)  # L2 only: not counted as proved
        self.note = g("note", "")
        self.drops = list(g("drops", []))
        self.post_hints = g("post_hints", None)
        self.call_patterns = g("call_patterns", None)
        self.pure = g("pure", True)

    def __repr__(self):
        return f"<Contract {self.key}>"


def contract(target, spec="", props=()):
    def deco(cls):
        c = Contract(cls, target, spec, props)
        if c.key in REGISTRY:
            raise RuntimeError(f"duplicate contract {c.key}")
        REGISTRY[c.key] = c
        cls._contract = c
        return cls

    return deco


def for_function(file, qualname):
    return [c for c in REGISTRY.values() if c.file == file and c.qualname == qualname]
