"""Dual-mode specification vocabulary.

Every operation here works on *concrete* Python values (ints, None, slice,
tuple, dict) and on *symbolic* values (z3 terms wrapped in the small value
classes below).  Sidecar contracts are written once against this module; the
VC generator evaluates them symbolically, the replay / bounded runner evaluates
the very same text on the real function's concrete inputs and outputs.

Concrete mode needs no z3 (it runs under /venv/bin/python next to dask_array).
"""
from __future__ import annotations

import itertools

try:  # symbolic mode only under python3-vt
    import z3
except Exception:  # pragma: no cover - concrete mode
    z3 = None


# --------------------------------------------------------------------------
# symbolic value classes
# --------------------------------------------------------------------------
class Opt:
    """int-or-None.  n: 'is None' (z3 Bool or python bool), v: z3 Int."""

    __slots__ = ("n", "v")

    def __init__(self, n, v):
        self.n = n
        self.v = v

    def definite(self):
        return self.n is False or (z3 is not None and z3.is_false(self.n))

    def __repr__(self):
        return f"Opt({self.n},{self.v})"


class BoolV:
    __slots__ = ("t",)

    def __init__(self, t):
        self.t = t

    def __repr__(self):
        return f"BoolV({self.t})"


class RealV:
    """float whose value is modelled as a mathematical real (assumption A3)."""

    __slots__ = ("t", "nan", "ratio")

    def __init__(self, t, nan=False, ratio=None):
        self.t = t
        self.nan = nan  # z3 Bool / python bool : value is NaN
        self.ratio = ratio  # (num, den) integer terms when the value is that exact quotient (A3)

    def __repr__(self):
        return f"RealV({self.t})"


class SliceV:
    __slots__ = ("start", "stop", "step")

    def __init__(self, start, stop, step):
        self.start, self.stop, self.step = start, stop, step

    def __repr__(self):
        return f"SliceV({self.start},{self.stop},{self.step})"


class SeqV:
    """tuple/list of ints of symbolic length (axiomatised IntSeq sort)."""

    __slots__ = ("t", "kind")

    def __init__(self, t, kind="tuple"):
        self.t = t
        self.kind = kind

    def __repr__(self):
        return f"SeqV({self.t})"


class TupV:
    """tuple/list with a statically known number of (arbitrary) items."""

    __slots__ = ("items", "kind")

    def __init__(self, items, kind="tuple"):
        self.items = list(items)
        self.kind = kind

    def __repr__(self):
        return f"TupV({self.items})"


class MapV:
    """dict[int -> slice] or dict[int -> int] as z3 arrays."""

    __slots__ = ("has", "f", "payload")

    def __init__(self, has, f, payload):
        self.has = has  # Array Int Bool
        self.f = f  # dict field -> Array
        self.payload = payload  # 'slice' | 'int'

    def get(self, k):
        if self.payload == "int":
            return Opt(False, z3.Select(self.f["v"], k))
        g = lambda nm: z3.Select(self.f[nm], k)
        return SliceV(Opt(g("n0"), g("v0")), Opt(g("n1"), g("v1")), Opt(g("n2"), g("v2")))

    def set(self, k, val):
        k = _i(k)
        if "ite" in k.sexpr() or "If(" in str(k):
            # keep `ite` out of array terms that end up in quantifier patterns
            kk = CTX.fresh("key")
            CTX.defs.append(kk == k, (kk,))
            k = kk
        f = dict(self.f)
        if self.payload == "int":
            f["v"] = z3.Store(f["v"], k, as_int(val))
        else:
            for i, o in enumerate((val.start, val.stop, val.step)):
                f[f"n{i}"] = z3.Store(f[f"n{i}"], k, _b(o.n))
                f[f"v{i}"] = z3.Store(f[f"v{i}"], k, _i(o.v))
        return MapV(z3.Store(self.has, k, z3.BoolVal(True)), f, self.payload)

    @staticmethod
    def empty(payload):
        I, B = z3.IntSort(), z3.BoolSort()
        if payload == "int":
            f = {"v": z3.K(I, z3.IntVal(0))}
        else:
            f = {}
            for i in range(3):
                f[f"n{i}"] = z3.K(I, z3.BoolVal(True))
                f[f"v{i}"] = z3.K(I, z3.IntVal(0))
        return MapV(z3.K(I, z3.BoolVal(False)), f, payload)

    @staticmethod
    def fresh(name, payload):
        I, B = z3.IntSort(), z3.BoolSort()
        if payload == "int":
            f = {"v": z3.Const(f"{name}!v", z3.ArraySort(I, I))}
        else:
            f = {}
            for i in range(3):
                f[f"n{i}"] = z3.Const(f"{name}!n{i}", z3.ArraySort(I, B))
                f[f"v{i}"] = z3.Const(f"{name}!v{i}", z3.ArraySort(I, I))
        return MapV(z3.Const(f"{name}!has", z3.ArraySort(I, B)), f, payload)


class SliceSeqV:
    """list of slices of symbolic length (six arrays indexed by position)"""
    __slots__ = ("n", "a")

    def __init__(self, n, a):
        self.n = n      # z3 Int: length
        self.a = a      # dict n0,v0,n1,v1,n2,v2 -> Array

    def get(self, t):
        g = lambda k: z3.Select(self.a[k], t)
        return SliceV(Opt(g("n0"), g("v0")), Opt(g("n1"), g("v1")), Opt(g("n2"), g("v2")))

    @staticmethod
    def fresh(name, n):
        I, B = z3.IntSort(), z3.BoolSort()
        a = {}
        for i in range(3):
            a[f"n{i}"] = z3.Const(f"{name}!n{i}", z3.ArraySort(I, B))
            a[f"v{i}"] = z3.Const(f"{name}!v{i}", z3.ArraySort(I, I))
        return SliceSeqV(n, a)

    def __repr__(self):
        return f"SliceSeqV(len={self.n})"


class TupSeqV:
    """sequence of symbolic length whose elements are tuples of a fixed arity; every component is a SliceSeqV
    (struct of arrays).  Models e.g. list(product(slices_axis0)) at rank 1."""
    __slots__ = ("n", "comps", "kind")

    def __init__(self, n, comps, kind="list"):
        self.n, self.comps, self.kind = n, comps, kind

    def get(self, t):
        return TupV([c.get(t) for c in self.comps], "tuple")

    def __repr__(self):
        return f"TupSeqV(len={self.n}, arity={len(self.comps)})"


class RowsV:
    """list of symbolic length whose elements are tuples of a fixed arity (struct of arrays: IntSeq terms of one length).
    A logical column is an int (one term), an optional int (`None` flag as 0/1 plus the value) or a unit-step range
    (lower and upper bound).  Models a plan such as [(out_len, offset, b, e), ...] or
    [(start, size, offset, g_or_None, h_or_None, range(lo, hi)), ...]."""
    __slots__ = ("comps", "kind", "kinds")
    WIDTH = {"int": 1, "optint": 2, "range": 2}

    def __init__(self, comps, kind="list", kinds=None):
        self.comps, self.kind = list(comps), kind
        self.kinds = list(kinds) if kinds is not None else ["int"] * len(self.comps)

    @property
    def n(self):
        return f_len(self.comps[0])

    def _logical(self, cells):
        out, k = [], 0
        for kd in self.kinds:
            if kd == "int":
                out.append(Opt(False, cells[k]))
            elif kd == "optint":
                out.append(Opt(cells[k] == 1, cells[k + 1]))
            else:
                out.append(("range", cells[k], cells[k + 1], z3.IntVal(1)))
            k += RowsV.WIDTH[kd]
        return out

    def get(self, t):
        return TupV(self._logical([f_at(c, _i(t)) for c in self.comps]), "tuple")

    def cells_of(self, items):
        """flatten one tuple of logical values into cell terms (None if it does not fit the column kinds)"""
        if len(items) != len(self.kinds):
            return None
        out = []
        for kd, x in zip(self.kinds, items):
            if kd == "int":
                if not isinstance(x, (Opt, BoolV)) or (isinstance(x, Opt) and not x.definite()):
                    return None
                out.append(as_int(x))
            elif kd == "optint":
                if not isinstance(x, Opt):
                    return None
                out += [z3.If(_b(x.n), 1, 0), _i(x.v)]
            else:
                if not (isinstance(x, tuple) and x and x[0] == "range"):
                    return None
                st = z3.simplify(_i(x[3]))
                if not (z3.is_int_value(st) and st.as_long() == 1):
                    return None
                out += [_i(x[1]), _i(x[2])]
        return out

    def col(self, k):
        return SeqV(self.comps[k], "tuple")

    @staticmethod
    def empty(arity, kind="list", kinds=None):
        kinds = list(kinds) if kinds is not None else ["int"] * arity
        return RowsV([c_empty for kd in kinds for _ in range(RowsV.WIDTH[kd])], kind, kinds)

    def __repr__(self):
        return f"RowsV({','.join(self.kinds)})"


class SortedItemsV:
    """sorted(d.items()) of a dict[int -> slice]: the increasing key sequence plus the map"""
    __slots__ = ("m", "keys", "n")

    def __init__(self, m, keys, n):
        self.m, self.keys, self.n = m, keys, n

    def __repr__(self):
        return f"SortedItemsV(len={self.n})"


class StrV:
    """a string: concrete literal (s) or symbolic (t, uninterpreted sort; only == / !=)."""
    __slots__ = ("s", "t")

    def __init__(self, s=None, t=None):
        self.s = s
        self.t = t

    def term(self):
        if self.t is not None:
            return self.t
        return z3.Const("strlit!" + "".join(ch if ch.isalnum() else "_" for ch in str(self.s))[:60] + f"!{abs(hash(self.s)) % 10**8}", StrSort)

    def __repr__(self):
        return f"StrV({self.s!r},{self.t})"


class AbsV:
    """value of an abstract (uninterpreted) sort, e.g. a whole `chunks` tuple-of-tuples."""
    __slots__ = ("t", "sort")

    def __init__(self, t, sort):
        self.t = t
        self.sort = sort

    def __repr__(self):
        return f"AbsV({self.t})"


class NanV:
    """the float NaN used as an 'unknown size' marker."""

    def __repr__(self):
        return "NanV"


class ObjV:
    """opaque record with declared fields."""

    def __init__(self, cls, fields):
        self.cls = cls
        self.fields = dict(fields)
        self.ex = None
        self.base = cls

    def get(self, attr):
        """field as seen by contract code (created on first access from the declared type)."""
        v = self.ex.obj_field(self, attr)
        if isinstance(v, Opt) and v.definite():
            return _i(v.v)
        if isinstance(v, BoolV):
            return v.t
        if isinstance(v, StrV):
            return v.term()
        if isinstance(v, AbsV):
            return v.t
        return v

    def __repr__(self):
        return f"ObjV<{self.cls}>({list(self.fields)})"


SYM_CLASSES = (Opt, BoolV, RealV, SliceV, SeqV, TupV, MapV, ObjV, AbsV, SliceSeqV, SortedItemsV, TupSeqV)


def is_sym(x):
    if isinstance(x, SYM_CLASSES):
        return True
    return z3 is not None and isinstance(x, z3.ExprRef)


def _i(x):
    if isinstance(x, bool):
        return z3.IntVal(int(x))
    if isinstance(x, int):
        return z3.IntVal(x)
    return x


def _b(x):
    if isinstance(x, bool):
        return z3.BoolVal(x)
    return x


def as_int(x):
    """symbolic int term out of Opt / BoolV / python int / z3 term."""
    if isinstance(x, Opt):
        return _i(x.v)
    if isinstance(x, BoolV):
        return z3.If(x.t, 1, 0)
    return _i(x)


# --------------------------------------------------------------------------
# global context for definitional constraints (division witnesses etc.)
# --------------------------------------------------------------------------
class DefList(list):
    """definitional constraints, each with an anchor term: a definition is only
    relevant to an obligation that mentions its anchor."""

    def __init__(self):
        super().__init__()
        self.anchors = []

    def append(self, d, anchor=None):
        super().append(d)
        self.anchors.append(anchor)


class Ctx:
    def __init__(self):
        self.defs = DefList()  # z3 Bool: definitional, always satisfiable
        self.divcache = {}
        self.counter = itertools.count()
        self.hints = []
        self.binders = []

    def fresh(self, base, sort=None):
        n = next(self.counter)
        if getattr(self, "binders", None):
            # inside a comprehension body: a fresh symbol is a function of the element index
            f = z3.Function(f"{base}!{n}", *([z3.IntSort()] * len(self.binders)), sort or z3.IntSort())
            return f(*self.binders)
        return z3.Const(f"{base}!{n}", sort or z3.IntSort())


CTX = Ctx() if z3 is not None else None


def reset_ctx():
    global CTX
    CTX = Ctx()
    return CTX


# --------------------------------------------------------------------------
# logic
# --------------------------------------------------------------------------
def _anysym(xs):
    return any(is_sym(x) for x in xs)


def _t(x):
    """coerce to z3 Bool."""
    if isinstance(x, BoolV):
        return x.t
    if isinstance(x, bool):
        return z3.BoolVal(x)
    return x


def And(*xs):
    if len(xs) == 1 and isinstance(xs[0], (list, tuple)):
        xs = tuple(xs[0])
    if _anysym(xs):
        return z3.And(*[_t(x) for x in xs]) if xs else z3.BoolVal(True)
    return all(xs)


def Or(*xs):
    if len(xs) == 1 and isinstance(xs[0], (list, tuple)):
        xs = tuple(xs[0])
    if _anysym(xs):
        return z3.Or(*[_t(x) for x in xs]) if xs else z3.BoolVal(False)
    return any(xs)


def Not(x):
    if is_sym(x):
        return z3.Not(_t(x))
    return not x


def Implies(a, b):
    if is_sym(a) or is_sym(b):
        return z3.Implies(_t(a), _t(b))
    return (not a) or bool(b)


def Iff(a, b):
    if is_sym(a) or is_sym(b):
        return _t(a) == _t(b)
    return bool(a) == bool(b)


def If(c, a, b):
    if is_sym(c):
        return z3.If(_t(c), _i(a), _i(b))
    return a if c else b


def lazy_implies(a, bfun):
    """Implies whose consequent is only evaluated concretely when a holds."""
    if is_sym(a):
        return z3.Implies(_t(a), _t(bfun()))
    return (not a) or bool(bfun())


# --------------------------------------------------------------------------
# integer arithmetic with Python semantics
# --------------------------------------------------------------------------
def divmod_(a, b):
    """Python floor divmod.  Symbolic divisor => fresh witnesses (never SMT
    div/mod on a symbolic divisor)."""
    if not (is_sym(a) or is_sym(b)):
        return divmod(a, b)
    a, b = _i(a), _i(b)
    if z3.is_int_value(b) and b.as_long() > 0:
        return a / b, a % b  # z3 div/mod: floor for positive divisor
    key = (a.get_id(), b.get_id())
    if key in CTX.divcache:
        return CTX.divcache[key]
    # uninterpreted quotient / remainder *functions* with a ground defining instance per
    # occurrence: congruence then identifies the witnesses of equal operands for free.
    q = f_pydiv(a, b)
    r = f_pymod(a, b)
    CTX.defs.append(z3.Implies(b > 0, z3.And(a == q * b + r, 0 <= r, r < b)), (q, r))
    CTX.defs.append(z3.Implies(b < 0, z3.And(a == q * b + r, b < r, r <= 0)), (q, r))
    CTX.divcache[key] = (q, r)
    return q, r


def mod_shift(y, m, st):
    """pure lemma instance: (y + m*st) % st == y % st   (st != 0)."""
    r1 = mod(y + m * st, st)
    r2 = mod(y, st)
    return Implies(st != 0, r1 == r2)


def mod_small(y, st):
    """pure lemma instance: for st > 0, y % st is y when 0 <= y < st and y + st when -st <= y < 0."""
    r = mod(y, st)
    return Implies(st > 0, And(Implies(And(0 <= y, y < st), r == y), Implies(And(-st <= y, y < 0), r == y + st)))


def div(a, b):
    return divmod_(a, b)[0]


def mod(a, b):
    return divmod_(a, b)[1]


def min_(a, b):
    if is_sym(a) or is_sym(b):
        a, b = _i(a), _i(b)
        return z3.If(b < a, b, a)
    return min(a, b)


def max_(a, b):
    if is_sym(a) or is_sym(b):
        a, b = _i(a), _i(b)
        return z3.If(b > a, b, a)
    return max(a, b)


def abs_(a):
    if is_sym(a):
        return z3.If(a < 0, -a, a)
    return abs(a)


def ceildiv(a, b):
    """ceil(a / b) for b != 0 (mathematical)."""
    return -div(-a, b)


# --------------------------------------------------------------------------
# Optional ints and slices
# --------------------------------------------------------------------------
def is_none(x):
    if isinstance(x, Opt):
        return _b(x.n)
    return x is None


def val(x, default=0):
    """the int of an int-or-None (``default`` when it is None)."""
    if isinstance(x, Opt):
        if x.n is True:
            return _i(default)
        return _i(x.v)
    return default if x is None else x


def parts(s):
    if isinstance(s, SliceV):
        return s.start, s.stop, s.step
    return s.start, s.stop, s.step


def mkslice(a, b, c):
    """build a slice from ints / None (concrete) or Opt / terms (symbolic)."""
    if _anysym((a, b, c)):
        def o(x):
            if isinstance(x, Opt):
                return x
            if x is None:
                return Opt(True, 0)
            return Opt(False, _i(x))
        return SliceV(o(a), o(b), o(c))
    return slice(a, b, c)


def opt_eq(a, b):
    """Python == between two int-or-None values."""
    if isinstance(a, Opt) or isinstance(b, Opt) or is_sym(a) or is_sym(b):
        an, av = (is_none(a), val(a) if not (a is None) else 0)
        bn, bv = (is_none(b), val(b) if not (b is None) else 0)
        an, bn = _b(an), _b(bn)
        return z3.Or(z3.And(an, bn), z3.And(z3.Not(an), z3.Not(bn), _i(av) == _i(bv)))
    return a == b


def slice_eq(s, t):
    if isinstance(s, SliceV) or isinstance(t, SliceV):
        a, b = parts(s), parts(t)
        return z3.And(*[opt_eq(x, y) for x, y in zip(a, b)])
    return s == t


def idx3(s, n):
    """CPython's slice.indices(n) (PySlice_Unpack + PySlice_AdjustIndices).
    Requires step != 0 (else CPython raises ValueError)."""
    if not (isinstance(s, SliceV) or is_sym(n)):
        return s.indices(n)
    a, b, c = parts(s)
    an, av, bn, bv, cn, cv = is_none(a), val(a), is_none(b), val(b), is_none(c), val(c)
    if not isinstance(s, SliceV):
        av = 0 if a is None else a
        bv = 0 if b is None else b
        cv = 0 if c is None else c
    an, bn, cn = _b(an), _b(bn), _b(cn)
    av, bv, cv, n = _i(av), _i(bv), _i(cv), _i(n)
    st = z3.If(cn, 1, cv)
    neg = st < 0
    lower = z3.If(neg, -1, 0)
    upper = z3.If(neg, n - 1, n)

    def adj(isnone, v, default):
        return z3.If(
            isnone,
            default,
            z3.If(v < 0, z3.If(v + n < lower, lower, v + n), z3.If(v > upper, upper, v)),
        )

    lo = adj(an, av, z3.If(neg, upper, lower))
    hi = adj(bn, bv, z3.If(neg, lower, upper))
    return lo, hi, st


def rlen(lo, hi, st):
    """len(range(lo, hi, st)), st != 0."""
    if not _anysym((lo, hi, st)):
        return len(range(lo, hi, st))
    lo, hi, st = _i(lo), _i(hi), _i(st)
    stc = z3.simplify(st)
    if z3.is_int_value(stc):
        c = stc.as_long()
        if c == 1:
            return z3.If(lo < hi, hi - lo, 0)
        if c == -1:
            return z3.If(hi < lo, lo - hi, 0)
        if c > 0:
            return z3.If(lo < hi, (hi - lo - 1) / c + 1, 0)
        if c < 0:
            return z3.If(hi < lo, (lo - hi - 1) / (-c) + 1, 0)
    key = ("rlen", lo.get_id(), hi.get_id(), st.get_id())
    if key in CTX.divcache:
        return CTX.divcache[key]
    # characterisation by a fresh count (definitional: exists and is unique for st != 0);
    # far friendlier to the nonlinear solvers than a quotient witness
    # the count is an uninterpreted *function* of (lo, hi, st) with a ground defining instance per occurrence, so
    # that congruence identifies the counts of equal ranges
    c = f_rlen(lo, hi, st)
    CTX.defs.append(c >= 0, (c,))
    CTX.defs.append(z3.Implies(st > 0, z3.And(
        z3.Implies(lo >= hi, c == 0),
        z3.Implies(lo < hi, z3.And(c >= 1, lo + (c - 1) * st < hi, hi <= lo + c * st)))), (c,))
    CTX.defs.append(z3.Implies(st < 0, z3.And(
        z3.Implies(lo <= hi, c == 0),
        z3.Implies(lo > hi, z3.And(c >= 1, lo + (c - 1) * st > hi, hi >= lo + c * st)))), (c,))
    CTX.divcache[key] = c
    return c


def nsel(s, n):
    return rlen(*idx3(s, n))


def sel(s, n, k):
    lo, hi, st = idx3(s, n)
    return lo + k * st


def step_ok(s):
    """slice step is None or a non-zero int."""
    c = parts(s)[2]
    if isinstance(c, Opt) or is_sym(c):
        return z3.Or(is_none(c), val(c) != 0)
    return c is None or c != 0


# --------------------------------------------------------------------------
# integer sequences
# --------------------------------------------------------------------------
if z3 is not None:
    StrSort = z3.DeclareSort("PyStr")
    ABS_SORTS = {}

    def abs_sort(name):
        if name not in ABS_SORTS:
            ABS_SORTS[name] = z3.DeclareSort("Abs_" + name)
        return ABS_SORTS[name]

    f_rlen = z3.Function("pyrlen", z3.IntSort(), z3.IntSort(), z3.IntSort(), z3.IntSort())
    f_pydiv = z3.Function("pydiv", z3.IntSort(), z3.IntSort(), z3.IntSort())
    f_pymod = z3.Function("pymod", z3.IntSort(), z3.IntSort(), z3.IntSort())
    SeqSort = z3.DeclareSort("IntSeq")
    f_len = z3.Function("iseq_len", SeqSort, z3.IntSort())
    f_at = z3.Function("iseq_at", SeqSort, z3.IntSort(), z3.IntSort())
    f_prefix = z3.Function("iseq_prefix", SeqSort, z3.IntSort(), z3.IntSort())
    f_append = z3.Function("iseq_append", SeqSort, z3.IntSort(), SeqSort)
    f_rev = z3.Function("iseq_rev", SeqSort, SeqSort)
    f_cum = z3.Function("iseq_cumsum", SeqSort, SeqSort)
    f_slice = z3.Function("iseq_sub", SeqSort, z3.IntSort(), z3.IntSort(), SeqSort)
    f_concat = z3.Function("iseq_concat", SeqSort, SeqSort, SeqSort)
    f_update = z3.Function("iseq_update", SeqSort, z3.IntSort(), z3.IntSort(), SeqSort)
    f_rep = z3.Function("iseq_rep", z3.IntSort(), z3.IntSort(), SeqSort)
    c_empty = z3.Const("iseq_empty", SeqSort)

    def seq_axioms():
        s, u = z3.Consts("s u", SeqSort)
        x, i, j, a, b = z3.Ints("x i j a b")
        FA = z3.ForAll
        A, I = z3.And, z3.Implies
        ax = [
            FA([s], f_len(s) >= 0, patterns=[f_len(s)]),
            f_len(c_empty) == 0,
            FA([s], f_prefix(s, 0) == 0, patterns=[f_prefix(s, 0)]),
            # prefix unfolds both ways; triggers on prefix(s,i) with at(s,i) / at(s,i-1)
            FA([s, i], I(A(0 <= i, i < f_len(s)), f_prefix(s, i + 1) == f_prefix(s, i) + f_at(s, i)),
               patterns=[f_prefix(s, i + 1)]),
            FA([s, i], I(A(0 <= i, i < f_len(s)), f_prefix(s, i + 1) == f_prefix(s, i) + f_at(s, i)),
               patterns=[z3.MultiPattern(f_prefix(s, i), f_at(s, i))]),
            # append
            FA([s, x], A(f_len(f_append(s, x)) == f_len(s) + 1, f_at(f_append(s, x), f_len(s)) == x),
               patterns=[f_append(s, x)]),
            FA([s, x, j], I(A(0 <= j, j < f_len(s)), f_at(f_append(s, x), j) == f_at(s, j)),
               patterns=[f_at(f_append(s, x), j)]),
            FA([s, x, j], I(A(0 <= j, j <= f_len(s)), f_prefix(f_append(s, x), j) == f_prefix(s, j)),
               patterns=[f_prefix(f_append(s, x), j)]),
            FA([s, x], f_prefix(f_append(s, x), f_len(s) + 1) == f_prefix(s, f_len(s)) + x,
               patterns=[f_append(s, x)]),
            # reverse
            FA([s], f_len(f_rev(s)) == f_len(s), patterns=[f_rev(s)]),
            FA([s, j], I(A(0 <= j, j < f_len(s)), f_at(f_rev(s), j) == f_at(s, f_len(s) - 1 - j)),
               patterns=[f_at(f_rev(s), j)]),
            FA([s, j], I(A(0 <= j, j <= f_len(s)),
                         f_prefix(f_rev(s), j) == f_prefix(s, f_len(s)) - f_prefix(s, f_len(s) - j)),
               patterns=[f_prefix(f_rev(s), j)]),
            # cumsum (dask.utils.cached_cumsum without initial zero)
            FA([s], f_len(f_cum(s)) == f_len(s), patterns=[f_cum(s)]),
            FA([s, j], I(A(0 <= j, j < f_len(s)), f_at(f_cum(s), j) == f_prefix(s, j + 1)),
               patterns=[f_at(f_cum(s), j)]),
            # constant repetition (c,) * n
            FA([x, a], f_len(f_rep(x, a)) == z3.If(a > 0, a, 0), patterns=[f_rep(x, a)]),
            FA([x, a, j], I(A(0 <= j, j < a), f_at(f_rep(x, a), j) == x), patterns=[f_at(f_rep(x, a), j)]),
            FA([x, a, j], I(A(0 <= j, j <= a), f_prefix(f_rep(x, a), j) == j * x),
               patterns=[f_prefix(f_rep(x, a), j)]),
            # update
            FA([s, i, x], f_len(f_update(s, i, x)) == f_len(s), patterns=[f_update(s, i, x)]),
            FA([s, i, x, j], I(A(0 <= j, j < f_len(s)),
                              f_at(f_update(s, i, x), j) == z3.If(j == i, x, f_at(s, j))),
               patterns=[f_at(f_update(s, i, x), j)]),
            FA([s, i, x, j], I(A(0 <= i, i < f_len(s), 0 <= j, j <= f_len(s)),
                              f_prefix(f_update(s, i, x), j) == f_prefix(s, j) + z3.If(i < j, x - f_at(s, i), 0)),
               patterns=[f_prefix(f_update(s, i, x), j)]),
            # concat
            FA([s, u], f_len(f_concat(s, u)) == f_len(s) + f_len(u), patterns=[f_concat(s, u)]),
            FA([s, u, j], I(A(0 <= j, j < f_len(s) + f_len(u)),
                           f_at(f_concat(s, u), j) == z3.If(j < f_len(s), f_at(s, j), f_at(u, j - f_len(s)))),
               patterns=[f_at(f_concat(s, u), j)]),
            FA([s, u, j], I(A(0 <= j, j <= f_len(s) + f_len(u)),
                           f_prefix(f_concat(s, u), j)
                           == z3.If(j <= f_len(s), f_prefix(s, j), f_prefix(s, f_len(s)) + f_prefix(u, j - f_len(s)))),
               patterns=[f_prefix(f_concat(s, u), j)]),
            # subseq s[a:b] for 0 <= a <= b <= len
            FA([s, a, b], I(A(0 <= a, a <= b, b <= f_len(s)), f_len(f_slice(s, a, b)) == b - a),
               patterns=[f_slice(s, a, b)]),
            FA([s, a, b, j], I(A(0 <= a, a <= b, b <= f_len(s), 0 <= j, j < b - a),
                              f_at(f_slice(s, a, b), j) == f_at(s, a + j)),
               patterns=[f_at(f_slice(s, a, b), j)]),
            FA([s, a, b, j], I(A(0 <= a, a <= b, b <= f_len(s), 0 <= j, j <= b - a),
                              f_prefix(f_slice(s, a, b), j) == f_prefix(s, a + j) - f_prefix(s, a)),
               patterns=[f_prefix(f_slice(s, a, b), j)]),
        ]
        return ax


def item(t, i):
    """i-th item of a fixed-length tuple (symbolic TupV or concrete)."""
    if isinstance(t, TupV):
        v = t.items[i]
        if isinstance(v, Opt) and v.definite():
            return _i(v.v)
        if isinstance(v, BoolV):
            return v.t
        return v
    return t[i]


def slen(t):
    if isinstance(t, SeqV):
        return f_len(t.t)
    if isinstance(t, (SliceSeqV, TupSeqV, RowsV)):
        return t.n
    if isinstance(t, TupV):
        return len(t.items)
    return len(t)


def at(t, i):
    if isinstance(t, SeqV):
        return f_at(t.t, _i(i))
    if isinstance(t, TupV):
        return as_int(t.items[i])
    return t[i]


def elem(t, i):
    """i-th element of a sequence of slices / of tuples (symbolic SliceSeqV, TupSeqV) or of a concrete list"""
    if isinstance(t, (SliceSeqV, TupSeqV)):
        return t.get(_i(i))
    if isinstance(t, RowsV):
        # logical values of row i: ints as terms, optional ints as Opt, ranges as (lo, hi)
        out = []
        for v in t.get(i).items:
            if isinstance(v, Opt) and v.definite():
                out.append(_i(v.v))
            elif isinstance(v, tuple):
                out.append((v[1], v[2]))
            else:
                out.append(v)
        return tuple(out)
    if isinstance(t, TupV):
        return t.items[i]
    return t[i]


def prefix(t, i):
    """t[0] + ... + t[i-1]"""
    if isinstance(t, SeqV):
        return f_prefix(t.t, _i(i))
    if isinstance(t, TupV):
        return sum(as_int(x) for x in t.items[:i]) if i else 0
    return sum(t[:i])


def ssum(t):
    if isinstance(t, SeqV):
        return f_prefix(t.t, f_len(t.t))
    if isinstance(t, TupV):
        return prefix(t, len(t.items))
    return sum(t)


def seq_equal(a, b):
    """tuple equality."""
    if isinstance(a, SeqV) or isinstance(b, SeqV):
        ta, tb = a.t, b.t
        j = z3.Int("j!eq")
        return z3.And(f_len(ta) == f_len(tb),
                      z3.ForAll([j], z3.Implies(z3.And(0 <= j, j < f_len(ta)), f_at(ta, j) == f_at(tb, j)),
                                patterns=[f_at(ta, j), f_at(tb, j)]))
    return tuple(a) == tuple(b)


def pyat(t, i):
    """t[i] of a symbolic int sequence with Python's wrap-around of negative indices: the term the engine builds"""
    n = f_len(t.t)
    i = _i(i)
    return f_at(t.t, z3.If(i < 0, i + n, i))


def pyslice(t, lo, hi):
    """t[lo:hi] (unit step) of a symbolic int sequence with Python's clamping of the bounds -- the very term the engine
    builds for that expression, so that contract hints can talk about it"""
    n = f_len(t.t)
    a, b, _ = idx3(SliceV(lo if isinstance(lo, Opt) else Opt(False, _i(lo)), hi if isinstance(hi, Opt) else Opt(False, _i(hi)),
                          Opt(True, 0)), n)
    b = z3.If(b < a, a, b)
    return SeqV(f_slice(t.t, a, b), t.kind)


def forall_idx(t_or_n, body, name="j"):
    """forall 0 <= j < n : body(j).  n may be a sequence (its length)."""
    n = slen(t_or_n) if isinstance(t_or_n, (SeqV, TupV, tuple, list)) else t_or_n
    if is_sym(n):
        j = z3.Int(f"{name}!b{next(CTX.counter)}")
        b = body(j)
        pats = _guess_patterns(b, j)
        if pats:
            return z3.ForAll([j], z3.Implies(z3.And(0 <= j, j < n), _t(b)), patterns=pats)
        return z3.ForAll([j], z3.Implies(z3.And(0 <= j, j < n), _t(b)))
    return And([body(j) for j in range(n)])


def _guess_patterns(b, j):
    """smallest uninterpreted applications at(s,j) / prefix(s,j) / select(a,j)
    mentioning exactly the bound variable as an argument."""
    found = []
    seen = set()

    def walk(e):
        if e.get_id() in seen:
            return
        seen.add(e.get_id())
        if z3.is_app(e):
            d = e.decl()
            if d.kind() in (z3.Z3_OP_UNINTERPRETED, z3.Z3_OP_SELECT) and e.num_args() > 0:
                if any(a.get_id() == j.get_id() for a in e.children()) and " ite " not in e.sexpr() and "(ite" not in e.sexpr():
                    found.append(e)
            for c in e.children():
                walk(c)

    walk(_t(b))
    # one single-term pattern per distinct head symbol
    out, heads = [], set()
    for e in found:
        h = (e.decl().name(), tuple(c.get_id() for c in e.children()))
        if h not in heads:
            heads.add(h)
            out.append(e)
    return out[:12]


def chunking(t, n=None):
    """t is a tuple of non-negative ints (summing to n if given)."""
    c = forall_idx(t, lambda j: at(t, j) >= 0)
    if n is None:
        return c
    return And(c, ssum(t) == n)


def is_nan(x):
    if isinstance(x, NanV):
        return True
    if is_sym(x):
        return False
    return isinstance(x, float) and x != x


# --------------------------------------------------------------------------
# maps
# --------------------------------------------------------------------------
def mhas(d, k):
    if isinstance(d, MapV):
        return z3.Select(d.has, _i(k))
    return k in d


def mget(d, k):
    if isinstance(d, MapV):
        return d.get(_i(k))
    return d[k]
