"""names of the contract modules (importable without z3)."""
CONTRACT_MODULES = ["slicing", "slicing_l2", "chunks", "rechunk", "transfer", "materialize", "objects_l2", "fromarray", "windows", "blockids", "store", "reductions", "setitem"]
