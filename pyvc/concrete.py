"""Concrete side of the contracts: replay of solver counter-models on the real
function, and the bounded (L2) enumerator.  Runs under /venv/bin/python with
cwd=/repo (or PYTHONPATH=<repo>) so that `dask_array` is the tree under check.

    python -m pyvc.concrete replay  <contract-key> '<json args>'
    python -m pyvc.concrete bounded <contract-key> <tier> <seed>
    python -m pyvc.concrete bounded-many <tier> <seed> <key> <key> ...
"""
from __future__ import annotations

import importlib
import itertools
import json
import math
import os
import sys
import time
import traceback


# ---------------------------------------------------------------- JSON codec
class Rec:
    """a plain record standing in for an expression object when a *fragment* that only reads attributes is run
    concretely: attribute access for the real code, .get(name) for the contract text (as ObjV offers symbolically)"""

    def __init__(self, **kw):
        self.__dict__.update(kw)

    def get(self, k):
        return getattr(self, k)

    def __repr__(self):
        return f"Rec({self.__dict__!r})"


def enc(v):
    if type(v).__name__ == "Rec" and hasattr(v, "get"):  # by name: this module may be loaded both as __main__ and as pyvc.concrete
        return {"__rec__": [[k, enc(x)] for k, x in v.__dict__.items()]}
    if isinstance(v, slice):
        return {"__slice__": [enc(v.start), enc(v.stop), enc(v.step)]}
    if isinstance(v, tuple):
        return {"__tuple__": [enc(x) for x in v]}
    if isinstance(v, list):
        return [enc(x) for x in v]
    if isinstance(v, dict):
        return {"__dict__": [[enc(k), enc(x)] for k, x in v.items()]}
    if isinstance(v, float) and v != v:
        return {"__nan__": 1}
    if isinstance(v, (bool, int, float, str)) or v is None:
        return v
    if type(v).__name__ == "_NS":
        return {"__locals__": [[k, enc(x)] for k, x in v.__dict__.items() if not k.startswith("_") and k != "self"]}
    if type(v).__module__ == "numpy" and hasattr(v, "item") and getattr(v, "shape", None) == ():
        return enc(v.item())
    if type(v).__module__ == "numpy" and hasattr(v, "tolist"):
        return {"__ndarray__": enc(v.tolist())}
    return {"__repr__": repr(v)[:300]}


def dec(v):
    if isinstance(v, dict):
        if "__slice__" in v:
            return slice(*[dec(x) for x in v["__slice__"]])
        if "__tuple__" in v:
            return tuple(dec(x) for x in v["__tuple__"])
        if "__dict__" in v:
            return {dec(k): dec(x) for k, x in v["__dict__"]}
        if "__nan__" in v:
            return math.nan
        if "__rec__" in v:
            return Rec(**{k: dec(x) for k, x in v["__rec__"]})
        if "__ndarray__" in v:
            import numpy as np
            return np.array(dec(v["__ndarray__"]))
        return v
    if isinstance(v, list):
        return [dec(x) for x in v]
    return v


# ---------------------------------------------------------------- real code
def load_contracts():
    from pyvc import verify_names
    from pyvc.contract import REGISTRY
    for m in verify_names.CONTRACT_MODULES:
        importlib.import_module(f"contracts.{m}")
    return REGISTRY


class _NS:
    def __init__(self, d):
        self.__dict__.update(d)


def fragment_function(c):
    """the fragment, extracted mechanically from the real source at run time and executed on given locals"""
    import ast
    import copy as _copy
    repo = os.environ.get("VERIF_REPO_ROOT") or os.getcwd()
    path = os.path.join(repo, c.file)
    if not os.path.exists(path):
        for pth in sys.path:
            if os.path.exists(os.path.join(pth, c.file)):
                path = os.path.join(pth, c.file)
                break
    tree = ast.parse(open(path).read())
    fn = tree
    for part in c.qualname.split("."):
        fn = next(n for n in fn.body if isinstance(n, (ast.FunctionDef, ast.ClassDef)) and n.name == part)
    frag = c.cls.fragment
    first, last = frag["first"].strip(), frag["last"].strip()
    nth = int(frag.get("last_nth", 1))
    first_nth = [int(frag.get("first_nth", 1))]

    def head(st):
        return ast.unparse(st).splitlines()[0].strip()

    def search(body):
        for i, st in enumerate(body):
            if head(st) == first:
                first_nth[0] -= 1
                if first_nth[0] > 0:
                    continue
                seen = 0
                for j in range(i, len(body)):
                    if head(body[j]) == last:
                        seen += 1
                        if seen == nth:
                            return body[i:j + 1]
            for attr in ("body", "orelse", "finalbody"):
                sub = getattr(st, attr, None)
                if isinstance(sub, list) and sub:
                    r = search(sub)
                    if r:
                        return r
        return None

    block = search(fn.body)
    if not block:
        raise RuntimeError("fragment not found")
    # the block becomes the body of a function of the fragment's input locals (so that a `return` inside it is legal);
    # falling off the end hands back the final locals
    tail = ast.parse("return ('__fragment_locals__', locals())").body[0]
    # the block runs as the body of a one-iteration loop, so that a `break` / `continue` taken from an enclosing loop of the
    # real function is legal here; `fragment_broke` tells the contract which way the block was left
    wrapper = ast.parse("fragment_broke = True\nfor __once__ in (0,):\n    pass\n    fragment_broke = False").body
    wrapper[1].body = [_copy.deepcopy(s) for s in block] + [wrapper[1].body[1]]
    fdef = ast.FunctionDef(name="__fragment__", args=ast.arguments(posonlyargs=[], args=[ast.arg(arg=a) for a in c.params],
                                                                     kwonlyargs=[], kw_defaults=[], defaults=[]),
                           body=wrapper + [tail], decorator_list=[], type_params=[])
    mod = ast.Module(body=[fdef], type_ignores=[])
    ast.fix_missing_locations(mod)
    code = compile(mod, f"<fragment of {c.target}>", "exec")
    modname = c.file[:-3].replace("/", ".")
    glob = dict(importlib.import_module(modname).__dict__)
    exec(code, glob)
    frag = glob["__fragment__"]

    def run(**locals_):
        r = frag(**locals_)
        if isinstance(r, tuple) and len(r) == 2 and r[0] == "__fragment_locals__":
            return _NS(r[1])
        return r

    return run


def nested_function(c):
    """a nested function (`outer.<locals>.inner`), extracted mechanically from the real source at run time and compiled
    in the globals of its module.  Only for nested functions that do not read variables of the enclosing function
    (checked: every free name must resolve in the module or the builtins)."""
    import ast
    import builtins as _b
    import copy as _copy
    repo = os.environ.get("VERIF_REPO_ROOT") or os.getcwd()
    path = os.path.join(repo, c.file)
    if not os.path.exists(path):
        for pth in sys.path:
            if os.path.exists(os.path.join(pth, c.file)):
                path = os.path.join(pth, c.file)
                break
    node = ast.parse(open(path).read())
    for part in c.qualname.split("."):
        if part == "<locals>":
            continue
        found = None
        for n in ast.walk(node):
            if n is not node and isinstance(n, (ast.FunctionDef, ast.ClassDef)) and n.name == part:
                found = n
                break
        if found is None:
            raise RuntimeError(f"{part} not found in {c.file}")
        node = found
    fdef = _copy.deepcopy(node)
    fdef.decorator_list = []
    mod = ast.Module(body=[fdef], type_ignores=[])
    ast.fix_missing_locations(mod)
    code = compile(mod, f"<nested {c.target}>", "exec")
    modname = c.file[:-3].replace("/", ".")
    glob = dict(importlib.import_module(modname).__dict__)
    exec(code, glob)
    fn = glob[fdef.name]
    free = [n for n in fn.__code__.co_names if n not in glob and not hasattr(_b, n)]
    assigned = set(fn.__code__.co_varnames)
    free = [n for n in free if n not in assigned and not any(
        isinstance(a, ast.Attribute) and a.attr == n for a in ast.walk(fdef))]
    if free:
        raise RuntimeError(f"nested function {c.qualname} reads enclosing-scope names {free}: not extractable")
    return fn


def real_function(c):
    hook = getattr(c.cls, "real", None)
    if hook is not None:
        return hook()
    if getattr(c.cls, "fragment", None):
        return fragment_function(c)
    if "<locals>" in c.qualname:
        return nested_function(c)
    modname = c.file[:-3].replace("/", ".")
    mod = importlib.import_module(modname)
    obj = mod
    for part in c.qualname.split("."):
        if part == "<locals>":
            raise RuntimeError("nested function has no importable name")
        obj = getattr(obj, part)
    if isinstance(obj, property):
        obj = obj.fget
    if hasattr(obj, "func") and obj.__class__.__name__ == "cached_property":
        obj = obj.func
    return obj


def ghost_assignments(c, args):
    if not c.ghosts:
        return [{}]
    if c.ghost_domain is None:
        dom = {g: range(-3, 12) for g in c.ghosts}
    else:
        dom = c.ghost_domain(**args)
    names = list(c.ghosts)
    return [dict(zip(names, vals)) for vals in itertools.product(*[list(dom[g]) for g in names])]


def copy_args(args):
    import copy
    return {k: copy.deepcopy(v) for k, v in args.items()}


def check_concrete(c, args, fn=None):
    """-> dict(status=..., ...).  status in: pre-false, ok, violation"""
    try:
        pre = True if c.requires is None else bool(_and(c.requires(**args)))
    except Exception as e:  # a requires clause that cannot be evaluated is a checker error
        return {"status": "error", "what": f"requires raised {type(e).__name__}: {e}"}
    if not pre:
        return {"status": "pre-false"}
    fn = fn or real_function(c)
    call_args = copy_args(args)
    adapt = getattr(c.cls, "call", None)
    try:
        if adapt is not None:
            result = adapt(fn, **call_args)
        else:
            result = fn(**call_args)
    except Exception as e:
        name = type(e).__name__
        if name in c.raises:
            cond = c.raises[name]
            ok = True if cond is None else bool(_and(cond(**args)))
            if ok:
                return {"status": "ok", "raised": name}
            return {"status": "violation", "clause": f"raise:{name}", "observed": f"raised {name}: {e}",
                    "expected": "the contract permits this exception only under its stated condition, which is false here"}
        return {"status": "violation", "clause": f"raise:{name}", "observed": f"raised {name}: {e}",
                "expected": "no exception of this type is permitted by the contract",
                "traceback": traceback.format_exc()[-1500:]}
    norm = getattr(c.cls, "normalize_result", None)
    if norm is not None:
        result = norm(result)
    if c.ensures is None:
        return {"status": "ok"}
    for g in ghost_assignments(c, args):
        try:
            r = c.ensures(result=result, **args, **g)
        except Exception as e:
            return {"status": "error", "what": f"evaluating the postcondition on result {result!r} (ghosts {g}) raised "
                                               f"{type(e).__name__}: {e}"}
        if not isinstance(r, dict):
            r = {"post": r}
        failed = [name for name, v in r.items() if not bool(_and(v))]
        if failed:
            return {"status": "violation", "clause": f"post:{failed[0]}", "all_clauses": [f"post:{n}" for n in failed], "ghosts": g,
                    "observed": enc(result), "expected": f"postcondition clause(s) {failed} of {c.key}"}
    return {"status": "ok", "result": enc(result)}


def _and(v):
    if isinstance(v, (list, tuple)):
        return all(_and(x) for x in v)
    return v


# ---------------------------------------------------------------- bounded runner
def run_bounded(c, tier, seed, limit_s=None):
    import random
    rng = random.Random(seed)
    t0 = time.time()
    fn = real_function(c)
    n = npre = 0
    distinct = set()
    samples = []
    violations = []
    per_clause = {}
    if c.domain is None:
        return {"key": c.key, "error": "no domain declared"}
    for args in c.domain(tier, rng):
        n += 1
        r = check_concrete(c, args, fn)
        if r["status"] == "pre-false":
            continue
        if r["status"] == "error":
            return {"key": c.key, "error": r["what"], "args": enc(args)}
        npre += 1
        key = json.dumps(enc(args), sort_keys=True)
        distinct.add(hash(key))
        if len(samples) < 3 or (npre % 9973 == 0 and len(samples) < 8):
            samples.append({"args": enc(args), "outcome": r.get("raised") or r.get("result")})
        if r["status"] == "violation":
            r["args"] = enc(args)
            for cl in r.get("all_clauses") or [r.get("clause")]:
                per_clause[cl] = per_clause.get(cl, 0) + 1
                if per_clause[cl] <= 5:
                    v = dict(r)
                    v["clause"] = cl
                    violations.append(v)
            if len(per_clause) > 20:
                break
        if limit_s and time.time() - t0 > limit_s:
            break
    return {"key": c.key, "evaluations": n, "pre_true": npre, "distinct": len(distinct), "samples": samples,
            "violations": violations, "violations_per_clause": per_clause, "wall_s": round(time.time() - t0, 2), "scope": getattr(c.cls, "scope", "")}


def main(argv):
    sys.path.insert(0, os.path.dirname(os.path.dirname(os.path.abspath(__file__))))
    reg = load_contracts()
    cmd = argv[1]
    if cmd == "replay":
        c = reg[argv[2]]
        args = dec(json.loads(argv[3]))
        r = check_concrete(c, args)
        print(json.dumps(r))
        return 0
    if cmd == "replay-many":
        items = json.loads(sys.stdin.read())
        out = []
        for key, a in items:
            try:
                out.append(check_concrete(reg[key], dec(a)))
            except Exception as e:
                out.append({"status": "error", "what": f"{type(e).__name__}: {e}"})
        print(json.dumps(out))
        return 0
    if cmd == "bounded":
        c = reg[argv[2]]
        print(json.dumps(run_bounded(c, argv[3], int(argv[4]))))
        return 0
    raise SystemExit("unknown command")


if __name__ == "__main__":
    sys.exit(main(sys.argv))
