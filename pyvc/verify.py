"""Generate and discharge the obligations of a set of units."""
from __future__ import annotations

import importlib
import os
import sys
import time
import traceback

import z3

from . import spec as S
from . import engine as E
from . import discharge as D
from .contract import REGISTRY

from .verify_names import CONTRACT_MODULES


def load_contracts():
    here = os.path.dirname(os.path.dirname(os.path.abspath(__file__)))
    if here not in sys.path:
        sys.path.insert(0, here)
    for m in CONTRACT_MODULES:
        importlib.import_module(f"contracts.{m}")
    return REGISTRY


def param_consts(ex):
    """z3 constant names of the unit's parameters and ghosts (for get-value)."""
    names = []

    def walk(v):
        if isinstance(v, E.Opt):
            for t in (v.n, v.v):
                if isinstance(t, z3.ExprRef) and z3.is_const(t) and t.decl().kind() == z3.Z3_OP_UNINTERPRETED:
                    names.append(t)
        elif isinstance(v, E.BoolV):
            if z3.is_const(v.t) and v.t.decl().kind() == z3.Z3_OP_UNINTERPRETED:
                names.append(v.t)
        elif isinstance(v, E.SliceV):
            for o in (v.start, v.stop, v.step):
                walk(o)
        elif isinstance(v, E.TupV):
            for o in v.items:
                walk(o)
        elif isinstance(v, E.ObjV):
            for o in v.fields.values():
                walk(o)

    for v in list(ex.params.values()) + list(ex.ghosts.values()):
        walk(v)
    return names


def gen_unit(contract, repo):
    """-> (Exec, obligations, error)"""
    try:
        unit = E.Unit(contract, repo)
        ex = E.Exec(unit, repo)
        obls = ex.run()
        return ex, obls, None
    except E.Unsupported as e:
        return None, [], f"UNSUPPORTED {contract.key}: {e}"
    except Exception as e:  # engine crash: never a verdict
        return None, [], f"ENGINE-ERROR {contract.key}: {e}\n{traceback.format_exc()}"


def sexpr_name(t):
    return t.sexpr()


def verify_units(contracts, repo, outdir, timeouts=(10, 20, 40), workers=16, verbose=False, group=None):
    results = []
    work = []
    t0 = time.time()
    for c in contracts:
        if c.trusted or c.bounded_only:
            results.append({"contract": c, "ex": None, "obls": [], "error": None, "skipped": True})
            continue
        ex, obls, err = gen_unit(c, repo)
        rec = {"contract": c, "ex": ex, "obls": obls, "error": err, "skipped": False}
        results.append(rec)
        if err:
            continue
        vals = [sexpr_name(t) for t in param_consts(ex)]
        defs = ex.ctx.defs
        # vacuity canary: requires must be satisfiable (expect sat/unknown, never unsat)
        canary = E.Obligation(ex.unit, "canary", "requires-satisfiable", unit_line(ex), [ex.pre], z3.BoolVal(False),
                              expect_sat=True)
        rec["canary"] = canary
        work.append((canary, D.to_smt2(canary, defs, vals)))
        if group:
            obls[:] = [o for o in obls if group in o.group]
        for o in obls:
            work.append((o, D.to_smt2(o, defs, vals)))
    # proofs of the prelude lemmas the units relied on (induction schema)
    used = set()
    for rec in results:
        if rec.get("ex") is not None:
            used.update(getattr(rec["ex"], "lemmas_used", []))
    if used:
        from . import lemmas as L
        lem_obls = []
        for name in sorted(used):
            # a lemma's proof may use earlier lemmas: discharge all of them
            for kind, lname, hyps, goal in L.LEMMAS[name][1]():
                o = E.Obligation(_LemmaUnit, kind, lname, 0, hyps, goal)
                lem_obls.append(o)
                work.append((o, D.to_smt2(o, [], [])))
        if "cum_sorted" in used and "mono_prefix" not in used:
            for kind, lname, hyps, goal in L.LEMMAS["mono_prefix"][1]():
                o = E.Obligation(_LemmaUnit, kind, lname, 0, hyps, goal)
                lem_obls.append(o)
                work.append((o, D.to_smt2(o, [], [])))
        results.append({"contract": _LemmaUnit.contract, "ex": _LemmaEx(len(lem_obls)), "obls": lem_obls, "error": None,
                        "skipped": False, "canary": None})
    gen_s = time.time() - t0
    t1 = time.time()
    D.discharge_all(work, outdir, timeouts=timeouts, workers=workers)
    return results, {"gen_s": gen_s, "solve_s": time.time() - t1}


class _LC:
    key = "pyvc/lemmas.py::prelude"
    name = "prelude"
    target = "pyvc/lemmas.py::prelude"
    props = []
    trusted = False
    bounded_only = False
    note = "prelude lemmas proved by the induction schema"
    domain = None


class _LemmaUnit:
    contract = _LC


class _LemmaEx:
    def __init__(self, n):
        self.paths = n
        self.called = set()
        self.dropped = []


def unit_line(ex):
    return ex.unit.fn.lineno


class NotConcretizable(Exception):
    pass


def concretize(ex, model):
    """solver model -> concrete Python arguments of the unit (or raise)."""
    def name(t):
        return t.sexpr().strip("|")

    def conc(v):
        if isinstance(v, E.Opt):
            n = v.n
            if isinstance(n, z3.ExprRef):
                n = z3.simplify(n)
                if z3.is_true(n):
                    n = True
                elif z3.is_false(n):
                    n = False
                elif z3.is_const(n):
                    n = bool(model.get(name(n), False))
                else:
                    raise NotConcretizable(str(n))
            if n:
                return None
            t = S._i(v.v)
            t = z3.simplify(t)
            if z3.is_int_value(t):
                return t.as_long()
            if z3.is_const(t):
                return int(model.get(name(t), 0))
            raise NotConcretizable(str(t))
        if isinstance(v, E.BoolV):
            t = z3.simplify(v.t)
            if z3.is_true(t):
                return True
            if z3.is_false(t):
                return False
            return bool(model.get(name(t), False))
        if isinstance(v, E.SliceV):
            return slice(conc(v.start), conc(v.stop), conc(v.step))
        if isinstance(v, E.TupV):
            xs = [conc(x) for x in v.items]
            return tuple(xs) if v.kind == "tuple" else xs
        if isinstance(v, E.NanV):
            return float("nan")
        if isinstance(v, E.StrV):
            return v.s
        if isinstance(v, E.ObjV):
            # an opaque record becomes a plain record of the fields the unit looked at; only a contract with a `call`
            # adapter knows how to turn that into a real object -- without one the model cannot be replayed (a crash of
            # the real function on a stand-in record would say nothing about the code)
            if getattr(ex.c.cls, "call", None) is None:
                raise NotConcretizable("record parameter and no call adapter")
            from .concrete import Rec
            return Rec(**{k: conc(x) for k, x in v.fields.items() if not (k.startswith("__") and not k.startswith("__isinstance_"))})
        raise NotConcretizable(repr(v))

    args = {k: conc(v) for k, v in ex.params.items()}
    ghosts = {}
    for k, v in ex.ghosts.items():
        try:
            ghosts[k] = conc(v)
        except NotConcretizable:
            pass
    return args, ghosts
