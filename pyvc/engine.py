"""pyvc engine: verification-condition generation for a Python subset, run on
the real source of /repo (AST read from the working tree on every run).

Forward symbolic execution with path splitting; `if` joins are merged into
If-terms when both arms fall through; loops are cut at sidecar invariants;
calls to functions under contract are replaced by their contracts.
"""
from __future__ import annotations

import ast
import os
import time
import z3

from . import spec as S
from .spec import Opt, BoolV, RealV, SliceV, SeqV, TupV, MapV, StrV, NanV, ObjV, AbsV, SliceSeqV, SortedItemsV, TupSeqV, RowsV
from .contract import Contract, REGISTRY, for_function


class Unsupported(Exception):
    pass


class PathEnd(Exception):
    pass


class RaisedInExpr(Exception):
    """an expression certainly raises on this path (the raising outcome has been queued as a pending raise): the enclosing
    statement has no normal outcome"""


def I(t):
    return Opt(False, S._i(t))


NONE = Opt(True, 0)


class Obligation:
    __slots__ = ("group", "kind", "clause", "path", "line", "hyps", "goal", "unit", "status",
                 "solver", "time", "model", "smt2", "note", "expect_sat")

    def __init__(self, unit, kind, clause, line, hyps, goal, note="", expect_sat=False):
        self.unit = unit
        self.kind = kind
        self.clause = clause
        self.line = line
        self.hyps = list(hyps)
        self.goal = goal
        self.group = f"{unit.contract.key}::{kind}:{clause}"
        self.status = None
        self.solver = None
        self.time = 0.0
        self.model = None
        self.note = note
        self.expect_sat = expect_sat
        self.path = None


class State:
    __slots__ = ("env", "pc", "trail")

    def __init__(self, env=None, pc=None, trail=None):
        self.env = env if env is not None else {}
        self.pc = pc if pc is not None else []
        self.trail = trail if trail is not None else []

    def copy(self):
        return State(dict(self.env), list(self.pc), list(self.trail))


class NS:
    """attribute view of an environment for invariants / hints."""

    def __init__(self, env, fallback=None):
        object.__setattr__(self, "_env", env)
        object.__setattr__(self, "_fb", fallback or {})

    def __getattr__(self, k):
        env = object.__getattribute__(self, "_env")
        if k not in env:
            fb = object.__getattribute__(self, "_fb")
            if k in fb:
                return unwrap(fb[k])
            raise AttributeError(f"no variable {k!r} at this point; have {sorted(env)}")
        return unwrap(env[k])

    def __contains__(self, k):
        return k in object.__getattribute__(self, "_env")


def wrap_any(v):
    try:
        return wrap(v)
    except Unsupported:
        return v


def unwrap(v):
    """value as seen by contract code: definite ints as raw z3 terms."""
    if isinstance(v, FragResult):
        return v
    if isinstance(v, Opt) and v.definite():
        return S._i(v.v)
    if isinstance(v, BoolV):
        return v.t
    if isinstance(v, RealV):
        return v.t
    return v


def wrap(v):
    """contract-level value back into an engine value."""
    if isinstance(v, (Opt, BoolV, RealV, SliceV, SeqV, TupV, MapV, StrV, NanV, ObjV, AbsV, SliceSeqV, SortedItemsV, TupSeqV, RowsV)):
        return v
    if v is None:
        return NONE
    if isinstance(v, bool):
        return BoolV(z3.BoolVal(v))
    if isinstance(v, int):
        return I(v)
    if isinstance(v, z3.BoolRef):
        return BoolV(v)
    if isinstance(v, z3.ArithRef):
        return RealV(v) if v.is_real() else I(v)
    if isinstance(v, (tuple, list)):
        return TupV([wrap(x) for x in v], "tuple" if isinstance(v, tuple) else "list")
    if isinstance(v, slice):
        return SliceV(wrap(v.start), wrap(v.stop), wrap(v.step))
    if isinstance(v, str):
        return StrV(v)
    raise Unsupported(f"cannot wrap {v!r}")


# ---------------------------------------------------------------------------
# module information
# ---------------------------------------------------------------------------
class ModInfo:
    def __init__(self, repo, relpath):
        self.repo = repo
        self.relpath = relpath
        self.path = os.path.join(repo, relpath)
        with open(self.path) as f:
            self.src = f.read()
        self.tree = ast.parse(self.src)
        self.funcs = {}
        self.consts = {}
        self.imports = {}  # local name -> dotted origin
        self._index(self.tree.body, "")

    def _index(self, body, prefix):
        for node in body:
            if isinstance(node, (ast.FunctionDef, ast.AsyncFunctionDef)):
                self.funcs[prefix + node.name] = node
                self._index_nested(node, prefix + node.name + ".<locals>.")
            elif isinstance(node, ast.ClassDef):
                self._index(node.body, prefix + node.name + ".")
            elif isinstance(node, ast.Assign) and prefix == "":
                if len(node.targets) == 1 and isinstance(node.targets[0], ast.Name):
                    self.consts[node.targets[0].id] = node.value
            elif isinstance(node, ast.Import) and prefix == "":
                for a in node.names:
                    self.imports[a.asname or a.name.split(".")[0]] = a.name if a.asname else a.name.split(".")[0]
            elif isinstance(node, ast.ImportFrom) and prefix == "":
                for a in node.names:
                    self.imports[a.asname or a.name] = f"{node.module}.{a.name}"

    def _index_nested(self, fn, prefix):
        for node in ast.walk(fn):
            if node is fn:
                continue
            if isinstance(node, ast.FunctionDef):
                self.funcs.setdefault(prefix + node.name, node)


_MODCACHE = {}


def modinfo(repo, relpath):
    k = (repo, relpath)
    if k not in _MODCACHE:
        _MODCACHE[k] = ModInfo(repo, relpath)
    return _MODCACHE[k]


class Unit:
    def __init__(self, contract, repo):
        self.contract = contract
        self.mod = modinfo(repo, contract.file)
        if contract.qualname not in self.mod.funcs:
            raise Unsupported(f"function {contract.qualname} not found in {contract.file}")
        self.fn = self.mod.funcs[contract.qualname]


# ---------------------------------------------------------------------------
# executor
# ---------------------------------------------------------------------------
class Exec:
    def __init__(self, unit, repo, prune=True):
        self.unit = unit
        self.repo = repo
        self.c = unit.contract
        self.mod = unit.mod
        self.obls = []
        self.guards = []
        self.loopcount = {"for": 0, "while": 0}
        self.loopids = {}
        self.prune = prune
        self.paths = 0
        self.dropped = []
        self.trusted_calls = set()
        self.called = set()
        self.ctx = S.reset_ctx()
        self.params = {}
        self.ghosts = {}
        self.nfresh = 0
        self.lemmas_used = []
        self.covered = set()
        self.call_log = []
        self.local_imports = {}
        self.havocked = set()
        self.havoc_map = {ast.unparse(ast.parse(k, mode="eval").body): v
                          for k, v in (getattr(self.c.cls, "havoc", None) or {}).items()}
        self.assumed = set()
        self.unsupported = []
        self._prune_solver = None

    # -- helpers ------------------------------------------------------------
    def fresh_int(self, base):
        self.nfresh += 1
        return z3.Int(f"{base}!{self.nfresh}")

    def fresh_bool(self, base):
        self.nfresh += 1
        return z3.Bool(f"{base}!{self.nfresh}")

    def fresh_value(self, ty, base, consts=None):
        """a fresh symbolic value of a declared type."""
        ty = ty.strip()
        if ty == "int":
            return I(self.fresh_int(base))
        if ty == "optint":
            return Opt(self.fresh_bool(base + "?"), self.fresh_int(base))
        if ty == "none":
            return NONE
        if ty == "bool":
            return BoolV(self.fresh_bool(base))
        if ty == "real":
            self.nfresh += 1
            return RealV(z3.Real(f"{base}!{self.nfresh}"))
        if ty == "slice":
            return SliceV(self.fresh_value("optint", base + ".start"),
                          self.fresh_value("optint", base + ".stop"),
                          self.fresh_value("optint", base + ".step"))
        if ty in ("seq", "lseq"):
            self.nfresh += 1
            return SeqV(z3.Const(f"{base}!{self.nfresh}", S.SeqSort), "tuple" if ty == "seq" else "list")
        if ty.startswith("map:"):
            self.nfresh += 1
            return MapV.fresh(f"{base}!{self.nfresh}", ty[4:])
        if ty == "sliceseq" or ty.startswith("tupseq:"):
            # the length is the length of an otherwise unused IntSeq constant, hence non-negative by the prelude
            self.nfresh += 1
            n = S.f_len(z3.Const(f"{base}.len!{self.nfresh}", S.SeqSort))
            if ty == "sliceseq":
                return SliceSeqV.fresh(f"{base}!{self.nfresh}", n)
            comps = []
            for i, t in enumerate(split_types(ty[7:])):
                if t != "slice":
                    raise Unsupported(f"tupseq component {t!r}")
                comps.append(SliceSeqV.fresh(f"{base}.{i}!{self.nfresh}", n))
            return TupSeqV(n, comps)
        if ty.startswith("rows:"):
            return self.fresh_rows(rows_kinds(ty), base)
        if ty == "nan":
            return NanV()
        if ty == "str":
            self.nfresh += 1
            return StrV(None, z3.Const(f"{base}!{self.nfresh}", S.StrSort))
        if ty.startswith("abs:"):
            self.nfresh += 1
            return AbsV(z3.Const(f"{base}!{self.nfresh}", S.abs_sort(ty[4:])), ty[4:])
        if ty.startswith("tup:"):
            items = [self.fresh_value(t, f"{base}.{i}", consts) for i, t in enumerate(split_types(ty[4:]))]
            return TupV(items, "tuple")
        if ty.startswith("list:"):
            items = [self.fresh_value(t, f"{base}.{i}", consts) for i, t in enumerate(split_types(ty[5:]))]
            return TupV(items, "list")
        if ty == "const":
            return wrap((consts or self.c.consts)[base])
        if ty.startswith("obj:"):
            cls = ty[4:]
            o = ObjV(cls, {})
            o.base = base
            o.ex = self
            return o
        raise Unsupported(f"unknown type {ty!r}")

    def fresh_rows(self, kinds, base, kind="list"):
        comps = []
        for i in range(sum(RowsV.WIDTH[k] for k in kinds)):
            self.nfresh += 1
            c = z3.Const(f"{base}.{i}!{self.nfresh}", S.SeqSort)
            if comps:
                # all columns have one length: a definitional fact attached to the column's own term
                self.ctx.defs.append(S.f_len(c) == S.f_len(comps[0]), (c,))
            comps.append(c)
        return RowsV(comps, kind, kinds)

    def havoc_like(self, v, base):
        if isinstance(v, RowsV):
            return self.fresh_rows(v.kinds, base, v.kind)
        if isinstance(v, Opt):
            if v.definite():
                return I(self.fresh_int(base))
            return Opt(self.fresh_bool(base + "?"), self.fresh_int(base))
        if isinstance(v, BoolV):
            return BoolV(self.fresh_bool(base))
        if isinstance(v, RealV):
            self.nfresh += 1
            return RealV(z3.Real(f"{base}!{self.nfresh}"))
        if isinstance(v, SliceV):
            return SliceV(*[self.havoc_like(x, base) for x in (v.start, v.stop, v.step)])
        if isinstance(v, SeqV):
            self.nfresh += 1
            return SeqV(z3.Const(f"{base}!{self.nfresh}", S.SeqSort), v.kind)
        if isinstance(v, MapV):
            self.nfresh += 1
            return MapV.fresh(f"{base}!{self.nfresh}", v.payload)
        if isinstance(v, TupV):
            return TupV([self.havoc_like(x, f"{base}.{i}") for i, x in enumerate(v.items)], v.kind)
        if isinstance(v, StrV):
            self.nfresh += 1
            return StrV(None, z3.Const(f"{base}!{self.nfresh}", S.StrSort))
        if isinstance(v, AbsV):
            self.nfresh += 1
            return AbsV(z3.Const(f"{base}!{self.nfresh}", S.abs_sort(v.sort)), v.sort)
        if isinstance(v, ObjV):
            o = ObjV(v.cls, {})
            self.nfresh += 1
            o.base = f"{base}!{self.nfresh}"
            o.ex = self
            return o
        raise Unsupported(f"cannot havoc {v!r}")

    def hyps(self, st):
        return list(st.pc) + list(self.guards)

    def oblige(self, st, kind, clause, goal, line, note=""):
        goal = S._t(goal)
        if z3.is_true(goal) and kind != "post":
            return
        o = Obligation(self.unit, kind, clause, line, self.hyps(st), goal, note)
        o.path = list(st.trail)
        self.obls.append(o)

    def feasible(self, st, extra=None):
        """cheap path pruning: only the quantifier-free part of the path condition,
        no definitional (nonlinear) constraints, tiny timeout.  `unsat` prunes;
        anything else keeps the path (its obligations are then trivially true if
        the path is in fact infeasible)."""
        if not self.prune:
            return True
        s = z3.Solver()
        s.set("timeout", 80)
        for h in st.pc:
            if not _has_quantifier(h):
                s.add(h)
        if extra is not None:
            s.add(extra)
        r = s.check()
        return r != z3.unsat

    def decides(self, st, cond):
        """True / False when the path condition (quantified facts included) entails cond / its negation, else None.
        Only `unsat` answers are used, within a short budget."""
        for want, c in ((True, z3.Not(cond)), (False, cond)):
            sv = z3.Solver()
            sv.set("timeout", 1500)
            for h in st.pc:
                sv.add(h)
            for g in self.guards:
                sv.add(g)
            sv.add(c)
            if sv.check() == z3.unsat:
                return want
        return None

    # -- top level ----------------------------------------------------------
    def run(self):
        c = self.c
        fn = self.unit.fn
        st = State()
        argnames = [a.arg for a in fn.args.args]
        if getattr(c.cls, "fragment", None):
            argnames = list(c.params)  # a fragment's inputs are the local variables it reads
        if argnames and argnames[0] == "self" and "self" not in c.params:
            raise Unsupported("method without a declared 'self' parameter")
        defaults = dict(zip(argnames[len(argnames) - len(fn.args.defaults):], fn.args.defaults))
        for a in argnames:
            if a in c.params:
                v = self.fresh_value(c.params[a], a)
            elif a in defaults:
                v = self.eval(defaults[a], st)
            else:
                raise Unsupported(f"parameter {a!r} has no declared type in contract {c.key}")
            st.env[a] = v
            if a in c.params:
                self.params[a] = v
        for g, ty in c.ghosts.items():
            self.ghosts[g] = self.fresh_value(ty, "ghost_" + g)
        pre = self.eval_requires(c, self.params)
        # conjuncts separately: the quantifier-free ones then take part in cheap path pruning
        st.pc.extend(_conjuncts(pre))
        self.pre = pre
        facts = getattr(c.cls, "facts", None)
        if facts is not None:
            from . import lemmas as L
            for lname, arg in facts(**{k: unwrap(v) for k, v in self.params.items()}):
                if lname not in L.LEMMAS:
                    raise Unsupported(f"unknown lemma {lname}")
                st.pc.append(L.LEMMAS[lname][0](arg.t if isinstance(arg, SeqV) else arg))
                self.lemmas_used.append(lname)
        body = fn.body
        if body and isinstance(body[0], ast.Expr) and isinstance(getattr(body[0], "value", None), ast.Constant) \
                and isinstance(body[0].value.value, str):
            body = body[1:]
        frag = getattr(c.cls, "fragment", None)
        if frag:
            # a contiguous block of statements of the real function, located mechanically by the source text of its
            # first and last statements; everything outside the block is NOT verified by this unit (stated in evidence)
            body = find_fragment(fn, frag)
            self.fragment_lines = (body[0].lineno, getattr(body[-1], "end_lineno", body[-1].lineno))
            for g in self.ghosts:
                pass
        for kind, st2, payload in self.exec_block(body, st):
            if frag and kind in ("fall", "continue", "break"):
                # a fragment taken from a loop body may leave through `break` / `continue`: these are exits of the fragment
                # like falling off its end; the contract sees which one through the ghost local `fragment_broke`
                st2.env["fragment_broke"] = BoolV(z3.BoolVal(kind != "fall"))
                kind, payload = "return", (FragResult(dict(st2.env)), getattr(body[-1], "end_lineno", body[-1].lineno))
            self.finish(kind, st2, payload, fn)
        table = getattr(c.cls, "after", None)
        if table:
            missing = [k for k in table if k not in getattr(self, "_after_seen", set())]
            if missing:
                raise Unsupported(f"statements named by the contract's ghost code are not in the function (any more): {missing}")
        return self.obls

    def eval_requires(self, c, params):
        if c.requires is None:
            return z3.BoolVal(True)
        return S._t(S.And(c.requires(**{k: unwrap(v) for k, v in params.items()})))

    def ensures_clauses(self, c, params, result, ghosts):
        if c.ensures is None:
            return {}
        kw = {k: unwrap(v) for k, v in params.items()}
        kw.update({k: unwrap(v) for k, v in ghosts.items()})
        import inspect
        if c is self.c and "env" in inspect.signature(c.ensures).parameters:
            kw["env"] = FragResult(dict(getattr(self, "_final_env", {})))
            kw["calls"] = list(self.call_log)
        if "result" in kw:
            kw["result_arg"] = kw.pop("result")  # a parameter of the real function that is itself called `result`
        r = c.ensures(result=unwrap(result), **kw)
        if not isinstance(r, dict):
            r = {"post": r}
        return {k: S._t(S.And(v) if isinstance(v, (list, tuple)) else v) for k, v in r.items()}

    def finish(self, kind, st, payload, fn):
        self.paths += 1
        c = self.c
        if kind == "fall":
            kind, payload = "return", (NONE, getattr(fn, "end_lineno", fn.lineno))
        if kind == "return":
            val, line = payload
            self._final_env = st.env
            if c.post_hints is not None:
                kw = {k: unwrap(v) for k, v in self.params.items()}
                kw.update({k: unwrap(v) for k, v in self.ghosts.items()})
                self.apply_hints(st, c.post_hints(result=unwrap(val), **kw), "post", line)
            for name, goal in self.ensures_clauses(c, self.params, val, self.ghosts).items():
                self.oblige(st, "post", name, goal, line)
            # cover: this return path is reachable
        elif kind == "raise":
            exc, line = payload
            if exc not in c.raises:
                self.oblige(st, "raise", exc, z3.BoolVal(False), line,
                            note=f"{exc} is not permitted by the contract on this path")
            else:
                cond = c.raises[exc]
                goal = S._t(S.And(cond(**{k: unwrap(v) for k, v in self.params.items()}))) if cond else z3.BoolVal(True)
                self.oblige(st, "raise", exc, goal, line)
        else:
            raise Unsupported(f"{kind} outside loop")

    # -- blocks / statements --------------------------------------------------
    def exec_block(self, stmts, st):
        if not stmts:
            yield ("fall", st, None)
            return
        first, rest = stmts[0], stmts[1:]
        for kind, st2, payload in self.exec_stmt(first, st):
            if kind == "fall":
                yield from self.exec_block(rest, st2)
            else:
                yield (kind, st2, payload)

    def exec_stmt(self, node, st):
        after = self.after_for(node)
        if after is None:
            yield from self.exec_stmt0(node, st)
            return
        for kind, st2, payload in self.exec_stmt0(node, st):
            if kind == "fall":
                self.apply_after(after, st2, node)
            yield (kind, st2, payload)

    def after_for(self, node):
        """ghost code / proof hints attached by the contract to the program point *after* a statement of the real
        function, located by the source text of the statement's first line (`after = {text: (ghost_names, fn)}`)."""
        table = getattr(self.c.cls, "after", None)
        if not table:
            return None
        if not hasattr(self, "_after_seen"):
            self._after_seen = set()
        key = ast.unparse(node).splitlines()[0].strip()
        ent = table.get(key)
        if ent is not None:
            self._after_seen.add(key)
        return ent

    def apply_after(self, ent, st, node):
        names, fn = ent
        r = fn(NS(st.env, self.ghosts)) or {}
        hints = r.pop("__hints__", None) if isinstance(r, dict) else None
        if hints:
            self.apply_hints(st, hints, f"after@{self.rel_line(node)}", node.lineno)
        for g, val in r.items():
            if g not in names:
                raise Unsupported(f"ghost {g!r} assigned after line {node.lineno} is not declared for that point")
            st.env[g] = wrap(val)

    def exec_stmt0(self, node, st):
        self.covered.add(node.lineno)
        m = getattr(self, "stmt_" + type(node).__name__, None)
        if m is None:
            raise Unsupported(f"statement {type(node).__name__} at line {node.lineno}")
        if isinstance(node, (ast.If, ast.For, ast.While, ast.Try, ast.FunctionDef)):
            yield from m(node, st)
            yield from self.drain_pending_raises()
            return
        # a simple statement outside the subset is acceptable only where it is provably
        # unreachable under this specialisation's precondition: that becomes an obligation
        snapshot = st.copy()
        try:
            outs = list(m(node, st))
        except RaisedInExpr:
            yield from self.drain_pending_raises()
            return
        except Unsupported as e:
            self.unsupported.append((node.lineno, str(e)))
            self.oblige(snapshot, "unreachable", f"unsupported@{self.rel_line(node)}", z3.BoolVal(False), node.lineno,
                        note=f"construct outside the subset must be unreachable here: {e}")
            yield from self.drain_pending_raises()
            return
        yield from outs
        yield from self.drain_pending_raises()

    def drain_pending_raises(self):
        """raising outcomes of contracted calls that sat inside an expression (a comprehension element, an argument):
        each carries the state at its call plus the callee's raising condition; the exception leaves the statement"""
        pend = getattr(self, "pending_raises", None)
        if pend:
            self.pending_raises = []
            yield from pend

    def rel_line(self, node):
        return node.lineno - self.unit.fn.lineno

    def stmt_Pass(self, node, st):
        yield ("fall", st, None)

    def stmt_Import(self, node, st):
        yield ("fall", st, None)

    def stmt_ImportFrom(self, node, st):
        # a function-level `from dask_array.x import f` makes f callable by simple name in this unit
        for a in node.names:
            self.local_imports[a.asname or a.name] = f"{node.module}.{a.name}"
        yield ("fall", st, None)

    def stmt_Expr(self, node, st):
        if isinstance(node.value, ast.Constant):
            yield ("fall", st, None)
            return
        if not isinstance(node.value, ast.Call):
            self.eval(node.value, st)
            yield ("fall", st, None)
            return
        if isinstance(node.value, ast.Call) and isinstance(node.value.func, ast.Attribute):
            f = node.value.func
            if isinstance(f.value, ast.Name) and f.value.id in st.env:
                cargs = node.value.args
                if len(cargs) == 1 and isinstance(cargs[0], ast.Call) and self.is_contract_call(cargs[0], st):
                    # xs.append(g(...)) with g under contract: the call may split the path (normal return / raise)
                    for kind, st2, v in self.eval_paths(cargs[0], st):
                        if kind == "raise":
                            yield ("raise", st2, v)
                            continue
                        base = st2.env[f.value.id]
                        if f.attr in ("append", "extend", "insert"):
                            self.check_unaliased(f.value.id, st2, node)
                        new = self.mutating_method(base, f.attr, [v], st2, node)
                        if new is None:
                            raise Unsupported(f"method .{f.attr} on {base!r} line {node.lineno}")
                        st2.env[f.value.id] = new
                        yield ("fall", st2, None)
                    return
                base = st.env[f.value.id]
                args = [self.eval(a, st) for a in node.value.args]
                if isinstance(base, tuple) and base and base[0] == "sset" and f.attr == "add" and len(args) == 1:
                    st.env[f.value.id] = ("sset", tuple(base[1]) + (args[0],))
                    yield ("fall", st, None)
                    return
                if f.attr in ("append", "reverse", "extend", "pop", "insert", "remove", "sort", "clear", "update"):
                    self.check_unaliased(f.value.id, st, node)
                new = self.mutating_method(base, f.attr, args, st, node)
                if new is not None:
                    st.env[f.value.id] = new
                    yield ("fall", st, None)
                    return
        for kind, st2, payload in self.eval_call_paths(node.value, st):
            if kind == "raise":
                yield ("raise", st2, payload)
            else:
                yield ("fall", st2, None)

    def mutating_method(self, base, attr, args, st, node):
        if attr == "append" and isinstance(base, SeqV) and (isinstance(args[0], (Opt, BoolV)) or not base.t.eq(S.c_empty)):
            return SeqV(S.f_append(base.t, S.as_int(self.need_int(args[0], st, node))), base.kind)
        if attr == "append" and isinstance(base, RowsV) and isinstance(args[0], TupV):
            cells = base.cells_of(args[0].items)
            if cells is None:
                raise Unsupported(f"row {args[0]!r} does not fit the declared columns {base.kinds} line {node.lineno}")
            return RowsV([S.f_append(c, x) for c, x in zip(base.comps, cells)], base.kind, base.kinds)
        if attr == "append" and isinstance(base, TupV) and base.kind == "list":
            return TupV(base.items + [args[0]], "list")
        if attr == "append" and isinstance(base, SeqV) and base.kind == "list" and base.t.eq(S.c_empty) \
                and not isinstance(args[0], (Opt, BoolV)):
            return TupV([args[0]], "list")  # the empty list literal receiving a non-int: a fixed-length heterogeneous list
        if attr == "setdefault" and isinstance(base, MapV) and base.payload == "int" and len(args) == 2:
            # as a statement: insert the default only where the key is absent
            k = S.as_int(self.need_int(args[0], st, node))
            cur = S.as_int(base.get(k))
            return base.set(k, Opt(False, z3.If(z3.Select(base.has, k), cur, S.as_int(self.need_int(args[1], st, node)))))
        if attr == "reverse" and isinstance(base, SliceSeqV):
            self.nfresh += 1
            out = SliceSeqV.fresh(f"rev!{self.nfresh}", base.n)
            jj = z3.Int("j!rev")
            for k in base.a:
                st.pc.append(z3.ForAll([jj], z3.Implies(z3.And(0 <= jj, jj < base.n),
                                                        z3.Select(out.a[k], jj) == z3.Select(base.a[k], base.n - 1 - jj)),
                                       patterns=[z3.Select(out.a[k], jj)]))
            return out
        if attr == "reverse" and isinstance(base, SeqV):
            return SeqV(S.f_rev(base.t), base.kind)
        if attr == "pop" and isinstance(base, SeqV) and base.kind == "list" and not args:
            n = S.f_len(base.t)
            self.oblige(st, "safe", "pop-nonempty", n > 0, node.lineno, note="pop from an empty list raises IndexError")
            return SeqV(S.f_slice(base.t, z3.IntVal(0), n - 1), "list")
        if attr == "reverse" and isinstance(base, TupV):
            return TupV(base.items[::-1], base.kind)
        if attr == "insert" and isinstance(base, TupV) and base.kind == "list" and isinstance(args[0], Opt):
            iv = z3.simplify(S.as_int(args[0]))
            if z3.is_int_value(iv):
                items = list(base.items)
                items.insert(iv.as_long(), args[1])
                return TupV(items, "list")
        if attr == "extend" and isinstance(base, TupV) and isinstance(args[0], TupV):
            return TupV(base.items + args[0].items, "list")
        if attr == "extend" and isinstance(base, SeqV) and isinstance(args[0], SeqV):
            return SeqV(S.f_concat(base.t, args[0].t), base.kind)
        return None

    def stmt_Assign(self, node, st):
        for kind, st2, v in self.eval_paths(node.value, st):
            if kind == "raise":
                yield ("raise", st2, v)
                continue
            for tgt in node.targets:
                self.assign(tgt, v, st2, node)
            yield ("fall", st2, None)

    def stmt_AnnAssign(self, node, st):
        if node.value is None:
            yield ("fall", st, None)
            return
        for kind, st2, v in self.eval_paths(node.value, st):
            if kind == "raise":
                yield ("raise", st2, v)
                continue
            self.assign(node.target, v, st2, node)
            yield ("fall", st2, None)

    def check_unaliased(self, name, st, node):
        """value semantics are only sound for mutable values reachable from one name."""
        obj = st.env.get(name)
        if not isinstance(obj, (SeqV, TupV, MapV)):
            return
        if isinstance(obj, (SeqV, TupV)) and obj.kind != "list":
            return

        def contains(v):
            if v is obj:
                return True
            if isinstance(v, TupV):
                return any(contains(x) for x in v.items)
            return False

        for k, v in st.env.items():
            if k != name and contains(v):
                raise Unsupported(f"mutation of {name!r} at line {node.lineno} while it is aliased by {k!r}")

    def assign(self, tgt, v, st, node):
        if isinstance(tgt, ast.Subscript) and isinstance(tgt.value, ast.Name) and tgt.value.id in st.env:
            self.check_unaliased(tgt.value.id, st, node)
        if isinstance(tgt, ast.Name):
            ty = getattr(self.c.cls, "locals", {}).get(tgt.id)
            if v == ("emptydict",):
                if ty and ty.startswith("map:"):
                    v = MapV.empty(ty[4:])
            elif ty == "lseq" and isinstance(v, TupV) and v.kind == "list":
                v = SeqV(self.to_seq(v), "list")  # a list literal of ints that a loop will grow: symbolic int list
            elif ty and ty.startswith("rows:") and isinstance(v, SeqV) and v.kind == "list" and v.t.eq(S.c_empty):
                kinds = rows_kinds(ty)
                v = RowsV.empty(len(kinds), kinds=kinds)  # an empty list literal that will hold fixed-arity tuples
            st.env[tgt.id] = v
        elif isinstance(tgt, (ast.Tuple, ast.List)):
            items = self.unpack(v, len(tgt.elts), st, node)
            for t, x in zip(tgt.elts, items):
                self.assign(t, x, st, node)
        elif isinstance(tgt, ast.Subscript) and isinstance(tgt.value, ast.Name):
            base = st.env[tgt.value.id]
            k = self.eval(tgt.slice, st)
            if base == ("emptydict",):
                base = MapV.empty("slice" if isinstance(v, SliceV) else "int")
            if isinstance(base, MapV):
                st.env[tgt.value.id] = base.set(S.as_int(self.need_int(k, st, node)), v)
            elif isinstance(base, TupV) and base.kind == "list" and isinstance(k, Opt) and z3.is_int_value(S._i(k.v)):
                items = list(base.items)
                items[S._i(k.v).as_long()] = v
                st.env[tgt.value.id] = TupV(items, "list")
            elif isinstance(base, SeqV) and base.kind == "list":
                idx = S.as_int(self.need_int(k, st, node))
                n = S.f_len(base.t)
                self.oblige(st, "safe", "index", z3.And(-n <= idx, idx < n), node.lineno)
                idx = z3.If(idx < 0, idx + n, idx)
                st.env[tgt.value.id] = SeqV(S.f_update(base.t, idx, S.as_int(self.need_int(v, st, node))), "list")
            elif isinstance(base, ObjV):
                # `obj[key] = value` on an opaque record: an effect, recorded in the path's ghost event log
                st.env["__events__"] = tuple(st.env.get("__events__", ())) + (("store", tgt.value.id, base, k, v, node.lineno),)
            else:
                raise Unsupported(f"subscript store on {base!r} line {node.lineno}")
        else:
            raise Unsupported(f"assignment target {ast.dump(tgt)} line {node.lineno}")

    def unpack(self, v, n, st, node):
        if isinstance(v, TupV):
            if len(v.items) != n:
                raise Unsupported(f"unpack arity line {node.lineno}")
            return v.items
        if isinstance(v, SeqV):
            self.oblige(st, "safe", "unpack", S.f_len(v.t) == n, node.lineno)
            return [I(S.f_at(v.t, i)) for i in range(n)]
        raise Unsupported(f"cannot unpack {v!r} line {node.lineno}")

    def stmt_AugAssign(self, node, st):
        cur = self.eval(node.target, st)
        rhs = self.eval(node.value, st)
        v = self.binop(node.op, cur, rhs, st, node)
        self.assign(node.target, v, st, node)
        yield ("fall", st, None)

    def stmt_Return(self, node, st):
        if node.value is None:
            yield ("return", st, (NONE, node.lineno))
            return
        for kind, st2, v in self.eval_paths(node.value, st):
            if kind == "raise":
                yield ("raise", st2, v)
                continue
            yield ("return", st2, (v, node.lineno))

    def stmt_Raise(self, node, st):
        exc = node.exc
        if isinstance(exc, ast.Call):
            exc = exc.func
        if isinstance(exc, ast.Name):
            name = exc.id
        elif isinstance(exc, ast.Attribute):
            name = exc.attr
        else:
            raise Unsupported(f"raise form line {node.lineno}")
        yield ("raise", st, (name, node.lineno))

    def stmt_Assert(self, node, st):
        t = self.eval_bool(node.test, st)
        self.oblige(st, "safe", "assert", t, node.lineno, note="assert statement in the code")
        st.pc.append(t)
        yield ("fall", st, None)

    def stmt_Break(self, node, st):
        yield ("break", st, None)

    def stmt_Continue(self, node, st):
        yield ("continue", st, None)

    def stmt_FunctionDef(self, node, st):
        st.env[node.name] = ("localfn", node)
        yield ("fall", st, None)

    def stmt_Try(self, node, st):
        if node.orelse:
            raise Unsupported(f"try/else line {node.lineno}")
        if node.finalbody:
            if node.handlers:
                raise Unsupported(f"try/except/finally line {node.lineno}")
            # try/finally: the final block runs after every outcome of the body, which then continues as it was
            for kind, st2, payload in self.exec_block(node.body, st):
                for k2, st3, p2 in self.exec_block(node.finalbody, st2):
                    if k2 == "fall":
                        yield (kind, st3, payload)
                    else:
                        yield (k2, st3, p2)
            return
        handlers = {}
        for h in node.handlers:
            if h.name is not None:
                raise Unsupported("except ... as name")
            names = []
            t = h.type
            if isinstance(t, ast.Name):
                names = [t.id]
            elif isinstance(t, ast.Tuple):
                names = [e.id for e in t.elts]
            else:
                raise Unsupported("bare except")
            for n in names:
                handlers[n] = h
        for kind, st2, payload in self.exec_block(node.body, st):
            if kind == "raise" and payload[0] in handlers:
                yield from self.exec_block(handlers[payload[0]].body, st2)
            else:
                yield (kind, st2, payload)

    def stmt_If(self, node, st):
        static = self.static_test(node.test, st)
        if static is True:
            self.note_drop(node.orelse, "unreachable under the declared parameter types")
            yield from self.exec_block(node.body, st)
            return
        if static is False:
            self.note_drop(node.body, "unreachable under the declared parameter types")
            yield from self.exec_block(node.orelse, st)
            return
        results = []
        for st0, cond in self.eval_bool_paths(node.test, st):
            results.append((st0, cond))
        for st0, cond in results:
            ncond = z3.Not(cond)
            if _has_quantifier(cond):
                # a quantified test (`x in seq`, any/all over a symbolic sequence): when the path condition already decides
                # it, take that arm alone and do not add the implied (quantified, solver-slowing) fact to the path
                decided = self.decides(st0, cond)
                if decided is not None:
                    arm, other = (node.body, node.orelse) if decided else (node.orelse, node.body)
                    self.note_drop(other, "unreachable: the path condition decides the test")
                    s1 = st0.copy()
                    s1.trail.append((node.lineno, decided))
                    yield from self.exec_block(arm, s1)
                    continue
            outs = []
            for arm, c in ((node.body, cond), (node.orelse, ncond)):
                s1 = st0.copy()
                s1.pc.append(c)
                s1.trail.append((node.lineno, arm is node.body))
                if z3.is_false(z3.simplify(c)) or not self.feasible(s1):
                    outs.append([])
                    continue
                outs.append(list(self.exec_block(arm, s1)))
            a, b = outs
            if getattr(self.c.cls, "merge", True) and len(a) == 1 and len(b) == 1 and a[0][0] == "fall" and b[0][0] == "fall":
                merged = self.merge(st0, cond, a[0][1], b[0][1])
                if merged is not None:
                    yield ("fall", merged, None)
                    continue
            for o in a + b:
                yield o

    def merge(self, st0, cond, sa, sb):
        env = {}
        keys = set(sa.env) | set(sb.env)
        for k in keys:
            if k not in sa.env or k not in sb.env:
                # defined on one arm only: keep it only if never needed (drop)
                continue
            va, vb = sa.env[k], sb.env[k]
            if va is vb:
                env[k] = va
                continue
            m = self.merge_val(cond, va, vb)
            if m is None:
                return None
            env[k] = m
        n0 = len(st0.pc)
        pa = sa.pc[n0 + 1:]
        pb = sb.pc[n0 + 1:]
        pc = list(st0.pc)
        if pa:
            pc.append(z3.Implies(cond, z3.And(*pa)))
        if pb:
            pc.append(z3.Implies(z3.Not(cond), z3.And(*pb)))
        return State(env, pc, list(st0.trail))

    def merge_val(self, c, a, b):
        if isinstance(a, (SeqV, TupV)) and isinstance(b, (SeqV, TupV)) and type(a) is not type(b):
            try:
                return self.seq_ite(c, self.to_seq(a), self.to_seq(b), a.kind)
            except Unsupported:
                return None
        if type(a) is not type(b):
            if isinstance(a, tuple) or isinstance(b, tuple):
                return None
            return None
        if isinstance(a, Opt):
            if a.definite() and b.definite():
                return I(z3.If(c, S._i(a.v), S._i(b.v)))
            n = z3.simplify(z3.If(c, S._b(a.n), S._b(b.n)))
            if z3.is_false(n):
                return I(z3.If(c, S._i(a.v), S._i(b.v)))
            if not z3.is_true(n):
                # context-sensitive: `x if x is not None else d` -- decide with the solver-free
                # propositional simplifier under the guard
                n2 = z3.simplify(z3.And(c, S._b(a.n)))
                n3 = z3.simplify(z3.And(z3.Not(c), S._b(b.n)))
                if z3.is_false(n2) and z3.is_false(n3):
                    return I(z3.If(c, S._i(a.v), S._i(b.v)))
            return Opt(n, z3.If(c, S._i(a.v), S._i(b.v)))
        if isinstance(a, BoolV):
            return BoolV(z3.If(c, a.t, b.t))
        if isinstance(a, RealV):
            return RealV(z3.If(c, a.t, b.t), z3.If(c, S._b(a.nan), S._b(b.nan)) if (a.nan is not False or b.nan is not False) else False)
        if isinstance(a, SliceV):
            ps = [self.merge_val(c, x, y) for x, y in zip((a.start, a.stop, a.step), (b.start, b.stop, b.step))]
            return SliceV(*ps)
        if isinstance(a, SeqV):
            if a.t.eq(b.t):
                return a
            return self.seq_ite(c, a.t, b.t, a.kind)
        if isinstance(a, RowsV):
            if a.kinds != b.kinds:
                return None
            return RowsV([x if x.eq(y) else self.seq_ite(c, x, y, a.kind).t for x, y in zip(a.comps, b.comps)], a.kind, a.kinds)
        if isinstance(a, MapV):
            if a.payload != b.payload:
                return None
            if a.has.eq(b.has) and all(a.f[k].eq(b.f[k]) for k in a.f):
                return a
            self.nfresh += 1
            m = MapV.fresh(f"mapite!{self.nfresh}", a.payload)
            self.ctx.defs.append(m.has == z3.If(c, a.has, b.has), (m.has,))
            for k in a.f:
                self.ctx.defs.append(m.f[k] == z3.If(c, a.f[k], b.f[k]), (m.f[k],))
            return m
        if isinstance(a, TupV):
            if len(a.items) != len(b.items) and a.kind == b.kind:
                try:
                    return self.seq_ite(c, self.to_seq(a), self.to_seq(b), a.kind)
                except Unsupported:
                    return None
            if len(a.items) != len(b.items) or a.kind != b.kind:
                return None
            items = []
            for x, y in zip(a.items, b.items):
                m = x if x is y else self.merge_val(c, x, y)
                if m is None:
                    return None
                items.append(m)
            return TupV(items, a.kind)
        if isinstance(a, StrV):
            if a.t is None and b.t is None:
                return a if a.s == b.s else None
            return StrV(None, z3.If(c, a.term(), b.term()))
        if isinstance(a, AbsV):
            return AbsV(z3.If(c, a.t, b.t), a.sort) if a.sort == b.sort else None
        if isinstance(a, ObjV):
            return a if a is b else None
        if isinstance(a, NanV):
            return a
        return None

    def seq_ite(self, c, ta, tb, kind):
        """a fresh sequence constant defined as If(c, ta, tb) (keeps `ite` out of
        quantifier patterns)."""
        self.nfresh += 1
        m = z3.Const(f"seqite!{self.nfresh}", S.SeqSort)
        self.ctx.defs.append(m == z3.If(c, ta, tb), (m,))
        return SeqV(m, kind)

    def note_drop(self, stmts, why):
        if stmts:
            a = stmts[0].lineno
            b = getattr(stmts[-1], "end_lineno", stmts[-1].lineno)
            self.dropped.append((a, b, why))

    def static_test(self, test, st):
        """isinstance tests etc. decided by the declared types; None if dynamic."""
        try:
            v = self.eval_bool(test, st, static_only=True)
        except _NotStatic:
            # not decided by the declared types alone: still static if it evaluates to a literal truth value (comparisons
            # of compile-time constants, e.g. a fixed axis number against a position in a fixed-length tuple)
            try:
                v = self.eval_bool(test, st.copy())
            except (Unsupported, _NotStatic, PathEnd):
                return None
            v = z3.simplify(v)
            if z3.is_true(v):
                return True
            if z3.is_false(v):
                return False
            return None
        v = z3.simplify(v)
        if z3.is_true(v):
            return True
        if z3.is_false(v):
            return False
        return None

    # -- loops ----------------------------------------------------------------
    def loop_id(self, node, kind):
        """loops are numbered per kind in source order (stable under path exploration order)."""
        if not self.loopids:
            loops = [n for n in ast.walk(self.unit.fn) if isinstance(n, (ast.For, ast.While))]
            loops.sort(key=lambda n: (n.lineno, n.col_offset))
            cnt = {"for": 0, "while": 0}
            for n in loops:
                k = "for" if isinstance(n, ast.For) else "while"
                cnt[k] += 1
                self.loopids[id(n)] = f"{k}#{cnt[k]}"
        return self.loopids[id(node)]

    def assigned_names(self, stmts):
        names = set()
        table = getattr(self.c.cls, "after", None) or {}
        for s in stmts:
            for n in ast.walk(s):
                if table and isinstance(n, ast.stmt):
                    ent = table.get(ast.unparse(n).splitlines()[0].strip())
                    if ent is not None:
                        names.update(ent[0])
                if isinstance(n, (ast.Assign, ast.AugAssign, ast.AnnAssign)):
                    tgts = n.targets if isinstance(n, ast.Assign) else [n.target]
                    for t in tgts:
                        for m in ast.walk(t):
                            if isinstance(m, ast.Name):
                                if isinstance(m.ctx, ast.Store):
                                    names.add(m.id)
                            if isinstance(m, ast.Subscript) and isinstance(m.value, ast.Name):
                                names.add(m.value.id)
                elif isinstance(n, ast.For):
                    for m in ast.walk(n.target):
                        if isinstance(m, ast.Name):
                            names.add(m.id)
                    if isinstance(n.iter, ast.Name) and isinstance(n.target, ast.Name) and self.mutates(n.body, n.target.id):
                        names.add(n.iter.id)  # `for c in xs: c[...] = ...` changes xs through the alias c
                elif isinstance(n, ast.Call) and isinstance(n.func, ast.Attribute) \
                        and n.func.attr in ("append", "reverse", "extend", "pop", "insert") \
                        and isinstance(n.func.value, ast.Name):
                    names.add(n.func.value.id)
        return names

    def mutates(self, stmts, name):
        """does the block change the object bound to `name` in place (element store, in-place method)?"""
        for s in stmts:
            for n in ast.walk(s):
                if isinstance(n, (ast.Assign, ast.AugAssign, ast.AnnAssign)):
                    tgts = n.targets if isinstance(n, ast.Assign) else [n.target]
                    for t in tgts:
                        for m in ast.walk(t):
                            if isinstance(m, ast.Subscript) and isinstance(m.value, ast.Name) and m.value.id == name:
                                return True
                if isinstance(n, ast.Call) and isinstance(n.func, ast.Attribute) and isinstance(n.func.value, ast.Name) \
                        and n.func.value.id == name and n.func.attr in ("append", "reverse", "extend", "pop", "insert", "remove", "sort", "clear"):
                    return True
        return False

    def stmt_For(self, node, st):
        if node.orelse:
            raise Unsupported("for/else")
        it = node.iter
        # static unrolling over fixed-length tuples
        seqs = self.iter_static(it, st)
        if seqs is not None:
            alias = None
            if isinstance(it, ast.Name) and isinstance(node.target, ast.Name) and self.mutates(node.body, node.target.id):
                # `for c in xs:` with the body changing c in place: c is an alias of xs[k].  Modelled by binding c to a
                # private copy and writing it back into xs[k] after each iteration -- sound only if the body never looks
                # at xs itself while the copy is out of date
                cont = st.env.get(it.id)
                if not (isinstance(cont, TupV) and cont.kind == "list"):
                    raise Unsupported(f"in-place change of the loop variable of a loop over {cont!r} line {node.lineno}")
                if any(isinstance(n, ast.Name) and n.id == it.id for b in node.body for n in ast.walk(b)):
                    raise Unsupported(f"loop body at line {node.lineno} uses {it.id!r} while changing it through its alias")
                alias = it.id
            yield from self.unroll(node, seqs, 0, st, alias)
            return
        lid = self.loop_id(node, "for")
        spec = self.c.loops.get(lid)
        if spec is None:
            raise Unsupported(f"loop {lid} at line {node.lineno} of {self.c.qualname} has no invariant in the contract")
        itv = self.iter_symbolic(it, st, node)  # (n, elem(k) -> value, extra_assume(k))
        n = itv["n"]
        entry = st
        outer_it = st.env.get("it")  # an enclosing loop's iteration index is visible again after this loop

        def leave(env):
            env.pop("it", None)
            if outer_it is not None:
                env["it"] = outer_it
        v0 = NS(dict(entry.env), self.ghosts)
        mods = sorted(x for x in self.assigned_names(node.body) if x in entry.env)
        # ghost initialisation
        genv = {}
        if spec.ghosts:
            init = spec.ghost_init(NS(entry.env, self.ghosts)) if spec.ghost_init else {}
            for g, ty in spec.ghosts.items():
                genv[g] = wrap(init[g]) if g in init else self.fresh_value(ty, g)
        # init
        e0 = dict(entry.env)
        e0.update(genv)
        e0["it"] = I(0)
        for name, t in self.inv_clauses(spec, NS(e0, self.ghosts), v0).items():
            self.oblige(entry, "inv-init", f"{lid}:{name}", t, node.lineno)

        def head_state(tag):
            s = entry.copy()
            for x in mods:
                s.env[x] = self.havoc_like(entry.env[x], f"{x}@{lid}{tag}")
            for g in genv:
                s.env[g] = self.havoc_like(genv[g], f"{g}@{lid}{tag}")
            k = self.fresh_int(f"it@{lid}{tag}")
            s.env["it"] = I(k)
            s.pc.append(z3.And(0 <= k, k <= n))
            for name, t in self.inv_clauses(spec, NS(s.env, self.ghosts), v0).items():
                s.pc.append(t)
            return s, k

        # preservation
        s, k = head_state("h")
        s.pc.append(k < n)
        s.trail.append((node.lineno, "iter"))
        for ex in itv.get("assume", lambda k, s: [])(k, s):
            s.pc.append(ex)
        self.assign(node.target, itv["elem"](k, s), s, node)
        head_env = dict(s.env)
        if self.feasible(s):
            for kind, s2, payload in self.exec_block(node.body, s):
                if kind in ("fall", "continue"):
                    self.loop_back(spec, lid, node, s2, head_env, v0, k + 1, genv)
                elif kind == "break":
                    leave(s2.env)
                    yield ("fall", s2, None)
                else:
                    yield (kind, s2, payload)
        # exit
        s, k = head_state("x")
        s.pc.append(k == n)
        s.trail.append((node.lineno, "exit"))
        leave(s.env)
        if self.feasible(s):
            yield ("fall", s, None)

    def loop_back(self, spec, lid, node, s2, head_env, v0, nextk, genv):
        e = dict(s2.env)
        if spec.ghost_update:
            upd = spec.ghost_update(NS(head_env, self.ghosts), NS(e, self.ghosts))
            for g, val in upd.items():
                e[g] = wrap(val)
        if nextk is not None:
            e["it"] = I(nextk)  # a while loop has no iteration index of its own: an enclosing for loop's `it` stays visible
        if spec.hints:
            import inspect
            hargs = [NS(head_env, self.ghosts), NS(e, self.ghosts)]
            if len(inspect.signature(spec.hints).parameters) >= 3:
                hargs.append(v0)  # the state at loop entry (as in the invariant)
            self.apply_hints(s2, spec.hints(*hargs), f"{lid}", node.lineno)
        for x, hv in head_env.items():
            if isinstance(hv, Opt) and hv.definite() and x in e and isinstance(e[x], Opt) and not e[x].definite():
                self.oblige(s2, "inv-pres", f"{lid}:type:{x}", z3.Not(S._b(e[x].n)), node.lineno)
        for name, t in self.inv_clauses(spec, NS(e, self.ghosts), v0).items():
            self.oblige(s2, "inv-pres", f"{lid}:{name}", t, node.lineno)

    def apply_hints(self, st, hints, where, line):
        """proof-script steps: each hint is first an obligation (kind `hint`),
        then available as a hypothesis -- assert-then-assume, never assumed unproved."""
        if not hints:
            return
        items = hints.items() if isinstance(hints, dict) else enumerate(hints)
        for name, h in items:
            pure = False
            if isinstance(h, tuple) and h and h[0] == "lemma":
                # instance of a prelude lemma (proved once, by pyvc/lemmas.py, in this run)
                from . import lemmas as L
                lname, largs = h[1], [S._i(x) if not isinstance(x, SeqV) else x.t for x in h[2:]]
                for a_, b_ in _mod_operands(lname, largs):
                    S.divmod_(a_, b_)  # make sure the ground defining instances are present
                st.pc.append(L.LEMMAS[lname][0](*largs))
                if lname not in self.lemmas_used:
                    self.lemmas_used.append(lname)
                continue
            if isinstance(h, tuple) and len(h) == 2 and h[0] == "pure":
                pure, h = True, h[1]
            t = S._t(S.And(h) if isinstance(h, (list, tuple)) else h)
            if pure:
                # a lemma instance that follows from the definitional constraints alone
                o = Obligation(self.unit, "hint", f"{where}:{name}", line, [], t)
                o.path = list(st.trail)
                self.obls.append(o)
            else:
                self.oblige(st, "hint", f"{where}:{name}", t, line)
            st.pc.append(t)

    def inv_clauses(self, spec, v, v0):
        if spec.invariant is None:
            return {}
        r = spec.invariant(v, v0)
        if not isinstance(r, dict):
            r = {"inv": r}
        return {k: S._t(S.And(x) if isinstance(x, (list, tuple)) else x) for k, x in r.items()}

    def iter_static(self, it, st):
        """list of per-iteration values when the iterable has static length."""
        if isinstance(it, ast.Call) and isinstance(it.func, ast.Name) and it.func.id == "zip":
            parts = [self.iter_static(a, st) for a in it.args]
            if any(p is None for p in parts):
                return None
            n = min(len(p) for p in parts)
            return [TupV([p[i] for p in parts]) for i in range(n)]
        if isinstance(it, ast.Call) and isinstance(it.func, ast.Name) and it.func.id == "enumerate":
            p = self.iter_static(it.args[0], st)
            if p is None:
                return None
            return [TupV([I(i), x]) for i, x in enumerate(p)]
        if isinstance(it, ast.Call) and isinstance(it.func, ast.Name) and it.func.id == "range":
            args = [self.eval(a, st) for a in it.args]
            vals = []
            for a in args:
                t = z3.simplify(S.as_int(a))
                if not z3.is_int_value(t):
                    return None
                vals.append(t.as_long())
            return [I(i) for i in range(*vals)]
        is_map = isinstance(it, ast.Call) and ((isinstance(it.func, ast.Name) and it.func.id == "map" and "map" not in st.env)
                                               or self.dotted(it.func) in ("toolz.partition", "partition"))
        is_model = isinstance(it, ast.Call) and isinstance(it.func, ast.Attribute) and not it.args and \
            f".{it.func.attr}" in {"." + k.split(".")[-1] for k in (getattr(self.c.cls, "methods", None) or {})}
        if is_map or is_model or isinstance(it, (ast.Name, ast.Attribute, ast.Subscript, ast.Tuple, ast.List)):
            try:
                v = self.eval(it, st)
            except Unsupported:
                return None
            if isinstance(v, TupV):
                return list(v.items)
            if isinstance(v, tuple) and v and v[0] == "sset":
                return list(v[1])  # a set with statically known members (iteration order is irrelevant to any/all/for-effects)
        return None

    def unroll(self, node, seq, i, st, alias=None):
        if i == len(seq):
            yield ("fall", st, None)
            return
        s = st
        item = seq[i]
        if alias is not None:
            item = s.env[alias].items[i]
            if isinstance(item, SeqV):
                item = SeqV(item.t, item.kind)       # a distinct Python object for the same value (see stmt_For)
            elif isinstance(item, TupV):
                item = TupV(list(item.items), item.kind)
            else:
                raise Unsupported(f"alias iteration over {item!r} line {node.lineno}")
        self.assign(node.target, item, s, node)

        def write_back(env):
            if alias is not None:
                cont = env[alias]
                items = list(cont.items)
                items[i] = env[node.target.id]
                env[alias] = TupV(items, cont.kind)

        for kind, s2, payload in self.exec_block(node.body, s):
            if kind in ("fall", "continue"):
                write_back(s2.env)
                yield from self.unroll(node, seq, i + 1, s2, alias)
            elif kind == "break":
                write_back(s2.env)
                yield ("fall", s2, None)
            else:
                yield (kind, s2, payload)

    def iter_symbolic(self, it, st, node):
        if isinstance(it, ast.Call) and isinstance(it.func, ast.Name):
            fn = it.func.id
            if fn == "range":
                args = [S.as_int(self.need_int(self.eval(a, st), st, node)) for a in it.args]
                if len(args) == 1:
                    lo, hi, stp = z3.IntVal(0), args[0], z3.IntVal(1)
                elif len(args) == 2:
                    lo, hi, stp = args[0], args[1], z3.IntVal(1)
                else:
                    lo, hi, stp = args
                n = S.rlen(lo, hi, stp)
                return {"n": n, "elem": lambda k, s: I(lo + k * stp)}
            if fn == "enumerate":
                inner = self.iter_symbolic(it.args[0], st, node)
                return {"n": inner["n"], "elem": lambda k, s: TupV([I(k), inner["elem"](k, s)]),
                        "assume": inner.get("assume", lambda k, s: [])}
            if fn == "zip":
                inners = [self.iter_symbolic(a, st, node) for a in it.args]
                n = inners[0]["n"]
                for x in inners[1:]:
                    n = S.min_(n, x["n"])
                return {"n": n, "elem": lambda k, s: TupV([x["elem"](k, s) for x in inners])}
            if fn == "reversed":
                inner = self.iter_symbolic(it.args[0], st, node)
                n = inner["n"]
                return {"n": n, "elem": lambda k, s: inner["elem"](n - 1 - k, s)}
        if isinstance(it, ast.Call) and isinstance(it.func, ast.Attribute) and it.func.attr in ("items", "keys"):
            base = self.eval(it.func.value, st)
            if isinstance(base, MapV):
                name = it.func.value.id if isinstance(it.func.value, ast.Name) else None
                return self.iter_map(base, name, it.func.attr, st)
        v = self.eval(it, st)
        if isinstance(v, MapV):
            return self.iter_map(v, it.id if isinstance(it, ast.Name) else None, "keys", st)
        if isinstance(v, tuple) and v and v[0] == "parts":
            # the groups of partition_all: their number is ceil(n / k); a group itself is an opaque value
            return {"n": S.ceildiv(v[2], v[1]), "elem": lambda k, s: ("part", v[1], v[2], k)}
        if isinstance(v, SeqV):
            return {"n": S.f_len(v.t), "elem": lambda k, s: I(S.f_at(v.t, k))}
        if isinstance(v, SortedItemsV):
            return {"n": v.n, "elem": lambda k, s: TupV([I(S.f_at(v.keys, k)), v.m.get(S.f_at(v.keys, k))])}
        if isinstance(v, (SliceSeqV, TupSeqV, RowsV)):
            return {"n": v.n, "elem": lambda k, s: v.get(k)}
        raise Unsupported(f"iteration over {ast.dump(it)[:80]} line {node.lineno}")

    def iter_map(self, base, name, mode, st):
        """iteration over the key set of a map *as it was at loop entry*: the visited keys are the elements of a ghost
        sequence `itkeys` (readable from loop invariants) that enumerates exactly the key set -- every element is a key
        and every key occurs at some position (Skolem function) -- in an arbitrary order; distinctness is not used."""
        self.nfresh += 1
        keys = z3.Const(f"itkeys!{self.nfresh}", S.SeqSort)
        pos = z3.Function(f"itkeypos!{self.nfresh}", z3.IntSort(), z3.IntSort())
        nkeys = S.f_len(keys)
        i, q = z3.Int(f"ik!{self.nfresh}"), z3.Int(f"iq!{self.nfresh}")
        st.pc.append(nkeys >= 0)
        st.pc.append(z3.ForAll([i], z3.Implies(z3.And(0 <= i, i < nkeys), z3.Select(base.has, S.f_at(keys, i))),
                               patterns=[S.f_at(keys, i)]))
        st.pc.append(z3.ForAll([q], z3.Implies(z3.Select(base.has, q),
                                               z3.And(0 <= pos(q), pos(q) < nkeys, S.f_at(keys, pos(q)) == q)),
                               patterns=[z3.Select(base.has, q)]))
        st.env["itkeys"] = SeqV(keys, "tuple")

        def elem(k, s):
            key = S.f_at(keys, k)
            cur = s.env[name] if name else base
            s.env["itkey"] = I(key)
            if mode == "keys":
                return I(key)
            return TupV([I(key), cur.get(key)])

        return {"n": nkeys, "elem": elem}

    def stmt_While(self, node, st):
        if node.orelse:
            raise Unsupported("while/else")
        lid = self.loop_id(node, "while")
        spec = self.c.loops.get(lid)
        if spec is None:
            # a loop whose test is false outright under this specialisation (constant positions in fixed-length tuples)
            # never runs: dropped like an unreachable branch
            try:
                t0 = z3.simplify(self.eval_bool(node.test, st.copy()))
            except (Unsupported, _NotStatic):
                t0 = None
            if t0 is not None and z3.is_false(t0):
                self.note_drop(node.body, "loop test is false under the declared parameter types")
                yield ("fall", st, None)
                return
            raise Unsupported(f"loop {lid} at line {node.lineno} of {self.c.qualname} has no invariant in the contract")
        entry = st
        v0 = NS(dict(entry.env), self.ghosts)
        mods = sorted(x for x in self.assigned_names(node.body) if x in entry.env)
        genv = {}
        if spec.ghosts:
            init = spec.ghost_init(NS(entry.env, self.ghosts)) if spec.ghost_init else {}
            for g, ty in spec.ghosts.items():
                genv[g] = wrap(init[g]) if g in init else self.fresh_value(ty, g)
        e0 = dict(entry.env)
        e0.update(genv)
        for name, t in self.inv_clauses(spec, NS(e0, self.ghosts), v0).items():
            self.oblige(entry, "inv-init", f"{lid}:{name}", t, node.lineno)

        def head_state(tag):
            s = entry.copy()
            for x in mods:
                s.env[x] = self.havoc_like(entry.env[x], f"{x}@{lid}{tag}")
            for g in genv:
                s.env[g] = self.havoc_like(genv[g], f"{g}@{lid}{tag}")
            for name, t in self.inv_clauses(spec, NS(s.env, self.ghosts), v0).items():
                s.pc.append(t)
            return s

        s = head_state("h")
        for s1, cond in self.eval_bool_paths(node.test, s):
            sb = s1.copy()
            sb.pc.append(cond)
            sb.trail.append((node.lineno, "iter"))
            head_env = dict(sb.env)
            dec0 = None
            if spec.decreases:
                dec0 = S._i(spec.decreases(NS(head_env, self.ghosts), v0))
                self.oblige(sb, "decreases", f"{lid}:bounded", dec0 >= 0, node.lineno)
            if self.feasible(sb):
                for kind, s2, payload in self.exec_block(node.body, sb):
                    if kind in ("fall", "continue"):
                        self.loop_back(spec, lid, node, s2, head_env, v0, None, genv)
                        if spec.decreases:
                            e = dict(s2.env)
                            if spec.ghost_update:
                                for g, val in spec.ghost_update(NS(head_env, self.ghosts), NS(e, self.ghosts)).items():
                                    e[g] = wrap(val)
                            dec1 = S._i(spec.decreases(NS(e, self.ghosts), v0))
                            self.oblige(s2, "decreases", f"{lid}:strict", dec1 < dec0, node.lineno)
                    elif kind == "break":
                        yield ("fall", s2, None)
                    else:
                        yield (kind, s2, payload)
            sx = s1.copy()
            sx.pc.append(z3.Not(cond))
            sx.trail.append((node.lineno, "exit"))
            if self.feasible(sx):
                yield ("fall", sx, None)

    # -- expressions ----------------------------------------------------------
    def eval_paths(self, node, st):
        """evaluate an expression that may contain a contracted call (which can
        split the path into normal return / raise)."""
        hv = self.havoc_map
        if hv:
            src = ast.unparse(node)
            ty = hv.get(src)
            if ty and ty.startswith("raise:"):
                exc, vty = ty[6:].split("|", 1)
                self.havocked.add(src)
                s2 = st.copy()
                s2.trail.append((node.lineno, f"raises {exc}"))
                val = self.fresh_value(vty, "havoc")
                hook = (getattr(self.c.cls, "havoc_assume", None) or {}).get(src)
                if hook is not None:
                    hook(self, st, val)
                yield ("val", st, val)
                yield ("raise", s2, (exc, node.lineno))
                return
        if isinstance(node, ast.Call) and self.is_contract_call(node, st):
            yield from self.eval_call_paths(node, st)
            return
        yield ("val", st, self.eval(node, st))

    def eval_bool_paths(self, node, st):
        yield (st, self.eval_bool(node, st))

    def need_int(self, v, st, node):
        if isinstance(v, Opt):
            if not v.definite():
                self.oblige(st, "safe", "not-none", z3.Not(S._b(v.n)), getattr(node, "lineno", 0),
                            note="operand must not be None here")
            return v
        if isinstance(v, BoolV):
            return I(z3.If(v.t, 1, 0))
        raise Unsupported(f"int expected, got {v!r} line {getattr(node, 'lineno', '?')}")

    def truth(self, v):
        if isinstance(v, BoolV):
            return v.t
        if isinstance(v, Opt):
            return z3.And(z3.Not(S._b(v.n)), S._i(v.v) != 0)
        if isinstance(v, SeqV):
            return S.f_len(v.t) > 0
        if isinstance(v, TupV):
            return z3.BoolVal(len(v.items) > 0)
        if isinstance(v, MapV):
            k = z3.Int("k!mt")
            return z3.Not(z3.ForAll([k], z3.Not(z3.Select(v.has, k)), patterns=[z3.Select(v.has, k)]))
        if isinstance(v, SliceV):
            return z3.BoolVal(True)
        if isinstance(v, RealV):
            return v.t != 0
        if isinstance(v, NanV):
            return z3.BoolVal(True)
        if isinstance(v, StrV):
            if v.t is not None:
                raise Unsupported("truth of a symbolic string")
            return z3.BoolVal(bool(v.s))
        if v == ("emptydict",):
            return z3.BoolVal(False)
        raise Unsupported(f"truth of {v!r}")

    def eval_bool(self, node, st, static_only=False):
        if self.havoc_map and isinstance(node, ast.BoolOp) and not static_only and ast.unparse(node) in self.havoc_map:
            return self.truth(self.eval(node, st))  # declared abstraction of a whole condition
        if isinstance(node, ast.BoolOp):
            terms = []
            pushed = 0
            try:
                for sub in node.values:
                    t = self.eval_bool(sub, st, static_only)
                    terms.append(t)
                    ts = z3.simplify(t)
                    if (isinstance(node.op, ast.And) and z3.is_false(ts)) or (isinstance(node.op, ast.Or) and z3.is_true(ts)):
                        break
                    self.guards.append(t if isinstance(node.op, ast.And) else z3.Not(t))
                    pushed += 1
            finally:
                for _ in range(pushed):
                    self.guards.pop()
            return z3.And(*terms) if isinstance(node.op, ast.And) else z3.Or(*terms)
        if isinstance(node, ast.UnaryOp) and isinstance(node.op, ast.Not):
            return z3.Not(self.eval_bool(node.operand, st, static_only))
        if static_only:
            if isinstance(node, ast.Call) and isinstance(node.func, ast.Name) and node.func.id == "isinstance":
                return self.truth(self.eval(node, st))
            if isinstance(node, ast.Compare) and len(node.ops) == 1 and isinstance(node.ops[0], (ast.Is, ast.IsNot)):
                v = self.truth(self.eval(node, st))
                return v
            if isinstance(node, ast.Call) and isinstance(node.func, ast.Attribute) and node.func.attr == "isnan":
                v = self.eval(node.args[0], st)
                if isinstance(v, NanV):
                    return z3.BoolVal(True)
                if isinstance(v, Opt) and v.definite():
                    return z3.BoolVal(False)
            raise _NotStatic()
        return self.truth(self.eval(node, st))

    def eval(self, node, st):
        hv = self.havoc_map
        if hv:
            src = ast.unparse(node)
            if src in hv:
                # declared abstraction: this side-effect-free expression may take any value of its type
                self.havocked.add(src)
                val = self.fresh_value(hv[src], "havoc")
                hook = (getattr(self.c.cls, "havoc_assume", None) or {}).get(src)
                if hook is not None:
                    # an *assumed* fact about the abstracted value (listed in the trusted base)
                    self.assumed.add(f"{src}: {(hook.__doc__ or '').strip()}")
                    hook(self, st, val)
                return val
        m = getattr(self, "expr_" + type(node).__name__, None)
        if m is None:
            raise Unsupported(f"expression {type(node).__name__} at line {getattr(node, 'lineno', '?')}")
        return m(node, st)

    def expr_Constant(self, node, st):
        v = node.value
        if v is None:
            return NONE
        if isinstance(v, bool):
            return BoolV(z3.BoolVal(v))
        if isinstance(v, int):
            return I(v)
        if isinstance(v, float):
            if v != v:
                return NanV()
            return RealV(z3.RealVal(repr(v)))
        if isinstance(v, str):
            return StrV(v)
        if v is Ellipsis:
            return StrV("...")
        raise Unsupported(f"constant {v!r}")

    def expr_JoinedStr(self, node, st):
        return StrV("<fstring>")

    def expr_Name(self, node, st):
        if node.id in st.env:
            return st.env[node.id]
        if node.id in self.mod.consts:
            return self.eval(self.mod.consts[node.id], State())
        if node.id in ("True", "False"):
            return BoolV(z3.BoolVal(node.id == "True"))
        if node.id == "Ellipsis":
            return StrV("...")
        raise Unsupported(f"unknown name {node.id!r} line {node.lineno}")

    def expr_Tuple(self, node, st):
        items = []
        for e in node.elts:
            if isinstance(e, ast.Starred):
                v = self.eval(e.value, st)
                if not isinstance(v, TupV):
                    raise Unsupported("starred symbolic sequence")
                items.extend(v.items)
            else:
                items.append(self.eval(e, st))
        return TupV(items, "tuple")

    def expr_List(self, node, st):
        v = self.expr_Tuple(node, st)
        if not v.items:
            # an empty list literal that will be appended to: symbolic int list
            return SeqV(S.c_empty, "list")
        return TupV(v.items, "list")

    def expr_Dict(self, node, st):
        if not node.keys:
            return ("emptydict",)
        if len(node.keys) == 1:
            k = self.eval(node.keys[0], st)
            v = self.eval(node.values[0], st)
            payload = "slice" if isinstance(v, SliceV) else "int"
            return MapV.empty(payload).set(S.as_int(self.need_int(k, st, node)), v)
        raise Unsupported("dict literal")

    def expr_UnaryOp(self, node, st):
        if isinstance(node.op, ast.Not):
            return BoolV(z3.Not(self.eval_bool(node.operand, st)))
        v = self.eval(node.operand, st)
        if isinstance(node.op, ast.USub):
            if isinstance(v, RealV):
                return RealV(-v.t)
            return I(-S.as_int(self.need_int(v, st, node)))
        if isinstance(node.op, ast.UAdd):
            return v
        raise Unsupported("unary op")

    def expr_BinOp(self, node, st):
        a = self.eval(node.left, st)
        b = self.eval(node.right, st)
        return self.binop(node.op, a, b, st, node)

    def binop(self, op, a, b, st, node):
        line = getattr(node, "lineno", 0)
        if isinstance(a, (TupV, SeqV)) or isinstance(b, (TupV, SeqV)):
            return self.seq_binop(op, a, b, st, node)
        if isinstance(a, RealV) or isinstance(b, RealV):
            ra = a.t if isinstance(a, RealV) else z3.ToReal(S.as_int(self.need_int(a, st, node)))
            rb = b.t if isinstance(b, RealV) else z3.ToReal(S.as_int(self.need_int(b, st, node)))

            def rat(v):
                # exact integer quotient behind an int-valued float (assumption A3), if known
                if isinstance(v, RealV):
                    if v.ratio is not None:
                        return v.ratio
                    tv = z3.simplify(v.t)
                    if z3.is_rational_value(tv) and tv.denominator_as_long() == 1:
                        return (z3.IntVal(tv.numerator_as_long()), z3.IntVal(1))
                    return None
                return (S.as_int(v), z3.IntVal(1))
            qa, qb = rat(a), rat(b)
            one = lambda q: q is not None and z3.is_int_value(z3.simplify(q[1])) and z3.simplify(q[1]).as_long() == 1
            ratio = None
            if isinstance(op, ast.Add):
                if one(qa) and one(qb):
                    ratio = (qa[0] + qb[0], z3.IntVal(1))
                return RealV(ra + rb, ratio=ratio)
            if isinstance(op, ast.Sub):
                if one(qa) and one(qb):
                    ratio = (qa[0] - qb[0], z3.IntVal(1))
                return RealV(ra - rb, ratio=ratio)
            if isinstance(op, ast.Mult):
                if one(qa) and one(qb):
                    ratio = (qa[0] * qb[0], z3.IntVal(1))
                return RealV(ra * rb, ratio=ratio)
            if isinstance(op, ast.Div):
                self.oblige(st, "safe", "div-zero", rb != 0, line)
                if one(qa) and one(qb):
                    ratio = (qa[0], qb[0])
                return RealV(ra / rb, ratio=ratio)
            raise Unsupported(f"real op {type(op).__name__} line {line}")
        x = S.as_int(self.need_int(a, st, node))
        y = S.as_int(self.need_int(b, st, node))
        if isinstance(op, ast.Add):
            return I(x + y)
        if isinstance(op, ast.Sub):
            return I(x - y)
        if isinstance(op, ast.Mult):
            return I(x * y)
        if isinstance(op, ast.FloorDiv):
            self.oblige(st, "safe", "div-zero", y != 0, line)
            return I(S.div(x, y))
        if isinstance(op, ast.Mod):
            self.oblige(st, "safe", "div-zero", y != 0, line)
            return I(S.mod(x, y))
        if isinstance(op, ast.Div):
            self.oblige(st, "safe", "div-zero", y != 0, line)
            return RealV(z3.ToReal(x) / z3.ToReal(y))
        if isinstance(op, ast.Pow):
            yv = z3.simplify(y)
            if z3.is_int_value(yv) and 0 <= yv.as_long() <= 4:
                r = z3.IntVal(1)
                for _ in range(yv.as_long()):
                    r = r * x
                return I(r)
        raise Unsupported(f"binary op {type(op).__name__} line {line}")

    def to_seq(self, v):
        """TupV of ints -> SeqV term."""
        if isinstance(v, SeqV):
            return v.t
        if isinstance(v, TupV):
            t = S.c_empty
            for x in v.items:
                if not isinstance(x, (Opt, BoolV)):
                    raise Unsupported("non-int tuple to seq")
                t = S.f_append(t, S.as_int(x))
            return t
        raise Unsupported(f"not a sequence: {v!r}")

    def seq_binop(self, op, a, b, st, node):
        if isinstance(op, ast.Add):
            if isinstance(a, TupV) and isinstance(b, TupV):
                return TupV(a.items + b.items, a.kind)
            return SeqV(S.f_concat(self.to_seq(a), self.to_seq(b)), getattr(a, "kind", "tuple"))
        if isinstance(op, ast.Mult):
            if isinstance(b, (TupV, SeqV)):
                a, b = b, a
            n = S.as_int(self.need_int(b, st, node))
            nv = z3.simplify(n)
            if isinstance(a, TupV) and z3.is_int_value(nv):
                return TupV(a.items * nv.as_long(), a.kind)
            if isinstance(a, TupV) and len(a.items) == 1 and isinstance(a.items[0], Opt):
                return SeqV(S.f_rep(S.as_int(a.items[0]), n), a.kind)
            if isinstance(a, TupV) and len(a.items) == 1:
                return ("rep", a.items[0], n)
        raise Unsupported(f"sequence op {type(op).__name__} line {node.lineno}")

    def expr_BoolOp(self, node, st):
        vals = []
        pushed = 0
        try:
            for sub in node.values:
                v = self.eval(sub, st)
                vals.append(v)
                t = self.truth(v)
                ts = z3.simplify(t)
                # short-circuit on statically decided operands (isinstance tests under the declared types)
                if isinstance(node.op, ast.And) and z3.is_false(ts):
                    break
                if isinstance(node.op, ast.Or) and z3.is_true(ts):
                    break
                self.guards.append(t if isinstance(node.op, ast.And) else z3.Not(t))
                pushed += 1
        finally:
            for _ in range(pushed):
                self.guards.pop()
        if all(isinstance(v, BoolV) for v in vals):
            ts = [v.t for v in vals]
            return BoolV(z3.And(*ts) if isinstance(node.op, ast.And) else z3.Or(*ts))
        res = vals[-1]
        for v in reversed(vals[:-1]):
            t = self.truth(v)
            if isinstance(node.op, ast.And):
                m = self.merge_val(t, res, v) if type(res) is type(v) else None
            else:
                m = self.merge_val(t, v, res) if type(res) is type(v) else None
            if m is None:
                # mixed types: only usable in boolean context
                ts = [self.truth(x) for x in vals]
                return BoolV(z3.And(*ts) if isinstance(node.op, ast.And) else z3.Or(*ts))
            res = m
        return res

    def expr_IfExp(self, node, st):
        static = self.static_test(node.test, st)
        if static is True:
            return self.eval(node.body, st)
        if static is False:
            return self.eval(node.orelse, st)
        c = self.eval_bool(node.test, st)
        self.guards.append(c)
        try:
            a = self.eval(node.body, st)
        finally:
            self.guards.pop()
        self.guards.append(z3.Not(c))
        try:
            b = self.eval(node.orelse, st)
        finally:
            self.guards.pop()
        m = self.merge_val(c, a, b)
        if m is None:
            raise Unsupported(f"conditional expression with arms {a!r} / {b!r} line {node.lineno}")
        return m

    def expr_Compare(self, node, st):
        left = self.eval(node.left, st)
        terms = []
        for op, rn in zip(node.ops, node.comparators):
            right = self.eval(rn, st)
            terms.append(self.compare(op, left, right, st, node))
            left = right
        return BoolV(z3.And(*terms) if len(terms) > 1 else terms[0])

    def compare(self, op, a, b, st, node):
        if isinstance(op, (ast.Is, ast.IsNot)):
            if isinstance(b, Opt) and b.n is True:
                t = S._b(a.n) if isinstance(a, Opt) else z3.BoolVal(False)
            elif isinstance(a, Opt) and a.n is True:
                t = S._b(b.n) if isinstance(b, Opt) else z3.BoolVal(False)
            elif isinstance(a, StrV) and isinstance(b, StrV):
                t = z3.BoolVal(a.s == b.s)
            elif isinstance(a, StrV) != isinstance(b, StrV):
                t = z3.BoolVal(False)
            else:
                raise Unsupported(f"'is' between {a!r} and {b!r} line {node.lineno}")
            return t if isinstance(op, ast.Is) else z3.Not(t)
        if isinstance(op, (ast.Eq, ast.NotEq)):
            t = self.equal(a, b, st, node)
            return t if isinstance(op, ast.Eq) else z3.Not(t)
        if isinstance(op, (ast.In, ast.NotIn)):
            if isinstance(b, MapV):
                t = z3.Select(b.has, S.as_int(self.need_int(a, st, node)))
            elif isinstance(b, TupV):
                t = z3.Or(*[self.equal(a, x, st, node) for x in b.items]) if b.items else z3.BoolVal(False)
            elif isinstance(b, SeqV):
                # x in seq  <=>  not (every element differs from x)
                xv = S.as_int(self.need_int(a, st, node))
                jj = z3.Int("j!in")
                t = z3.Not(z3.ForAll([jj], z3.Implies(z3.And(0 <= jj, jj < S.f_len(b.t)), S.f_at(b.t, jj) != xv),
                                     patterns=[S.f_at(b.t, jj)]))
            elif isinstance(b, tuple) and b and b[0] == "sset":
                t = z3.Or(*[self.equal(a, x, st, node) for x in b[1]]) if b[1] else z3.BoolVal(False)
            else:
                raise Unsupported(f"'in' on {b!r} line {node.lineno}")
            return t if isinstance(op, ast.In) else z3.Not(t)
        if isinstance(a, RealV) or isinstance(b, RealV):
            x = a.t if isinstance(a, RealV) else z3.ToReal(S.as_int(self.need_int(a, st, node)))
            y = b.t if isinstance(b, RealV) else z3.ToReal(S.as_int(self.need_int(b, st, node)))
        else:
            x = S.as_int(self.need_int(a, st, node))
            y = S.as_int(self.need_int(b, st, node))
        if isinstance(op, ast.Lt):
            return x < y
        if isinstance(op, ast.LtE):
            return x <= y
        if isinstance(op, ast.Gt):
            return x > y
        if isinstance(op, ast.GtE):
            return x >= y
        raise Unsupported(f"comparison {type(op).__name__}")

    def equal(self, a, b, st, node):
        if isinstance(a, NanV) or isinstance(b, NanV):
            return z3.BoolVal(False)  # IEEE: NaN compares unequal to everything, itself included
        if isinstance(a, SliceV) and isinstance(b, SliceV):
            return S.slice_eq(a, b)
        if isinstance(a, SliceV) != isinstance(b, SliceV):
            return z3.BoolVal(False)
        if isinstance(a, BoolV) and isinstance(b, BoolV):
            return a.t == b.t
        if isinstance(a, (Opt, BoolV)) and isinstance(b, (Opt, BoolV)):
            a = a if isinstance(a, Opt) else I(S.as_int(a))
            b = b if isinstance(b, Opt) else I(S.as_int(b))
            return S.opt_eq(a, b)
        if isinstance(a, StrV) and isinstance(b, StrV):
            if a.t is None and b.t is None:
                return z3.BoolVal(a.s == b.s)
            return a.term() == b.term()
        if isinstance(a, AbsV) and isinstance(b, AbsV) and a.sort == b.sort:
            return a.t == b.t
        if isinstance(a, ObjV) and isinstance(b, ObjV):
            raise Unsupported("== between opaque objects")
        if isinstance(a, RealV) or isinstance(b, RealV):
            x = a.t if isinstance(a, RealV) else z3.ToReal(S.as_int(self.need_int(a, st, node)))
            y = b.t if isinstance(b, RealV) else z3.ToReal(S.as_int(self.need_int(b, st, node)))
            return x == y
        if isinstance(a, TupV) and isinstance(b, TupV):
            if len(a.items) != len(b.items):
                return z3.BoolVal(False)
            return z3.And(*[self.equal(x, y, st, node) for x, y in zip(a.items, b.items)]) if a.items else z3.BoolVal(True)
        if isinstance(a, (SeqV, TupV)) and isinstance(b, (SeqV, TupV)):
            ta, tb = self.to_seq(a), self.to_seq(b)
            if isinstance(a, SeqV) and isinstance(b, SeqV):
                # equal sequences have equal (prefix) sums: an instance of the prelude lemma eq_sums (proved once per run
                # by the induction schema), so that code which compares layouts and then relies on their extents verifies
                # however it is phrased
                from . import lemmas as L
                st.pc.append(L.eq_sums(ta, tb))
                if "eq_sums" not in self.lemmas_used:
                    self.lemmas_used.append("eq_sums")
            return self.seq_eq(ta, tb)
        if type(a) is not type(b):
            return z3.BoolVal(False)
        raise Unsupported(f"== between {a!r} and {b!r} line {node.lineno}")

    def seq_eq(self, ta, tb):
        j = z3.Int("j!eq")
        return z3.And(S.f_len(ta) == S.f_len(tb),
                      z3.ForAll([j], z3.Implies(z3.And(0 <= j, j < S.f_len(ta)), S.f_at(ta, j) == S.f_at(tb, j)),
                                patterns=[S.f_at(ta, j), S.f_at(tb, j)]))

    def expr_Attribute(self, node, st):
        if isinstance(node.value, ast.Name) and node.value.id not in st.env:
            dotted = f"{node.value.id}.{node.attr}"
            if dotted in ("math.nan", "np.nan"):
                return NanV()
            if dotted in ("math.inf", "np.inf"):
                raise Unsupported("infinity")
        v = self.eval(node.value, st)
        if isinstance(v, SliceV) and node.attr in ("start", "stop", "step"):
            return getattr(v, node.attr)
        if isinstance(v, ObjV):
            return self.obj_field(v, node.attr, node)
        raise Unsupported(f"attribute .{node.attr} on {v!r} line {node.lineno}")

    def obj_field(self, v, attr, node=None):
        """fields of opaque records are created on first access from the declared type
        (an object is an immutable record: the same field always yields the same value)."""
        if attr in v.fields:
            return v.fields[attr]
        decl = self.c.fields.get(v.cls, {})
        if attr not in decl:
            raise Unsupported(f"field {attr!r} of {v.cls} not declared (line {getattr(node, 'lineno', '?')})")
        val = self.fresh_value(decl[attr], f"{getattr(v, 'base', v.cls)}.{attr}")
        v.fields[attr] = val
        return val

    def expr_Subscript(self, node, st):
        base = self.eval(node.value, st)
        sl = node.slice
        if isinstance(sl, ast.Slice):
            lo = self.eval(sl.lower, st) if sl.lower is not None else NONE
            hi = self.eval(sl.upper, st) if sl.upper is not None else NONE
            stp = self.eval(sl.step, st) if sl.step is not None else NONE
            return self.subslice(base, lo, hi, stp, st, node)
        k = self.eval(sl, st)
        if isinstance(base, MapV):
            key = S.as_int(self.need_int(k, st, node))
            self.oblige(st, "safe", "key", z3.Select(base.has, key), node.lineno, note="dict key must be present")
            return base.get(key)
        if isinstance(base, TupV):
            idx = z3.simplify(S.as_int(self.need_int(k, st, node)))
            n = len(base.items)
            if z3.is_int_value(idx):
                i = idx.as_long()
                if not (-n <= i < n):
                    self.oblige(st, "safe", "index", z3.BoolVal(False), node.lineno)
                    return base.items[0] if base.items else NONE
                return base.items[i]
            self.oblige(st, "safe", "index", z3.And(-n <= idx, idx < n), node.lineno)
            if n == 0:
                raise PathEnd()
            res = base.items[-1]
            pos = z3.If(idx < 0, idx + n, idx)
            for i in range(n - 2, -1, -1):
                m = self.merge_val(pos == i, base.items[i], res)
                if m is None:
                    raise Unsupported(f"symbolic index into heterogeneous tuple line {node.lineno}")
                res = m
            return res
        if isinstance(base, RowsV):
            idx = S.as_int(self.need_int(k, st, node))
            n = base.n
            self.oblige(st, "safe", "index", z3.And(-n <= idx, idx < n), node.lineno, note="sequence index in range")
            return base.get(z3.If(idx < 0, idx + n, idx))
        if isinstance(base, SeqV):
            idx = S.as_int(self.need_int(k, st, node))
            n = S.f_len(base.t)
            self.oblige(st, "safe", "index", z3.And(-n <= idx, idx < n), node.lineno, note="sequence index in range")
            sidx = z3.simplify(idx)
            if z3.is_int_value(sidx) and sidx.as_long() < 0:
                return I(S.f_at(base.t, n + sidx.as_long()))
            if z3.is_int_value(sidx):
                return I(S.f_at(base.t, sidx))
            return I(S.pyat(base, idx))
        if isinstance(base, ObjV):
            # an assumed model of a record's indexing, declared by the contract as externals["Cls.__getitem__"]
            ext = getattr(self.c.cls, "externals", None) or {}
            key = f"{base.cls}.__getitem__"
            if key in ext:
                self.assumed.add(f"{key}: {(ext[key].__doc__ or '').strip()}")
                return wrap_any(ext[key](self, st, [base, k], {}, node))
        raise Unsupported(f"subscript on {base!r} line {node.lineno}")

    def subslice(self, base, lo, hi, stp, st, node):
        stepc = None
        if not (isinstance(stp, Opt) and stp.n is True):
            sv = z3.simplify(S.as_int(stp))
            if not z3.is_int_value(sv):
                raise Unsupported("symbolic slicing step")
            stepc = sv.as_long()
        if isinstance(base, TupV):
            def const(o):
                if isinstance(o, Opt) and o.n is True:
                    return None
                t = z3.simplify(S.as_int(o))
                if z3.is_int_value(t):
                    return t.as_long()
                raise _Sym()
            try:
                return TupV(base.items[slice(const(lo), const(hi), stepc)], base.kind)
            except _Sym:
                base = SeqV(self.to_seq(base), base.kind)
        if isinstance(base, SeqV):
            n = S.f_len(base.t)
            if stepc == -1 and lo.n is True and hi.n is True:
                return SeqV(S.f_rev(base.t), base.kind)
            if stepc not in (None, 1):
                raise Unsupported("stepped slicing of symbolic sequence")
            return S.pyslice(base, lo, hi)
        raise Unsupported(f"slicing of {base!r} line {node.lineno}")

    def expr_DictComp(self, node, st):
        """{k: v for k in <fixed-length sequence of ints>}: successive insertions into an int-valued map"""
        if len(node.generators) != 1 or node.generators[0].ifs:
            raise Unsupported("dict comprehension with filters / several generators")
        g = node.generators[0]
        seq = self.iter_static(g.iter, st)
        if seq is None:
            raise Unsupported("dict comprehension over a symbolic sequence")
        m = MapV.empty("int")
        for x in seq:
            s2 = st.copy()
            base_len = len(s2.pc)
            self.assign(g.target, x, s2, node)
            k = S.as_int(self.need_int(self.eval(node.key, s2), s2, node))
            v = self.need_int(self.eval(node.value, s2), s2, node)
            st.pc.extend(s2.pc[base_len:])
            m = m.set(k, v)
        return m

    def expr_ListComp(self, node, st):
        return self.comprehension(node, st, "list")

    def expr_GeneratorExp(self, node, st):
        return self.comprehension(node, st, "tuple")

    def comprehension(self, node, st, kind):
        if len(node.generators) == 2 and not node.generators[0].ifs:
            # `f(c) for dim in xs for c in dim` with xs of fixed length: one inner comprehension per element, joined
            g0 = node.generators[0]
            outer = self.iter_static(g0.iter, st)
            if outer is None:
                raise Unsupported("nested comprehension over a symbolic outer sequence")
            inner = ast.copy_location(type(node)(elt=node.elt, generators=node.generators[1:]), node) \
                if not isinstance(node, ast.DictComp) else None
            if inner is None:
                raise Unsupported("nested dict comprehension")
            parts = []
            for x in outer:
                s2 = st.copy()
                base_len = len(s2.pc)
                self.assign(g0.target, x, s2, node)
                parts.append(self.comprehension(inner, s2, kind))
                st.pc.extend(s2.pc[base_len:])
            if all(isinstance(p_, TupV) for p_ in parts):
                return TupV([i for p_ in parts for i in p_.items], kind)
            t = None
            for p_ in parts:
                t = self.to_seq(p_) if t is None else S.f_concat(t, self.to_seq(p_))
            return SeqV(S.c_empty if t is None else t, kind)
        if len(node.generators) != 1:
            raise Unsupported("nested comprehension")
        g = node.generators[0]
        seq = self.iter_static(g.iter, st)
        if seq is not None:
            items = []
            for x in seq:
                s = st.copy()
                base_len = len(s.pc)
                self.assign(g.target, x, s, node)
                ok = True
                for cond in g.ifs:
                    static = self.static_test(cond, s)
                    if static is None:
                        raise Unsupported("dynamic filter in static comprehension")
                    ok = ok and static
                if ok:
                    items.append(self.eval(node.elt, s))
                # facts learnt while evaluating the element (callee postconditions, builtin models) stay valid
                st.pc.extend(s.pc[base_len:])
            return TupV(items, kind)
        if g.ifs:
            raise Unsupported(f"filtered comprehension over symbolic sequence line {node.lineno}")
        itv = self.iter_symbolic(g.iter, st, node)
        n = itv["n"]
        j = self.fresh_int("cj")
        s = st.copy()
        base_len = len(s.pc)
        ndefs = len(self.ctx.defs)
        self.guards.append(z3.And(0 <= j, j < n))
        self.ctx.binders.append(j)
        try:
            elem0 = itv["elem"](j, s)
            self.assign(g.target, elem0, s, node)
            elt = self.eval(node.elt, s)
        finally:
            self.ctx.binders.pop()
            self.guards.pop()
        jj = z3.Int("j!comp")
        rng_ = z3.And(0 <= jj, jj < n)
        # definitional constraints created for the element (division witnesses, range counts) hold for every element
        newdefs = list(self.ctx.defs[ndefs:])
        del self.ctx.defs[ndefs:]
        del self.ctx.defs.anchors[ndefs:]
        for d in newdefs:
            self.ctx.defs.append(z3.ForAll([jj], z3.Implies(rng_, z3.substitute(d, (j, jj)))), None)
        for f in s.pc[base_len:]:
            st.pc.append(z3.ForAll([jj], z3.Implies(rng_, z3.substitute(f, (j, jj)))))
        nlen = n  # every iter_symbolic length is a sequence length (non-negative by the prelude)

        def sliceseq_of(sl):
            self.nfresh += 1
            out = SliceSeqV.fresh(f"comp!{self.nfresh}", nlen)
            comps = {"n0": S._b(sl.start.n), "v0": S._i(sl.start.v), "n1": S._b(sl.stop.n), "v1": S._i(sl.stop.v),
                     "n2": S._b(sl.step.n), "v2": S._i(sl.step.v)}
            for k, t in comps.items():
                st.pc.append(z3.ForAll([jj], z3.Implies(rng_, z3.Select(out.a[k], jj) == z3.substitute(t, (j, jj))),
                                       patterns=[z3.Select(out.a[k], jj)]))
            return out

        if isinstance(elt, SliceV):
            return sliceseq_of(elt)
        if isinstance(elt, TupV) and elt.items and all(isinstance(x, SliceV) for x in elt.items):
            return TupSeqV(nlen, [sliceseq_of(x) for x in elt.items], "list" if kind == "list" else "tuple")
        out = self.fresh_value("seq" if kind == "tuple" else "lseq", "comp")
        e = S.as_int(self.need_int(elt, s, node))
        st.pc.append(S.f_len(out.t) == z3.If(n > 0, n, 0))
        pats = [S.f_at(out.t, jj)]
        if isinstance(elem0, Opt) and elem0.n is False and z3.is_app(S._i(elem0.v)) and S._i(elem0.v).decl().name() == "iseq_at" \
                and S._i(elem0.v).arg(1).eq(j):
            # also instantiate the element definition wherever the *source* element is mentioned (a goal about the
            # source sequence then reaches facts stated over the comprehension)
            pats.append(z3.substitute(S._i(elem0.v), (j, jj)))
        st.pc.append(z3.ForAll([jj], z3.Implies(rng_, S.f_at(out.t, jj) == z3.substitute(e, (j, jj))), patterns=pats))
        return out

    def expr_Call(self, node, st):
        outs = list(self.eval_call_paths(node, st, allow_split=False))
        return outs[0][2]

    # calls ----------------------------------------------------------------------
    def dotted(self, f):
        if isinstance(f, ast.Name):
            return f.id
        if isinstance(f, ast.Attribute):
            b = self.dotted(f.value)
            return None if b is None else f"{b}.{f.attr}"
        return None

    def is_contract_call(self, node, st):
        name = self.dotted(node.func)
        if name is None:
            return False
        if isinstance(node.func, ast.Name) and name in st.env:
            return False
        return self.find_callee(name) is not None

    def find_callee(self, name):
        """contracts for a module-level function called by simple name."""
        if "." in name:
            return None
        ext = getattr(self.c.cls, "externals", None)
        if ext and name in ext:
            return None  # an assumed model declared by this contract takes precedence
        if name in self.mod.funcs:
            cs = [c for c in for_function(self.mod.relpath, name) if not c.bounded_only]
            return cs or None
        origin = self.local_imports.get(name) or self.mod.imports.get(name)
        if origin and origin.startswith("dask_array"):
            modname, fn = origin.rsplit(".", 1)
            rel = modname.replace(".", "/") + ".py"
            cs = for_function(rel, fn)
            if not cs and os.path.isdir(os.path.join(self.repo, modname.replace(".", "/"))):
                # re-exported from a package __init__: search all contracts by function name
                cs = [c for c in REGISTRY.values() if c.qualname == fn]
            cs = [c for c in cs if not c.bounded_only]
            return cs or None
        return None

    def eval_call_paths(self, node, st, allow_split=True):
        name = self.dotted(node.func)
        if name is not None and not (isinstance(node.func, ast.Name) and name in st.env):
            cs = self.find_callee(name)
            if cs:
                yield from self.contract_call(node, name, cs, st, allow_split)
                return
        yield ("val", st, self.builtin_call(node, name, st))

    def contract_call(self, node, name, cs, st, allow_split):
        args = [self.eval(a, st) for a in node.args]
        kwargs = {k.arg: self.eval(k.value, st) for k in node.keywords}
        c = self.select_spec(name, cs, args, kwargs, node)
        self.called.add(c.key)
        params = {}
        pnames = list(c.params)
        unit_fn = modinfo(self.repo, c.file).funcs[c.qualname]
        argnames = [a.arg for a in unit_fn.args.args]
        for an, v in zip(argnames, args):
            params[an] = v
        params.update(kwargs)
        for an in argnames:
            if an not in params:
                raise Unsupported(f"call to {name} line {node.lineno}: default for {an} not supported")
        # a parameter the callee contract does not declare was fixed to its default value when the callee was verified:
        # the contract may only be used where the caller passes that same value
        ndef = len(unit_fn.args.defaults)
        defaults = dict(zip(argnames[len(argnames) - ndef:], unit_fn.args.defaults)) if ndef else {}
        for an in argnames:
            if an in c.params or an == "self":
                continue
            if an not in defaults or not _same_static(self.eval(defaults[an], st), params[an]):
                raise Unsupported(f"call to {name} line {node.lineno}: contract {c.key} was verified for the default value of "
                                  f"{an!r} only, the caller passes {params[an]!r}")
        pre = self.eval_requires(c, params)
        self.oblige(st, "call-pre", f"{c.name}", pre, node.lineno, note=f"precondition of {c.name} at call site")
        # normal return
        s1 = st.copy() if (allow_split and c.raises) else st
        res = self.fresh_value(c.result, f"ret_{c.qualname.split('.')[-1]}") if c.result else NONE
        post = self.ensures_for_call(c, params, res)
        for p in post:
            s1.pc.append(p)
        raising = []
        if c.raises:
            for exc, cond in c.raises.items():
                s2 = st.copy()
                if cond:
                    s2.pc.append(S._t(S.And(cond(**{k: unwrap(v) for k, v in params.items()}))))
                s2.trail.append((node.lineno, f"raises {exc}"))
                if self.feasible(s2):
                    raising.append(("raise", s2, (exc, node.lineno)))
            if not allow_split:
                # inside an expression: the raising outcomes leave through the enclosing statement
                if not hasattr(self, "pending_raises"):
                    self.pending_raises = []
                self.pending_raises.extend(raising)
                raising = []
        self.call_log.append((c.qualname, params, res))
        yield ("val", s1, res)
        yield from raising

    def ensures_for_call(self, c, params, res):
        """callee postcondition as assumptions.  Clauses that mention callee
        ghosts (universally quantified there) are instantiated at the caller's
        ghosts of the same name, and additionally kept as a quantified fact
        when the callee contract supplies trigger patterns."""
        if c.ensures is None:
            return []
        out = []
        if not c.ghosts:
            return list(self.ensures_clauses(c, params, res, {}).values())
        # 1. instantiate at same-named caller ghosts (sound: universal instantiation)
        inst = {g: self.ghosts[g] for g in c.ghosts if g in self.ghosts}
        gvars = []
        ghosts = {}
        for g, ty in c.ghosts.items():
            if ty != "int":
                raise Unsupported("non-int ghost in callee contract")
            self.nfresh += 1
            gv = z3.Int(f"g_{g}!{self.nfresh}")
            ghosts[g] = I(gv)
            gvars.append(gv)
        # evaluate the clauses with the ghosts as binders: definitional constraints created for them (division
        # witnesses, range counts) are then facts about every ghost value, not about one constant
        ndefs = len(self.ctx.defs)
        self.ctx.binders.extend(gvars)
        try:
            clauses = self.ensures_clauses(c, params, res, ghosts)
            pats_by = {}
            if c.call_patterns is not None:
                kw = {k: unwrap(v) for k, v in params.items()}
                kw.update({k: unwrap(v) for k, v in ghosts.items()})
                pats_by = c.call_patterns(result=unwrap(res), **kw) or {}
        finally:
            del self.ctx.binders[len(self.ctx.binders) - len(gvars):]
        newdefs = list(self.ctx.defs[ndefs:])
        del self.ctx.defs[ndefs:]
        del self.ctx.defs.anchors[ndefs:]
        subs = [(S._i(ghosts[g].v), S.as_int(inst[g])) for g in inst]
        quantified_any = False
        for name, t in clauses.items():
            used = [g for g in gvars if _occurs(t, g)]
            if not used:
                out.append(t)
                continue
            if all(any(g.eq(a) for a, _ in subs) for g in used):
                out.append(z3.substitute(t, *subs))
            pats = pats_by.get(name)
            if pats:
                out.append(z3.ForAll(used, t, patterns=pats))
                quantified_any = True
        for d in newdefs:
            used = [g for g in gvars if _occurs(d, g)]
            if not used:
                self.ctx.defs.append(d, None)
                continue
            if all(any(g.eq(a) for a, _ in subs) for g in used):
                self.ctx.defs.append(z3.substitute(d, *subs), None)
            if quantified_any:
                self.ctx.defs.append(z3.ForAll(used, d), None)
        return out

    def select_spec(self, name, cs, args, kwargs, node):
        want = self.c.use.get(name)
        if want:
            for c in cs:
                if c.spec == want:
                    return c
        ok = []
        for c in cs:
            tys = list(c.params.values())
            if len(tys) < len(args):
                continue
            if all(type_matches(t, a) for t, a in zip(tys, args)):
                ok.append(c)
        if len(ok) > 1 and kwargs:
            # prefer the specialisations that declare every keyword the caller passes
            full = [c for c in ok if all(k in c.params for k in kwargs)]
            if full:
                ok = full
        if len(ok) > 1:
            fewest = min(len(c.params) for c in ok)
            ok = [c for c in ok if len(c.params) == fewest] if not kwargs else ok
        if len(ok) == 1:
            return ok[0]
        if not ok:
            raise Unsupported(f"no contract specialisation of {name} matches the arguments at line {node.lineno}: {args!r}")
        raise Unsupported(f"ambiguous specialisation of {name} at line {node.lineno}: {[c.spec for c in ok]}")

    # builtins -------------------------------------------------------------------
    def builtin_call(self, node, name, st):
        from . import builtins as B
        ext = getattr(self.c.cls, "externals", None)
        if ext and name in ext:
            args = [self.eval(a, st) for a in node.args]
            kwargs = {k.arg: self.eval(k.value, st) for k in node.keywords}
            self.assumed.add(f"{name}: {(ext[name].__doc__ or '').strip()}")
            return wrap_any(ext[name](self, st, args, kwargs, node))
        return B.call(self, node, name, st)


def _same_static(a, b):
    """two values are the same compile-time constant (None, an int/bool literal, a string literal)"""
    if isinstance(a, Opt) and isinstance(b, Opt):
        if a.n is True or b.n is True:
            return a.n is True and b.n is True
        if a.n is False and b.n is False:
            x, y = z3.simplify(S._i(a.v)), z3.simplify(S._i(b.v))
            return z3.is_int_value(x) and z3.is_int_value(y) and x.as_long() == y.as_long()
        return False
    if isinstance(a, BoolV) and isinstance(b, BoolV):
        x, y = z3.simplify(a.t), z3.simplify(b.t)
        return (z3.is_true(x) and z3.is_true(y)) or (z3.is_false(x) and z3.is_false(y))
    if isinstance(a, StrV) and isinstance(b, StrV):
        return a.s is not None and a.s == b.s
    return False


def _mod_operands(lname, a):
    if lname == "mod_shift":
        y, m, st = a
        return [(y + m * st, st), (y, st)]
    if lname in ("mod_small", "mod_small_neg"):
        return [(a[0], a[1])]
    if lname == "mod_multiple":
        return [(a[0] * a[1], a[1])]
    if lname == "mod_neg_zero":
        return [(a[0], a[1]), (-a[0], a[1])]
    if lname == "ceil_identity":
        return [(a[0] - 1, a[1]), (-a[0], a[1])]
    if lname == "div_neg":
        return [(a[0], a[1]), (-a[0], -a[1])]
    if lname == "nested_ceil":
        n, x, y = a
        return [(-n, x), (S.f_pydiv(-n, x), y), (-n, x * y)]
    if lname == "ceil_within_one":
        return [(-a[0], a[1])]
    return []


class FragResult:
    """final local variables of a verified fragment, as seen by the contract (attribute access)"""

    def __init__(self, env):
        self._env = env

    def __getattr__(self, k):
        env = object.__getattribute__(self, "_env")
        if k not in env:
            raise AttributeError(k)
        return unwrap(env[k])


def find_fragment(fn, frag):
    first, last = frag["first"].strip(), frag["last"].strip()
    nth = int(frag.get("last_nth", 1))  # which occurrence of `last` after `first` closes the fragment
    first_nth = [int(frag.get("first_nth", 1))]  # which occurrence of `first` (in source order) opens it

    def head(stmt):
        return ast.unparse(stmt).splitlines()[0].strip()

    def search(body):
        for i, st_ in enumerate(body):
            if head(st_) == first:
                first_nth[0] -= 1
                if first_nth[0] > 0:
                    continue
                seen = 0
                for j in range(i, len(body)):
                    if head(body[j]) == last:
                        seen += 1
                        if seen == nth:
                            return body[i:j + 1]
                raise Unsupported(f"fragment end {last!r} not found after {first!r}")
            for attr in ("body", "orelse", "finalbody", "handlers"):
                sub = getattr(st_, attr, None)
                if isinstance(sub, list) and sub:
                    if attr == "handlers":
                        for h in sub:
                            r = search(h.body)
                            if r:
                                return r
                    else:
                        r = search(sub)
                        if r:
                            return r
        return None

    r = search(fn.body)
    if not r:
        raise Unsupported(f"fragment start {first!r} not found in {fn.name}")
    return r


class _NotStatic(Exception):
    pass


class _Sym(Exception):
    pass


class _RaisePath(Exception):
    def __init__(self, exc, st, line):
        self.exc, self.st, self.line = exc, st, line


def _conjuncts(t):
    out = []
    stack = [t]
    while stack:
        e = stack.pop()
        if z3.is_and(e):
            stack.extend(reversed(e.children()))
        else:
            out.append(e)
    return out


def _has_quantifier(t):
    seen = set()
    stack = [t]
    while stack:
        e = stack.pop()
        if e.get_id() in seen:
            continue
        seen.add(e.get_id())
        if z3.is_quantifier(e):
            return True
        stack.extend(e.children())
    return False


def _occurs(t, v):
    seen = set()
    stack = [t]
    vid = v.get_id()
    while stack:
        e = stack.pop()
        if e.get_id() in seen:
            continue
        seen.add(e.get_id())
        if e.get_id() == vid:
            return True
        if z3.is_quantifier(e):
            stack.append(e.body())
        else:
            stack.extend(e.children())
    return False


def rows_kinds(ty):
    """'rows:4' -> four int columns; 'rows:int,optint,range' -> the listed column kinds"""
    spec = ty[5:].strip()
    if spec.isdigit():
        return ["int"] * int(spec)
    return [k.strip() for k in spec.split(",")]


def split_types(s):
    out, depth, cur = [], 0, ""
    for ch in s:
        if ch == "(":
            depth += 1
        if ch == ")":
            depth -= 1
        if ch == "," and depth == 0:
            out.append(cur)
            cur = ""
        else:
            cur += ch
    if cur:
        out.append(cur)
    return [x.strip().strip("()") if x.strip().startswith("(") else x.strip() for x in out]


def type_matches(ty, v):
    ty = ty.strip()
    if ty == "int":
        return isinstance(v, BoolV) or (isinstance(v, Opt) and v.definite())
    if ty == "optint":
        return isinstance(v, Opt)
    if ty == "none":
        return isinstance(v, Opt) and v.n is True
    if ty == "bool":
        return isinstance(v, BoolV)
    if ty == "slice":
        return isinstance(v, SliceV)
    if ty in ("seq", "lseq"):
        return isinstance(v, SeqV) or (isinstance(v, TupV) and all(isinstance(x, Opt) for x in v.items))
    if ty == "nan":
        return isinstance(v, NanV)
    if ty == "real":
        return isinstance(v, RealV)
    if ty.startswith("map:"):
        return isinstance(v, MapV)
    if ty.startswith("tup:") or ty.startswith("list:"):
        if not isinstance(v, TupV):
            return False
        items = split_types(ty.split(":", 1)[1])
        return len(items) == len(v.items) and all(type_matches(t, x) for t, x in zip(items, v.items))
    if ty.startswith("obj:"):
        return isinstance(v, ObjV)
    if ty == "sliceseq":
        return isinstance(v, SliceSeqV)
    if ty.startswith("tupseq:"):
        return isinstance(v, TupSeqV) and len(v.comps) == len(split_types(ty[7:]))
    if ty.startswith("rows:"):
        return isinstance(v, RowsV) and v.kinds == rows_kinds(ty)
    if ty == "const":
        return True
    return False
