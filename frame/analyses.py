"""L3: static frame / ownership / effect analyses on the real AST (no SMT).

* kernels   (C10, C11, C25): no task kernel writes into a value it borrowed
* importfx  (C26): importing any dask_array module cannot reach xarray registration
* srcreads  (C29): FromArray source reads are confined to ndarray-guarded sites
* inplace   (C11): Array._expr is only assigned in the sanctioned methods

Each analysis yields *sites* (the obligations) and *failures*.  A failure is a
violation with a replay file describing the site; reflection / exec / dynamic
imports on a relevant path are escape hatches and make the result undecided.
"""
from __future__ import annotations

import ast
import json
import os

from pyvc import driver as D

# --------------------------------------------------------------------------
# helpers
# --------------------------------------------------------------------------


def parse(repo, rel):
    with open(os.path.join(repo, rel)) as f:
        src = f.read()
    return ast.parse(src), src


def dotted(node):
    if isinstance(node, ast.Name):
        return node.id
    if isinstance(node, ast.Attribute):
        b = dotted(node.value)
        return None if b is None else f"{b}.{node.attr}"
    return None


def all_modules(repo):
    out = []
    base = os.path.join(repo, "dask_array")
    for root, dirs, files in os.walk(base):
        dirs[:] = [d for d in dirs if d not in ("tests", "__pycache__")]
        for f in files:
            if f.endswith(".py"):
                rel = os.path.relpath(os.path.join(root, f), repo)
                out.append(rel)
    return sorted(out)


def modname(rel):
    m = rel[:-3].replace("/", ".")
    if m.endswith(".__init__"):
        m = m[: -len(".__init__")]
    return m


# --------------------------------------------------------------------------
# C26: import-time effects
# --------------------------------------------------------------------------
class InitVisitor(ast.NodeVisitor):
    """statements executed when a module is imported: module top level and class
    bodies, decorators, default values; not function bodies; not `if TYPE_CHECKING`."""

    def __init__(self):
        self.imports = []  # (module, names, lineno, level)
        self.calls = []  # (dotted name, lineno)
        self.dynamic = []

    def visit_FunctionDef(self, node):
        for d in node.decorator_list:
            self.visit(d)
        for d in node.args.defaults + [k for k in node.args.kw_defaults if k is not None]:
            self.visit(d)

    visit_AsyncFunctionDef = visit_FunctionDef

    def visit_Lambda(self, node):
        return

    def visit_If(self, node):
        t = dotted(node.test)
        if t in ("TYPE_CHECKING", "typing.TYPE_CHECKING"):
            for s in node.orelse:
                self.visit(s)
            return
        self.generic_visit(node)

    def visit_Import(self, node):
        for a in node.names:
            self.imports.append((a.name, None, node.lineno, 0))

    def visit_ImportFrom(self, node):
        self.imports.append((node.module or "", [a.name for a in node.names], node.lineno, node.level))

    def visit_Call(self, node):
        d = dotted(node.func)
        if d:
            self.calls.append((d, node.lineno))
            if d in ("importlib.import_module", "__import__", "import_module"):
                arg = node.args[0] if node.args else None
                lit = arg.value if isinstance(arg, ast.Constant) else None
                self.dynamic.append((d, lit, node.lineno))
            if d in ("exec", "eval"):
                self.dynamic.append((d, None, node.lineno))
        self.generic_visit(node)


FORBIDDEN_MODULES = ("dask_array._xarray",)
FORBIDDEN_CALLS = ("_ensure_registered", "register", "list_chunkmanagers", "dask_array.xarray.register",
                   "xarray.register", "_xarray._ensure_registered")


def resolve_import(cur, module, names, level):
    """absolute module names possibly imported by this statement"""
    out = []
    if level:
        parts = cur.split(".")
        # cur is a module; package of cur:
        pkg = parts[:-1] if not cur.endswith("__init__") else parts
        pkg = pkg[: len(pkg) - (level - 1)] if level > 1 else pkg
        base = ".".join(pkg + ([module] if module else []))
    else:
        base = module
    out.append(base)
    for n in names or []:
        out.append(f"{base}.{n}")
    return out


def importfx(repo):
    mods = {modname(r): r for r in all_modules(repo)}
    info = {}
    for m, rel in mods.items():
        tree, _ = parse(repo, rel)
        v = InitVisitor()
        for stmt in tree.body:
            v.visit(stmt)
        info[m] = v
    sites = 0
    failures = []
    undecided = []
    # edges of the init-time import graph restricted to dask_array
    edges = {}
    for m, v in info.items():
        cur = m if not mods[m].endswith("__init__.py") else m + ".__init__"
        tgt = set()
        for module, names, line, level in v.imports:
            sites += 1
            for cand in resolve_import(cur, module, names, level):
                if cand in mods:
                    tgt.add((cand, line))
                # importing a submodule imports its parent packages
                parts = cand.split(".")
                for i in range(1, len(parts)):
                    p = ".".join(parts[:i])
                    if p in mods:
                        tgt.add((p, line))
        edges[m] = tgt
    # 1. no module other than the xarray opt-in module reaches dask_array._xarray at import time
    reported = set()
    for m in mods:
        if m in FORBIDDEN_MODULES:
            continue
        seen = {m: None}
        stack = [m]
        while stack:
            c = stack.pop()
            for (t, line) in edges.get(c, ()):
                if t not in seen:
                    seen[t] = (c, line)
                    stack.append(t)
        for bad in FORBIDDEN_MODULES:
            if bad in seen:
                chain = []
                c = bad
                while seen[c] is not None:
                    p, line = seen[c]
                    chain.append(f"{mods[p]}:{line} imports {c}")
                    c = p
                edge = chain[0] if chain else m  # the statement that pulls the forbidden module in
                if edge not in reported:
                    reported.add(edge)
                    failures.append({"site": edge.split(" imports ")[0] if " imports " in edge else f"import of {m}",
                                     "what": f"importing {m} (and every module that imports it) loads {bad} at import time",
                                     "chain": chain[::-1]})
    # 2. no init-time call to the registration functions, in any module
    for m, v in info.items():
        for name, line in v.calls:
            sites += 1
            last = name.split(".")[-1]
            if last in ("_ensure_registered", "list_chunkmanagers") or (last == "register" and ("xarray" in name or m.endswith("xarray"))):
                failures.append({"site": f"{mods[m]}:{line}", "what": f"import-time call to {name}"})
        for d, lit, line in v.dynamic:
            sites += 1
            if lit is None or any(lit.startswith(b) for b in FORBIDDEN_MODULES):
                if lit is None:
                    undecided.append({"site": f"{mods[m]}:{line}", "what": f"dynamic {d} with a non-literal argument at import time"})
                else:
                    failures.append({"site": f"{mods[m]}:{line}", "what": f"import-time dynamic import of {lit}"})
    # 3. _ensure_registered is only called from dask_array/xarray.py::register
    for m, rel in mods.items():
        tree, _ = parse(repo, rel)
        for fn in ast.walk(tree):
            if isinstance(fn, (ast.FunctionDef, ast.AsyncFunctionDef)):
                for n in ast.walk(fn):
                    if isinstance(n, ast.Call) and (dotted(n.func) or "").split(".")[-1] == "_ensure_registered":
                        sites += 1
                        if not (rel == "dask_array/xarray.py" and fn.name == "register"):
                            failures.append({"site": f"{rel}:{n.lineno}", "what": f"_ensure_registered called from {fn.name}, "
                                                                                 "not only from dask_array.xarray.register"})
    # 4. no entry point takes over xarray's plugin discovery
    try:
        import tomllib
        with open(os.path.join(repo, "pyproject.toml"), "rb") as f:
            py = tomllib.load(f)
        eps = py.get("project", {}).get("entry-points", {})
        sites += 1
        for group in eps:
            if "xarray" in group:
                failures.append({"site": "pyproject.toml", "what": f"entry-point group {group!r} registers with xarray at install time"})
    except Exception as e:  # pragma: no cover
        undecided.append({"site": "pyproject.toml", "what": f"cannot parse: {e}"})
    return {"sites": sites, "failures": failures, "undecided": undecided, "modules": len(mods)}


# --------------------------------------------------------------------------
# C29: source reads in from_array
# --------------------------------------------------------------------------
def srcreads(repo):
    rel = "dask_array/io/_from_array.py"
    tree, src = parse(repo, rel)
    sites = 0
    failures = []
    cls = next(n for n in tree.body if isinstance(n, ast.ClassDef) and n.name == "FromArray")
    for fn in cls.body:
        if not isinstance(fn, ast.FunctionDef):
            continue
        # names bound to the source object in this method
        srcnames = {"self.array"}
        for n in ast.walk(fn):
            if isinstance(n, ast.Assign) and dotted(n.value) in srcnames:
                for t in n.targets:
                    if isinstance(t, ast.Name):
                        srcnames.add(t.id)
        guarded = guarded_nodes(fn, "is_ndarray")
        for n in ast.walk(fn):
            site = None
            if isinstance(n, ast.Subscript) and dotted(n.value) in srcnames and isinstance(n.ctx, ast.Load):
                site = f"subscript of the source ({ast.unparse(n)[:60]})"
            elif isinstance(n, ast.Call):
                d = dotted(n.func) or ""
                if d in ("np.asarray", "np.asanyarray", "np.array", "numpy.asarray") and n.args and dotted(n.args[0]) in srcnames:
                    site = f"{d} of the source"
                elif d.endswith(".copy") and dotted(n.func.value) in srcnames:
                    site = "copy of the source"
                elif d.endswith(".__array__") and dotted(n.func.value) in srcnames:
                    site = "__array__ of the source"
            if site is None:
                continue
            sites += 1
            if id(n) not in guarded:
                failures.append({"site": f"{rel}:{n.lineno} in FromArray.{fn.name}",
                                 "what": f"{site} is not confined to the `is_ndarray` branches: a non-NumPy source could be read "
                                         "while building or inspecting"})
    return {"sites": sites, "failures": failures, "undecided": []}


def guarded_nodes(fn, flag):
    """ids of nodes that only execute when `flag` (a local bool) is true"""
    out = set()

    def positive(test):
        # flag, flag and ..., (flag and not x), ...
        if isinstance(test, ast.Name) and test.id == flag:
            return True
        if isinstance(test, ast.BoolOp) and isinstance(test.op, ast.And):
            return any(positive(v) for v in test.values)
        return False

    def mark(nodes):
        for s in nodes:
            for n in ast.walk(s):
                out.add(id(n))

    for n in ast.walk(fn):
        if isinstance(n, ast.If) and positive(n.test):
            mark(n.body)
    return out


# --------------------------------------------------------------------------
# C10 / C11 / C25: kernel ownership
# --------------------------------------------------------------------------
ALIASING_FUNCS = {
    "np.asarray", "np.asanyarray", "asarray", "asanyarray", "np.flip", "np.expand_dims", "np.squeeze", "np.ravel",
    "np.broadcast_to", "np.moveaxis", "np.swapaxes", "np.transpose", "np.reshape", "np.atleast_1d", "np.atleast_2d",
    "np.real", "np.imag", "np.ascontiguousarray", "np.asfortranarray", "np.lib.stride_tricks.sliding_window_view",
    "sliding_window_view", "np.lib.stride_tricks.as_strided", "meta_from_array", "asarray_safe", "asanyarray_safe",
    "np.diagonal", "np.rollaxis", "getitem", "operator.getitem", "np.take_along_axis_view",
}
ALIASING_METHODS = {"view", "reshape", "transpose", "squeeze", "ravel", "swapaxes", "diagonal", "astype_view", "T", "real",
                    "imag", "flat", "base", "data", "__getitem__", "byteswap_view", "newbyteorder"}
FRESH_FUNCS_PREFIX = ("np.empty", "np.zeros", "np.ones", "np.full", "np.arange", "np.linspace", "np.concatenate", "np.stack",
                      "np.where", "np.array", "np.copy", "np.sort", "np.argsort", "np.cumsum", "np.cumprod", "np.take",
                      "np.compress", "np.unique", "np.pad", "np.tile", "np.repeat", "np.dot", "np.matmul", "np.einsum",
                      "np.add", "np.subtract", "np.multiply", "np.divide", "np.maximum", "np.minimum", "np.sum", "np.prod",
                      "np.max", "np.min", "np.mean", "np.var", "np.nan", "np.arg", "np.partition", "np.argpartition",
                      "np.ma.", "np.isnan", "np.abs", "np.sqrt", "np.power", "np.logical", "np.bitwise", "np.diff",
                      "np.gradient", "np.searchsorted", "np.digitize", "np.bincount", "np.histogram", "np.lexsort",
                      "np.take_along_axis", "np.delete", "np.insert", "np.append", "np.roll", "np.block", "np.vstack",
                      "np.hstack", "np.dstack", "np.meshgrid", "np.indices", "np.ix_", "np.result_type", "np.dtype",
                      "np.float", "np.int", "np.bool", "np.count_nonzero", "np.nonzero", "np.flatnonzero", "np.argwhere",
                      "np.clip", "np.round", "np.trunc", "np.floor", "np.ceil", "np.errstate", "np.broadcast_shapes",
                      "list", "dict", "tuple", "set", "sorted", "len", "range", "zip", "enumerate", "int", "float", "bool",
                      "sum", "max", "min", "abs", "divmod", "isinstance", "type", "slice", "deepcopy", "copy.deepcopy",
                      "copy.copy", "reduce", "functools.reduce", "math.", "str", "repr", "getattr", "partial", "np.unravel_index",
                      "np.ravel_multi_index", "np.ogrid", "np.mgrid", "np.full_like", "np.lib.stride_tricks.sliding_window_view_copy")
INPLACE_METHODS = {"sort", "fill", "resize", "put", "partition", "itemset", "setfield", "setflags", "byteswap_inplace"}
INPLACE_FUNCS = {"np.copyto": 0, "np.put": 0, "np.place": 0, "np.putmask": 0, "np.put_along_axis": 0, "np.fill_diagonal": 0,
                 "np.random.shuffle": 0}
MUTATING_CONTAINER_METHODS = {"append", "extend", "insert", "pop", "remove", "clear", "update", "setdefault", "reverse"}


_HELPER_CACHE = {}


def helper_returns_fresh(fn, fresh_callables, helpers):
    key = id(fn)
    if key in _HELPER_CACHE:
        return _HELPER_CACHE[key]
    _HELPER_CACHE[key] = False  # recursion guard
    own = Ownership(fn, fresh_callables=fresh_callables, helpers=helpers)
    rets = [n.value for n in ast.walk(fn) if isinstance(n, ast.Return) and n.value is not None]
    ok = bool(rets) and all(own.fresh(r) for r in rets)
    _HELPER_CACHE[key] = ok
    return ok


class Ownership:
    """flow-insensitive must-be-fresh analysis of one function"""

    def __init__(self, fn, frame=(), fresh_callables=(), helpers=None):
        self.fn = fn
        self.fresh_callables = set(fresh_callables)
        self.helpers = helpers or {}
        self.params = {a.arg for a in fn.args.args + fn.args.kwonlyargs}
        if fn.args.vararg:
            self.params.add(fn.args.vararg.arg)
        self.kwarg = fn.args.kwarg.arg if fn.args.kwarg else None  # **kwargs is a new dict per call
        self.local_defs = {n.name: n for n in ast.walk(fn) if isinstance(n, ast.FunctionDef) and n is not fn}
        self.frame = set(frame)  # parameters the function is *allowed* to write (declared frame)
        self.assigns = {}  # name -> list of value exprs
        self.assign_lines = {}
        self.collect()

    def collect(self):
        for n in ast.walk(self.fn):
            if isinstance(n, (ast.FunctionDef, ast.Lambda)) and n is not self.fn:
                continue
            if isinstance(n, ast.Assign):
                for t in n.targets:
                    self.bind(t, n.value)
            elif isinstance(n, ast.AnnAssign) and n.value is not None:
                self.bind(n.target, n.value)
            elif isinstance(n, ast.AugAssign) and isinstance(n.target, ast.Name):
                pass
            elif isinstance(n, (ast.For, ast.comprehension)):
                self.bind(n.target, ast.Subscript(value=n.iter, slice=ast.Constant(0), ctx=ast.Load()))
            elif isinstance(n, ast.With):
                for it in n.items:
                    if it.optional_vars is not None:
                        self.bind(it.optional_vars, it.context_expr)
            elif isinstance(n, ast.NamedExpr):
                self.bind(n.target, n.value)

    def bind(self, target, value):
        if isinstance(target, ast.Name):
            self.assigns.setdefault(target.id, []).append(value)
            self.assign_lines.setdefault(target.id, []).append((value, getattr(value, "lineno", getattr(target, "lineno", 0))))
        elif isinstance(target, (ast.Tuple, ast.List)):
            for i, t in enumerate(target.elts):
                if isinstance(value, (ast.Tuple, ast.List)) and len(value.elts) == len(target.elts):
                    self.bind(t, value.elts[i])
                else:
                    self.bind(t, ast.Subscript(value=value, slice=ast.Constant(i), ctx=ast.Load()))

    def reaching(self, name, line):
        """value expressions that may define `name` at `line` (None in the list = the initial value)"""
        last = None
        for st in self.fn.body:
            if st.lineno >= line:
                break
            end = getattr(st, "end_lineno", st.lineno)
            if end >= line:
                break  # the use is inside this statement
            if isinstance(st, ast.Assign) and any(isinstance(t, ast.Name) and t.id == name for t in st.targets):
                last = st
            elif self.copy_if_copyable(st, name):
                # `if hasattr(v, "copy"): v = v.copy()` -- values without .copy are immutable scalars:
                # equivalent to an unconditional defensive copy
                last = st.body[0]
            elif isinstance(st, (ast.AnnAssign,)) and isinstance(st.target, ast.Name) and st.target.id == name and st.value:
                last = st
        vals = []
        lo = last.lineno if last is not None else -1
        for v, ln in self.assign_lines.get(name, []):
            if ln >= lo and (line is None or ln < line or self.in_loop(ln, line)):
                vals.append(v)
        if last is None:
            vals.append(None)
        return vals

    @staticmethod
    def copy_if_copyable(st, name):
        if not (isinstance(st, ast.If) and not st.orelse and len(st.body) == 1 and isinstance(st.body[0], ast.Assign)):
            return False
        t = st.test
        if not (isinstance(t, ast.Call) and dotted(t.func) == "hasattr" and len(t.args) == 2 and dotted(t.args[0]) == name
                and isinstance(t.args[1], ast.Constant) and t.args[1].value == "copy"):
            return False
        a = st.body[0]
        return (len(a.targets) == 1 and dotted(a.targets[0]) == name and isinstance(a.value, ast.Call)
                and dotted(a.value.func) == f"{name}.copy" and not a.value.args)

    def in_loop(self, def_line, use_line):
        """a definition textually after the use can still reach it around a loop"""
        for n in ast.walk(self.fn):
            if isinstance(n, (ast.For, ast.While)) and n.lineno <= use_line <= getattr(n, "end_lineno", n.lineno) \
                    and n.lineno <= def_line <= getattr(n, "end_lineno", n.lineno):
                return True
        return False

    def fresh(self, e, depth=0, at=None):
        """True if the expression certainly denotes newly allocated storage (not reachable from a parameter)"""
        if at is None:
            at = getattr(e, "lineno", None)
        return self._fresh(e, depth, at, frozenset())

    def _fresh(self, e, depth, at, visiting):
        f = lambda x: self._fresh(x, depth + 1, at, visiting)
        if depth > 40:
            return False
        if isinstance(e, ast.Constant):
            return True
        if isinstance(e, (ast.BinOp, ast.UnaryOp, ast.Compare, ast.BoolOp)):
            if isinstance(e, ast.BoolOp):
                return all(f(v) for v in e.values)
            return True  # arithmetic / comparison on arrays allocates
        if isinstance(e, (ast.List, ast.Tuple, ast.Dict, ast.Set, ast.ListComp, ast.DictComp, ast.SetComp, ast.GeneratorExp,
                          ast.JoinedStr)):
            return True  # a new container (its elements may still be borrowed; element writes go through Subscript of elements)
        if isinstance(e, ast.IfExp):
            t = e.test
            if isinstance(t, ast.Call) and dotted(t.func) == "isinstance" and len(t.args) == 2 and dotted(t.args[1]) == "np.generic" \
                    and isinstance(e.body, ast.Call) and dotted(e.body.func) in ("np.asarray", "np.array"):
                return f(e.orelse)  # np.asarray of a NumPy scalar allocates a new 0-d array
            return f(e.body) and f(e.orelse)
        if isinstance(e, ast.Name):
            if e.id == self.kwarg:
                return True
            if (e.id, at) in visiting:
                return True  # coinductive, only around a loop: the same name at the same program point again
            vals = self.reaching(e.id, at)
            if not vals:
                return False
            v2 = visiting | {(e.id, at)}
            for v in vals:
                if v is None:
                    if e.id in self.params or e.id not in self.assigns:
                        return False
                    continue
                if not self._fresh(v, depth + 1, getattr(v, "lineno", at), v2):
                    return False
            return True
        if isinstance(e, ast.Subscript):
            return False if not self.fresh_container_elem(e, depth, at, visiting) else True
        if isinstance(e, ast.Attribute):
            d = dotted(e)
            if d and d.split(".")[0] in ("np", "numpy", "math"):
                return True  # module constant (np.nan, np.ma.masked, ...)
            return f(e.value)
        if isinstance(e, ast.Call):
            d = dotted(e.func) or ""
            kw = {k.arg: k.value for k in e.keywords}
            if "out" in kw:
                return f(kw["out"])
            if d in ALIASING_FUNCS:
                return all(f(a) for a in e.args[:1])
            if isinstance(e.func, ast.Name) and e.func.id in self.fresh_callables:
                return True
            if isinstance(e.func, ast.Name) and (e.func.id in self.local_defs or e.func.id in self.helpers):
                # summary of a local / same-module helper: fresh regardless of its arguments, or an alias of them
                h = self.local_defs.get(e.func.id) or self.helpers[e.func.id]
                if helper_returns_fresh(h, self.fresh_callables, self.helpers):
                    return True
                return all(f(a) for a in e.args) and all(f(k.value) for k in e.keywords)
            if isinstance(e.func, ast.Attribute):
                m = e.func.attr
                if m == "copy":
                    return True
                if m == "astype":
                    c = kw.get("copy")
                    if c is not None and isinstance(c, ast.Constant) and c.value is False:
                        return f(e.func.value)
                    return True
                if m in ALIASING_METHODS:
                    return f(e.func.value)
                if m in ("sum", "prod", "max", "min", "mean", "var", "std", "any", "all", "cumsum", "cumprod", "argmax",
                         "argmin", "nonzero", "tolist", "item", "round", "clip", "conj", "repeat", "take", "compress", "dot",
                         "filled", "flatten", "get", "keys", "values", "items", "split", "join", "format"):
                    return m not in ("get",) or f(e.func.value)
                if m in ("accumulate", "reduce", "outer", "reduceat"):
                    return True
            if d == "np.array":
                c = kw.get("copy")
                if c is not None and isinstance(c, ast.Constant) and c.value is False:
                    return all(f(a) for a in e.args[:1])
                return True
            if any(d.startswith(p) for p in FRESH_FUNCS_PREFIX):
                return True
            return False  # unknown call: may return an alias of its arguments
        return False

    def fresh_container_elem(self, e, depth, at=None, visiting=frozenset()):
        # x[i] is fresh storage only if x is a fresh *container literal of fresh things*: be conservative
        base = e.value
        if isinstance(base, ast.Name) and base.id not in self.params:
            vals = self.assigns.get(base.id, [])
            if vals and all(isinstance(v, (ast.List, ast.Tuple, ast.ListComp)) for v in vals):
                elts = []
                for v in vals:
                    if isinstance(v, (ast.List, ast.Tuple)):
                        elts += v.elts
                    else:
                        elts.append(v.elt)
                return bool(elts) and all(self._fresh(x, depth + 1, at, visiting) for x in elts)
        return False

    def write_sites(self):
        out = []
        for n in ast.walk(self.fn):
            if isinstance(n, (ast.Assign, ast.AugAssign, ast.AnnAssign)):
                tgts = n.targets if isinstance(n, ast.Assign) else [n.target]
                for t in tgts:
                    for tt in (t.elts if isinstance(t, (ast.Tuple, ast.List)) else [t]):
                        if isinstance(tt, ast.Subscript):
                            out.append((n.lineno, "element store", tt.value, ast.unparse(tt)[:50]))
                        elif isinstance(tt, ast.Attribute) and not (isinstance(tt.value, ast.Name) and tt.value.id == "self"):
                            out.append((n.lineno, "attribute store", tt.value, ast.unparse(tt)[:50]))
                        elif isinstance(n, ast.AugAssign) and isinstance(tt, ast.Name):
                            out.append((n.lineno, "augmented assignment (in place for arrays)", tt, ast.unparse(n)[:50]))
            elif isinstance(n, ast.Call):
                d = dotted(n.func) or ""
                for k in n.keywords:
                    if k.arg == "out" and not (isinstance(k.value, ast.Constant) and k.value.value is None):
                        out.append((n.lineno, "out= argument", k.value, ast.unparse(n)[:60]))
                if d in INPLACE_FUNCS and n.args:
                    out.append((n.lineno, f"{d} (in place)", n.args[INPLACE_FUNCS[d]], ast.unparse(n)[:60]))
                if isinstance(n.func, ast.Attribute) and n.func.attr in INPLACE_METHODS \
                        and not (isinstance(n.func.value, ast.Name) and n.func.value.id in ("np", "numpy", "chunk", "math")):
                    out.append((n.lineno, f".{n.func.attr}() (in place)", n.func.value, ast.unparse(n)[:60]))
                if isinstance(n.func, ast.Attribute) and n.func.attr in MUTATING_CONTAINER_METHODS:
                    out.append((n.lineno, f".{n.func.attr}() (container mutation)", n.func.value, ast.unparse(n)[:60]))
            elif isinstance(n, ast.Delete):
                for t in n.targets:
                    if isinstance(t, ast.Subscript):
                        out.append((n.lineno, "element delete", t.value, ast.unparse(t)[:50]))
        return out

    def root(self, e):
        while isinstance(e, (ast.Subscript, ast.Attribute)):
            e = e.value
        return e

    def check(self):
        res = []
        for line, kind, target, text in self.write_sites():
            r = self.root(target)
            allowed = isinstance(r, ast.Name) and r.id in self.frame
            ok = allowed or self.fresh(target, at=line)
            res.append({"line": line, "kind": kind, "target": ast.unparse(target)[:60], "text": text, "ok": ok,
                        "declared_frame": allowed})
        return res


KERNEL_FILES = {
    # file -> None (all module-level functions) or list of qualified names
    "dask_array/_chunk.py": None,
    "dask_array/chunk.py": None,
    "dask_array/reductions/_common.py": ["divide", "numel", "nannumel", "chunk_min", "chunk_max", "_nanmin_skip", "_nanmax_skip",
                                         "mean_chunk", "mean_combine", "mean_agg", "moment_chunk", "_moment_helper",
                                         "moment_combine", "moment_agg", "_sqrt", "safe_sqrt", "_arg_combine", "arg_chunk",
                                         "arg_combine", "arg_agg", "nanarg_agg", "_nanargmin", "_nanargmax", "_span_indexers",
                                         "_custom_quantile"],
    "dask_array/reductions/_cumulative.py": ["_cumsum_merge", "_cumprod_merge", "_cum_tail", "_prefixscan_first",
                                             "_prefixscan_combine"],
    "dask_array/reductions/_sliding_window.py": ["_sliding_window_banded_reduce", "_moving_window_banded_reduce",
                                                 "_sliding_window_block_total"],
    "dask_array/slicing/_utils.py": ["setitem"],
    "dask_array/_core_utils.py": ["_enforce_dtype", "_elemwise_handle_where", "getter", "getter_nofancy", "getter_inline",
                                  "concatenate3", "_vindex_merge", "_vindex_slice_and_transpose", "finalize", "_concatenate2",
                                  "apply_and_enforce", "_pass_extra_kwargs"],
    "dask_array/_overlap.py": ["_trim", "trim_overlap_chunk", "_remove_overlap_boundaries"],
    "dask_array/_shuffle.py": ["concatenate_arrays", "_getitem", "_shuffle_getitem"],
    "dask_array/io/_store.py": ["load_store_chunk", "load_chunk"],
}

# declared frames: parameters a kernel is allowed to write, with the reason
DECLARED_FRAMES = {
    ("dask_array/io/_store.py", "load_store_chunk"): {"out": "the store target: writing it is the function's purpose (C25)"},
    ("dask_array/io/_store.py", "load_chunk"): {
        "out": "forwarded to load_store_chunk with x=None, which then only reads out[index] (load of a stored chunk)"},
    ("dask_array/_chunk.py", "coarsen"): {
        "axes": "a plain dict argument (neither a task value nor an array): idempotent insertion of identity factors for the "
                "missing axes; observation O1 in DESIGN.md (the caller's dict does gain keys)"},
    ("dask_array/slicing/_utils.py", "setitem"): {
        "indices": "a per-call task-spec List(...) rebuilt for every invocation (setitem_array_expr); only list slots are rebound"},
}


# callables (parameters / locals) that are NumPy ufuncs or chunk-level reductions: calling them without out= allocates.
# Declared assumptions, listed in evidence.
DECLARED_FRESH_CALLABLES = {
    ("dask_array/reductions/_sliding_window.py", "_sliding_window_banded_reduce"): {"ufunc", "scan_ufunc"},
    ("dask_array/reductions/_sliding_window.py", "_moving_window_banded_reduce"): {"ufunc", "scan_ufunc"},
    ("dask_array/reductions/_sliding_window.py", "_sliding_window_block_total"): {"ufunc"},
    ("dask_array/reductions/_common.py", "arg_chunk"): {"func", "argfunc"},
    ("dask_array/reductions/_common.py", "_arg_combine"): {"argfunc"},
    ("dask_array/reductions/_common.py", "moment_agg"): {"sum"},
    ("dask_array/reductions/_common.py", "moment_combine"): {"sum"},
    ("dask_array/reductions/_common.py", "mean_combine"): {"sum"},
    ("dask_array/reductions/_common.py", "mean_agg"): {"sum"},
}


# parameters owned by the callee by contract: every call site must pass freshly allocated storage (a call-pre obligation)
DECLARED_OWNED = {
    ("dask_array/reductions/_reduction.py", "sliding_window_finalize"): {
        "out": "the accumulator freshly allocated by sliding_window_reduce_block (np.array(..., copy=True))"},
}


INPLACE_FLAGS = {"overwrite_input", "overwrite_a", "overwrite_b", "overwrite_x", "overwrite_ab", "overwrite_v", "overwrite_data"}


def kernel_functions(repo):
    out = []
    for rel, names in KERNEL_FILES.items():
        path = os.path.join(repo, rel)
        if not os.path.exists(path):
            continue
        tree, _ = parse(repo, rel)
        for node in tree.body:
            if isinstance(node, ast.FunctionDef) and (names is None or node.name in names):
                out.append((rel, node.name, node))
            elif isinstance(node, ast.ClassDef):
                for m in node.body:
                    if isinstance(m, ast.FunctionDef) and names is not None and f"{node.name}.{m.name}" in names:
                        out.append((rel, f"{node.name}.{m.name}", m))
    # reduction classes: chunk-level staticmethods / block reducers
    rel = "dask_array/reductions/_reduction.py"
    if os.path.exists(os.path.join(repo, rel)):
        tree, _ = parse(repo, rel)
        for node in ast.walk(tree):
            if isinstance(node, ast.FunctionDef) and ("sliding_window" in node.name and ("block" in node.name or "finalize" in node.name)):
                out.append((rel, node.name, node))
    return out


def kernels(repo):
    sites = 0
    failures = []
    funcs = kernel_functions(repo)
    per_fn = []
    helpers_by_file = {}
    for rel, name, node in funcs:
        if rel not in helpers_by_file:
            tree, _ = parse(repo, rel)
            helpers_by_file[rel] = {n.name: n for n in tree.body if isinstance(n, ast.FunctionDef)}
        frame = dict(DECLARED_FRAMES.get((rel, name), {}))
        frame.update(DECLARED_OWNED.get((rel, name), {}))
        fc = DECLARED_FRESH_CALLABLES.get((rel, name), set())
        own = Ownership(node, frame=frame.keys(), fresh_callables=fc, helpers=helpers_by_file[rel])
        res = own.check()
        # nested helper functions are analysed with their own parameters
        for inner in ast.walk(node):
            if isinstance(inner, ast.FunctionDef) and inner is not node:
                res += Ownership(inner, fresh_callables=fc, helpers=helpers_by_file[rel]).check()
        sites += len(res)
        per_fn.append({"function": f"{rel}::{name}", "write_sites": len(res)})
        for r in res:
            if not r["ok"]:
                failures.append({"site": f"{rel}:{r['line']} in {name}",
                                 "what": f"{r['kind']} `{r['text']}`: the target `{r['target']}` may alias a value the task "
                                         "borrowed from its inputs (not provably fresh storage)"})
    # call-pre obligations of owned parameters
    for (rel, fname), owned in DECLARED_OWNED.items():
        tree, _ = parse(repo, rel)
        for caller in ast.walk(tree):
            if not isinstance(caller, ast.FunctionDef):
                continue
            for n in ast.walk(caller):
                if isinstance(n, ast.Call) and (dotted(n.func) or "").split(".")[-1] == fname and n.args:
                    sites += 1
                    own = Ownership(caller, helpers=helpers_by_file.get(rel, {}))
                    if not own.fresh(n.args[0], at=n.lineno):
                        failures.append({"site": f"{rel}:{n.lineno} in {caller.name}",
                                         "what": f"call of {fname} passes `{ast.unparse(n.args[0])[:40]}` which is not provably fresh, "
                                                 f"but {fname} writes into that parameter in place"})
    # third-party callables used as tasks (np.median, np.partition, scipy.linalg.*, ...) mutate their *input* when asked to
    # with an in-place flag: anywhere in the library, such a flag may only be passed as the constant False
    for rel in all_modules(repo):
        if "/tests/" in rel:
            continue
        tree, _ = parse(repo, rel)
        for n in ast.walk(tree):
            found = []
            if isinstance(n, ast.Call):
                found += [(k.arg, k.value, n.lineno) for k in n.keywords if k.arg in INPLACE_FLAGS]
            elif isinstance(n, ast.Assign):
                for t in n.targets:
                    if isinstance(t, ast.Subscript) and isinstance(t.slice, ast.Constant) and t.slice.value in INPLACE_FLAGS:
                        found.append((t.slice.value, n.value, n.lineno))
            elif isinstance(n, ast.Dict):
                found += [(k.value, v, n.lineno) for k, v in zip(n.keys, n.values)
                          if isinstance(k, ast.Constant) and k.value in INPLACE_FLAGS]
            for flag, value, line in found:
                sites += 1
                if not (isinstance(value, ast.Constant) and value.value is False):
                    failures.append({"site": f"{rel}:{line}",
                                     "what": f"in-place flag `{flag}={ast.unparse(value)[:30]}` is handed to a callable: it lets a "
                                             "task overwrite a block it only borrowed from its inputs"})
    return {"sites": sites, "failures": failures, "undecided": [], "functions": len(funcs), "per_function": per_fn,
            "declared_frames": {f"{k[0]}::{k[1]}": v for k, v in {**DECLARED_FRAMES, **DECLARED_OWNED}.items()},
            "declared_fresh_callables": {f"{k[0]}::{k[1]}": sorted(v) for k, v in DECLARED_FRESH_CALLABLES.items()}}


# --------------------------------------------------------------------------
# C11: Array._expr only assigned in the sanctioned methods
# --------------------------------------------------------------------------
def inplace(repo):
    rel = "dask_array/_collection.py"
    tree, _ = parse(repo, rel)
    sites = 0
    failures = []
    allowed = {"__init__", "_replace_expr", "__setstate__", "__new__"}
    cls = next(n for n in tree.body if isinstance(n, ast.ClassDef) and n.name == "Array")
    for fn in cls.body:
        if not isinstance(fn, ast.FunctionDef):
            continue
        for n in ast.walk(fn):
            tgts = []
            if isinstance(n, ast.Assign):
                tgts = n.targets
            elif isinstance(n, (ast.AugAssign, ast.AnnAssign)):
                tgts = [n.target]
            for t in tgts:
                if isinstance(t, ast.Attribute) and t.attr == "_expr" and isinstance(t.value, ast.Name) and t.value.id == "self":
                    sites += 1
                    if fn.name not in allowed:
                        failures.append({"site": f"{rel}:{n.lineno} in Array.{fn.name}",
                                         "what": "assignment to self._expr outside __init__/_replace_expr/__setstate__"})
            if isinstance(n, ast.Call) and (dotted(n.func) or "") in ("object.__setattr__", "setattr") and len(n.args) >= 2 \
                    and isinstance(n.args[1], ast.Constant) and n.args[1].value == "_expr":
                sites += 1
                if fn.name not in allowed:
                    failures.append({"site": f"{rel}:{n.lineno} in Array.{fn.name}", "what": "setattr(_expr) outside the sanctioned methods"})
    # _replace_expr drops every derived cache unconditionally: every cached_property of Array must be popped from
    # self.__dict__ by a statement that is not under any condition
    import functools as _ft
    cached = set()
    for fn in cls.body:
        if isinstance(fn, ast.FunctionDef):
            for d in fn.decorator_list:
                if (dotted(d) or "").split(".")[-1] == "cached_property":
                    cached.add(fn.name)
    rep = next((fn for fn in cls.body if isinstance(fn, ast.FunctionDef) and fn.name == "_replace_expr"), None)
    dropped = set()
    if rep is not None:
        for stt in rep.body:  # top-level statements only: unconditional
            if isinstance(stt, ast.For) and isinstance(stt.iter, (ast.Tuple, ast.List)) and isinstance(stt.target, ast.Name) \
                    and all(isinstance(e, ast.Constant) for e in stt.iter.elts):
                names = [e.value for e in stt.iter.elts]
                for b in stt.body:  # directly in the loop body: unconditional per name
                    if isinstance(b, ast.Expr) and isinstance(b.value, ast.Call) and dotted(b.value.func) == "self.__dict__.pop" \
                            and b.value.args and isinstance(b.value.args[0], ast.Name) and b.value.args[0].id == stt.target.id:
                        dropped.update(names)
            elif isinstance(stt, ast.Expr) and isinstance(stt.value, ast.Call) and dotted(stt.value.func) == "self.__dict__.pop" \
                    and stt.value.args and isinstance(stt.value.args[0], ast.Constant):
                dropped.add(stt.value.args[0].value)
    for name in sorted(cached):
        sites += 1
        if name not in dropped:
            failures.append({"site": f"{rel}:{rep.lineno if rep else 0} in Array._replace_expr",
                             "what": f"the cached derivation `{name}` is not dropped unconditionally when the expression is swapped in "
                                     "place, so the collection can keep advertising keys / a lowered graph of its previous expression"})
    # no expression class assigns to `operands` / mutates an operand after construction
    for mrel in all_modules(repo):
        tree, _ = parse(repo, mrel)
        for c in ast.walk(tree):
            if not isinstance(c, ast.ClassDef):
                continue
            for fn in c.body:
                if not isinstance(fn, ast.FunctionDef) or fn.name in ("__init__", "__new__", "__setstate__"):
                    continue
                for n in ast.walk(fn):
                    tgts = n.targets if isinstance(n, ast.Assign) else ([n.target] if isinstance(n, ast.AugAssign) else [])
                    for t in tgts:
                        base = t
                        while isinstance(base, ast.Subscript):
                            base = base.value
                        if isinstance(base, ast.Attribute) and base.attr == "operands" and isinstance(base.value, ast.Name) \
                                and base.value.id == "self":
                            sites += 1
                            failures.append({"site": f"{mrel}:{n.lineno} in {c.name}.{fn.name}",
                                             "what": "an expression mutates its operands after construction"})
    sites += 1
    return {"sites": sites, "failures": failures, "undecided": []}


# --------------------------------------------------------------------------
# C23: the generator operands of random nodes are only read through copies
# --------------------------------------------------------------------------
RNG_OPERANDS = ("rng", "_state")
RNG_NODE_FILES = ("dask_array/random/_expr.py", "dask_array/random/_choice.py", "dask_array/_frisky/random.py")
RNG_BUILD_FILES = ("dask_array/random/_utils.py", "dask_array/random/_generator.py", "dask_array/random/_random_state.py")


def _parents(tree):
    par = {}
    for n in ast.walk(tree):
        for c in ast.iter_child_nodes(n):
            par[id(c)] = n
    return par


def _is_copy_call(n):
    return isinstance(n, ast.Call) and (dotted(n.func) or "") in ("copy.deepcopy", "deepcopy") and len(n.args) == 1


def rngreads(repo):
    """A random node must be a function of its operands alone (it is re-created from them by rewrites, lowering and
    unpickling).  Its generator operand is mutable, so (1) inside the node classes every read of the generator operand is
    the argument of copy.deepcopy (or of isinstance / type), and (2) every construction of a node class receives, at the
    generator's operand position, a state of the node's own: copy.deepcopy(...), _spawn_bitgens(...)[k], or a local bound
    to one of those."""
    sites = 0
    failures = []
    undecided = []
    node_classes = {}   # class name -> index of the generator operand in _parameters
    trees = {}
    for rel in RNG_NODE_FILES + RNG_BUILD_FILES:
        try:
            trees[rel] = parse(repo, rel)[0]
        except FileNotFoundError:
            continue
    for rel in RNG_NODE_FILES:
        tree = trees.get(rel)
        if tree is None:
            continue
        for cls in [n for n in ast.walk(tree) if isinstance(n, ast.ClassDef)]:
            for st in cls.body:
                if isinstance(st, ast.Assign) and any(isinstance(t, ast.Name) and t.id == "_parameters" for t in st.targets) \
                        and isinstance(st.value, (ast.List, ast.Tuple)):
                    names = [e.value for e in st.value.elts if isinstance(e, ast.Constant)]
                    for g in RNG_OPERANDS:
                        if g in names:
                            node_classes[cls.name] = names.index(g)
    # subclasses without their own _parameters inherit the position
    changed = True
    while changed:
        changed = False
        for rel in RNG_NODE_FILES:
            tree = trees.get(rel)
            if tree is None:
                continue
            for cls in [n for n in ast.walk(tree) if isinstance(n, ast.ClassDef)]:
                if cls.name not in node_classes:
                    for b in cls.bases:
                        if (dotted(b) or "").split(".")[-1] in node_classes:
                            node_classes[cls.name] = node_classes[(dotted(b) or "").split(".")[-1]]
                            changed = True
    # (1) reads inside the node files
    PURE = ("copy.deepcopy", "deepcopy", "isinstance", "type", "tokenize", "typename", "id")

    def use_is_pure(n, par):
        """n: an expression denoting the live generator operand (or a sub-object of it). Returns (ok, reason, alias)"""
        top = n
        p_ = par.get(id(top))
        while isinstance(p_, ast.Attribute) and p_.value is top:       # x.rng._bit_generator ...
            top, p_ = p_, par.get(id(p_))
        if isinstance(p_, ast.Call) and p_.func is top and top is not n:
            return False, f"a method is called on the live generator ({ast.unparse(p_)[:70]})", None
        if isinstance(p_, ast.Call) and any(a is top for a in p_.args) or \
                isinstance(p_, ast.keyword) or isinstance(p_, ast.Starred):
            call = p_ if isinstance(p_, ast.Call) else par.get(id(p_))
            if isinstance(call, ast.Call) and (dotted(call.func) or "") in PURE:
                return True, None, None
            return False, f"the live generator is handed to {ast.unparse(call.func) if isinstance(call, ast.Call) else '?'}(...)", None
        if isinstance(p_, ast.Assign) and p_.value is top and len(p_.targets) == 1 and isinstance(p_.targets[0], ast.Name):
            return True, None, p_.targets[0].id
        if isinstance(p_, (ast.Compare, ast.BoolOp, ast.UnaryOp, ast.If, ast.IfExp, ast.Expr)):
            return True, None, None
        return None, f"the live generator (or a part of it) flows into {ast.unparse(p_)[:70] if p_ is not None else '?'}", None

    for rel in RNG_NODE_FILES:
        tree = trees.get(rel)
        if tree is None:
            continue
        par = _parents(tree)
        for fn in [n for n in ast.walk(tree) if isinstance(n, ast.FunctionDef)]:
            work = []
            for n in ast.walk(fn):
                if isinstance(n, ast.Attribute) and n.attr in RNG_OPERANDS and isinstance(n.ctx, ast.Load):
                    work.append(n)
                elif isinstance(n, ast.Call) and (dotted(n.func) or "").endswith(".operand") and n.args \
                        and isinstance(n.args[0], ast.Constant) and n.args[0].value in RNG_OPERANDS:
                    work.append(n)
            aliases = set()
            done = set()
            while work:
                n = work.pop()
                if id(n) in done:
                    continue
                done.add(id(n))
                sites += 1
                ok, why, alias = use_is_pure(n, par)
                if alias is not None and alias not in aliases:
                    aliases.add(alias)
                    work.extend(m for m in ast.walk(fn) if isinstance(m, ast.Name) and m.id == alias and isinstance(m.ctx, ast.Load))
                if ok is None:
                    undecided.append({"site": f"{rel}:{n.lineno} {ast.unparse(n)} in {fn.name}", "what": why + " (not followed further)"})
                elif not ok:
                    failures.append({"site": f"{rel}:{n.lineno} {ast.unparse(n)} in {fn.name}",
                                     "what": f"{why}: the generator operand is not read through copy.deepcopy, so deriving from it "
                                             "advances a value the node is re-created from, and a re-created node (rewrite of a "
                                             "parameter, lowering, unpickling) is another realization"})
    # (2) constructions
    for rel in RNG_NODE_FILES + RNG_BUILD_FILES:
        tree = trees.get(rel)
        if tree is None:
            continue
        for fn in [n for n in ast.walk(tree) if isinstance(n, ast.FunctionDef)]:
            own = set()
            for n in ast.walk(fn):
                if isinstance(n, ast.Assign) and len(n.targets) == 1 and isinstance(n.targets[0], ast.Name) and _own_state(n.value, own):
                    own.add(n.targets[0].id)
            params = {a.arg for a in fn.args.args}
            for n in ast.walk(fn):
                if not isinstance(n, ast.Call):
                    continue
                callee = (dotted(n.func) or "").split(".")[-1]
                if callee in node_classes:
                    pos = node_classes[callee]
                elif callee == "cls" and "cls" in params and fn.name == "_new_random":
                    pos = 0
                else:
                    continue
                if any(isinstance(a, ast.Starred) for a in n.args[: pos + 1]) or len(n.args) <= pos:
                    # re-creation from operands (type(self)(*operands)) carries the node's own state along
                    continue
                sites += 1
                if not _own_state(n.args[pos], own):
                    failures.append({"site": f"{rel}:{n.lineno} {callee}(...) in {fn.name}",
                                     "what": f"a random node is built on `{ast.unparse(n.args[pos])[:60]}`, which is not a state of its own "
                                             "(copy.deepcopy(...) / _spawn_bitgens(...)[k]): the node shares a mutable generator with "
                                             "its caller"})
    return {"sites": sites, "failures": failures, "undecided": undecided, "node_classes": sorted(node_classes)}


def _own_state(e, own):
    if _is_copy_call(e):
        return True
    if isinstance(e, ast.Subscript) and isinstance(e.value, ast.Call) and (dotted(e.value.func) or "").split(".")[-1] == "_spawn_bitgens":
        return True
    if isinstance(e, ast.Name) and e.id in own:
        return True
    return False


ANALYSES = {"kernels": kernels, "importfx": importfx, "srcreads": srcreads, "inplace": inplace, "rngreads": rngreads}


def run(rep, names, repo, known, tier):
    cov = {"sites": 0, "analyses": {}}
    for name in names:
        r = ANALYSES[name](repo)
        cov["sites"] += r["sites"]
        cov["analyses"][name] = {k: v for k, v in r.items() if k not in ("failures",)}
        cov["analyses"][name]["failures"] = len(r["failures"])
        if r["sites"] == 0:
            rep.errors.append(f"frame analysis {name} found no sites to check (vacuous)")
        for f in r["failures"]:
            kf = None
            for k in known:
                if k.get("analysis") == name and k.get("site_contains") and k["site_contains"] in f["site"]:
                    kf = k
            if kf is not None:
                if not any(x[1] is kf for x in rep.known_printed):
                    rep.known_printed.append((name, kf))
                    rep.say(f"KNOWN-FINDING: property={rep.prop} {kf['what']}")
                continue
            payload = {"property": rep.prop, "kind": "frame", "analysis": name, "args": f, **f}
            path = D.write_replay(rep.prop, f"{name}-{f['site']}", payload)
            rep.violations.append((name, path, f["site"]))
            # a frame analysis names the offending site; it has no failing input to replay
            rep.say(f"VIOLATION property={rep.prop} replay={path} no-failing-input-found")
            rep.say(f"  {f['site']}: {f['what']}")
        for u in r["undecided"]:
            rep.undecided.append(f"{name}: {u['site']}: {u['what']}")
            rep.say(f"UNDECIDED {name}: {u['site']}: {u['what']}")
    return cov
